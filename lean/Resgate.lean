import Resgate.Model.Basic
import Resgate.Model.Rid
import Resgate.Model.Pattern
import Resgate.Model.Diff
import Resgate.Model.Http
import Resgate.Model.Throttle
import Resgate.Driver
