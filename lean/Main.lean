import Resgate.Driver

def main (args : List String) : IO UInt32 := Resgate.Driver.main args
