import Resgate.Model.Basic
import Resgate.Model.Rid
import Resgate.Model.Pattern
import Resgate.Model.Diff
import Resgate.Model.Http
import Resgate.Model.Throttle
import Resgate.Gw.Run
import Resgate.Model.Encode
import Resgate.Model.HttpDispatch
import Resgate.Model.Svc
import Resgate.Model.Nats

/-
Line-protocol driver: one operation per input line, one canonical result per output line.
Byte strings travel as lower-case hex, `-` is the empty string.  Unknown or malformed operations
answer `bad-op` (never a defaulted value).
-/

namespace Resgate.Driver
open Resgate

def hexVal (c : Char) : Option Nat :=
  if '0' ≤ c ∧ c ≤ '9' then some (c.toNat - 48)
  else if 'a' ≤ c ∧ c ≤ 'f' then some (c.toNat - 87)
  else none

def unhexAux : List Char → Option Bytes
  | [] => some []
  | a :: b :: rest => do
    let x ← hexVal a
    let y ← hexVal b
    let r ← unhexAux rest
    pure ((x * 16 + y) :: r)
  | _ => none

def unhex (s : String) : Option Bytes := if s = "-" then some [] else unhexAux s.toList

def hexDigit (n : Nat) : Char := if n < 10 then Char.ofNat (48 + n) else Char.ofNat (87 + n)

def hex (b : Bytes) : String :=
  if b.isEmpty then "-" else String.ofList (b.flatMap fun n => [hexDigit (n / 16 % 16), hexDigit (n % 16)])

def b2s (b : Bool) : String := if b then "1" else "0"

def kindStr : RpcKind → String
  | .get => "get" | .subscribe => "subscribe" | .unsubscribe => "unsubscribe"
  | .call => "call" | .auth => "auth" | .new => "new"

def parseInts (ws : List String) : Option (List Int) := ws.mapM String.toInt?

def cevStr : CEv Int → String
  | .remove i => s!"r{i}"
  | .add i v => s!"a{i}:{v}"

def splitBar (ws : List String) : List String × List String :=
  let a := ws.takeWhile (· ≠ "|")
  let b := (ws.dropWhile (· ≠ "|")).drop 1
  (a, b)

def optStr : Option Int → String
  | none => "del" | some v => toString v

def parseKV (ws : List String) : Option (KV Int Int) :=
  ws.mapM fun w => match w.splitOn "=" with
    | [k, v] => do pure ((← k.toInt?), (← v.toInt?))
    | _ => none

def parseKVOpt (ws : List String) : Option (KV Int (Option Int)) :=
  ws.mapM fun w => match w.splitOn "=" with
    | [k, "del"] => do pure ((← k.toInt?), none)
    | [k, v] => do pure ((← k.toInt?), some (← v.toInt?))
    | _ => none

def sortKV {β} (l : List (Int × β)) : List (Int × β) :=
  (l.toArray.qsort (fun a b => a.1 < b.1)).toList

def hdrParse (ws : List String) : Option Headers :=
  ws.mapM fun w => match w.splitOn "=" with
    | k :: vs => do
      let kb ← unhex k
      let vbs ← (vs.filter (· ≠ "")).mapM unhex
      pure (kb, vbs)
    | _ => none

def hdrStr (h : Headers) : String :=
  let items := h.map fun (k, vs) => hex k ++ String.join (vs.map fun v => "=" ++ hex v)
  " ".intercalate (items.toArray.qsort (· < ·)).toList

def topParse (ws : List String) : Option (List TOp) :=
  ws.mapM fun w =>
    if w = "d" then some TOp.done
    else if w.startsWith "a" then (w.drop 1).toNat?.map TOp.add
    else none

/-- Evaluate one request line. -/
def evalLine (line : String) : String :=
  match (line.trimAscii.toString.splitOn " ").filter (· ≠ "") with
  | ["validrid", h, q] =>
    match unhex h with
    | some b => b2s (isValidRID b (q = "1"))
    | none => "bad-op"
  | ["validpart", h] =>
    match unhex h with
    | some b => b2s (isValidRIDPart b)
    | none => "bad-op"
  | ["rpc", h] =>
    match unhex h with
    | some m =>
      match rpcDispatch m with
      | .version => "version"
      | .invalid => "invalid"
      | .req k rid method => s!"req {kindStr k} {hex rid} {hex method}"
    | none => "bad-op"
  | ["rpcs", h, c] =>
    match unhex h, unhex c with
    | some m, some cid =>
      match rpcDispatch m with
      | .version => "version"
      | .invalid => "invalid"
      | .req k rid method =>
        let subs := subjectsFor cid k rid method
        s!"req {kindStr k} {hex rid} {hex method} " ++ " ".intercalate (subs.map hex) ++
          s!" hyg={b2s (subs.all hygienic)}"
    | _, _ => "bad-op"
  | ["expandcid", h, c] =>
    match unhex h, unhex c with
    | some r, some cid => hex (expandCID cid r)
    | _, _ => "bad-op"
  | ["pat", p, s] =>
    match unhex p, unhex s with
    | some pb, some sb =>
      let pat := parsePattern pb
      match pat.matches? sb with
      | some m => s!"{b2s pat.isValid} {b2s m}"
      | none => "panic"
    | _, _ => "bad-op"
  | ["cancall", c, a] =>
    match unhex c, unhex a with
    | some cb, some ab => b2s (canCall cb ab)
    | _, _ => "bad-op"
  | "lcs" :: rest =>
    let (a, b) := splitBar rest
    match parseInts a, parseInts b with
    | some av, some bv =>
      let evs := lcs (fun x y => x == y) av bv
      let ok := match applyCEvs av evs with
        | some r => b2s (r == bv)
        | none => "oob"
      " ".intercalate (evs.map cevStr ++ [s!"ok={ok}"])
    | _, _ => "bad-op"
  | "mdiff" :: rest =>
    let (a, b) := splitBar rest
    match parseKV a, parseKV b with
    | some old, some new =>
      let d := modelDiff (fun (x y : Int) => x == y) old new
      " ".intercalate ((sortKV d).map fun (k, v) => s!"{k}={optStr v}")
    | _, _ => "bad-op"
  | "change" :: rest =>
    let (a, b) := splitBar rest
    match parseKV a, parseKVOpt b with
    | some m, some ch =>
      let (m', eff) := applyChange (fun (x y : Int) => x == y) m ch
      " ".intercalate ((sortKV m').map fun (k, v) => s!"{k}={v}") ++ " | " ++
        " ".intercalate ((sortKV eff).map fun (k, v) => s!"{k}={optStr v}")
    | _, _ => "bad-op"
  | ["canon", h] =>
    match unhex h with
    | some b => hex (canonicalMIME b)
    | none => "bad-op"
  | "merge" :: rest =>
    let (a, b) := splitBar rest
    match hdrParse a, hdrParse b with
    | some ha, some hb => hdrStr (mergeHeader ha hb)
    | _, _ => "bad-op"
  | "origin" :: o :: os =>
    match unhex o, os.mapM unhex with
    | some ob, some osb => b2s (matchesOrigins osb ob)
    | _, _ => "bad-op"
  | "cors" :: mode :: o :: os =>
    -- origin: "absent" = no header, otherwise hex ("-" = present but empty); mode "http" = the
    -- WebSocket verdict is not compared (the HTTP client library rewrites such header values)
    match (if o == "absent" then some none else (unhex o).map some), os.mapM unhex with
    | some ob, some osb =>
      let c := corsDecision osb ob
      (if c.refused then "refused" else "ok") ++ " acao=" ++ (match c.acao with | some a => hex a | none => "-") ++
        " vary=" ++ b2s c.vary ++ " ws=" ++ (if mode == "http" then "skip" else b2s (wsOriginOK osb ob))
    | _, _ => "bad-op"
  | ["wsauth", st] =>
    -- upgrade with header authentication: only a direct status of the auth answer refuses it
    match st.toInt? with
    | some n => if isDirectStatus (some n) then s!"refused {n}" else "upgrade"
    | none => "upgrade"
  | ["lower", h] =>
    match unhex h with
    | some b => hex (toLowerASCII b)
    | none => "bad-op"
  | "throttle" :: lim :: ops =>
    match lim.toInt?, topParse ops with
    | some l, some tops =>
      match (Throttle.new l).run tops with
      | none => "panic"
      | some (t, started) =>
        s!"running={t.running} queue={t.queue.length} started=" ++ ",".intercalate (started.map toString)
    | _, _ => "bad-op"
  | ["natsguard", l, d] =>
    match l.toNat?, d.toNat? with
    | some l, some d => if Nats.requestRefused l d then "subjectTooLong" else "pass"
    | _, _ => "bad-op"
  | "nats" :: ins =>
    let parse : String → Option Nats.In := fun t =>
      if t == "reply" then some .reply
      else if t == "noResponders" then some .noResponders
      else if t == "pre0" then some (.pre false)
      else if t == "pre1" then some (.pre true)
      else if t == "fireQueue" then some .fireQueue
      else if t.startsWith "fireExtended" then (t.drop 12).toString.toNat?.map Nats.In.fireExtended
      else none
    match ins.mapM parse with
    | none => "bad-op"
    | some is =>
      let (_, cbs) := Nats.run (.pending .queue 0) is
      ",".intercalate (cbs.map fun c => match c with | .reply => "reply" | .notFound => "notFound" | .timeout => "timeout")
  | "svc" :: ops =>
    let rec go (st : Svc.S) (acc : List String) : List String → List String
      | [] => acc.reverse
      | op :: rest =>
        if op == "start" then
          let (s1, o) := Svc.step st .start
          go s1 ((match o with | .started => "started" | .startNoop => "startNoop" | _ => "startRefused") :: acc) rest
        else if op == "stop" || op.startsWith "closed" || op == "stopc" || op == "stoph" then
          -- `stopc` / `stoph`: a WebSocket upgrade / an HTTP request arrives between the two
          -- locked sections of Stop (sockets already closed, messaging client still closing)
          let cause := if op.startsWith "closed" then some "lost" else none
          let (s1, o) := Svc.step st (.stopBegin cause)
          let (s1, acc1) :=
            if op == "stopc" then
              let (sa, oa) := Svc.step s1 .connect
              (sa, (match oa with | .connected => "connected" | _ => "refused") :: acc)
            else if op == "stoph" then
              let (_, oa) := Svc.step s1 .connect
              (s1, (match oa with | .connected => "401" | _ => "503") :: acc)
            else (s1, acc)
          match o with
          | .stopNoop => go s1 ("stopNoop" :: acc1) rest
          | _ =>
            let (s2, o2) := Svc.step s1 .stopEnd
            match o2 with
            | .stopped c n => go s2 (s!"stopped:{c.getD "nil"}:closed={n}" :: acc1) rest
            | _ => go s2 ("?" :: acc1) rest
        else if op == "conn" then
          let (s1, o) := Svc.step st .connect
          go s1 ((match o with | .connected => "connected" | _ => "refused") :: acc) rest
        else if op == "http" then
          let (_, o) := Svc.step st .connect
          go st ((match o with | .connected => "401" | _ => "503") :: acc) rest
        else go st ("bad-op" :: acc) rest
    " ".intercalate (go {} [] ops)
  | ["errstatus", c] =>
    match unhex c with
    | some cb => toString (errorStatus (Resgate.Gw.ofBytes cb))
    | none => "bad-op"
  | ["direct", st] =>
    match st.toInt? with
    | some n => b2s (isDirectStatus (some n))
    | none => "bad-op"
  | ["path", p, q, pre] =>
    match unhex p, unhex q, unhex pre with
    | some pb, some qb, some preb => hex (Enc.pathToRID pb qb preb)
    | _, _, _ => "bad-op"
  | ["httpdispatch", m, p, q, pre, mp] =>
    match unhex m, unhex p, unhex q, unhex pre with
    | some mb, some pb, some qb, some preb =>
      let mapped := if mp == "-" then some none else (unhex mp).map some
      match mapped with
      | none => "bad-op"
      | some mo =>
        match Enc.httpDispatch mb pb qb preb mo with
        | .notFound => "404"
        | .methodNotAllowed => "405"
        | .get rid => let nq := parseRID rid; "get " ++ hex nq.1 ++ " " ++ hex nq.2
        | .call rid a => let nq := parseRID rid; "call " ++ hex nq.1 ++ " " ++ hex nq.2 ++ " " ++ hex a
    | _, _, _, _ => "bad-op"
  | ["pathaction", p, q, pre] =>
    match unhex p, unhex q, unhex pre with
    | some pb, some qb, some preb =>
      let (r, a) := Enc.pathToRIDAction pb qb preb
      hex r ++ " " ++ hex a
    | _, _, _ => "bad-op"
  | ["ridpath", r, pre] =>
    match unhex r, unhex pre with
    | some rb, some preb =>
      hex (Resgate.Gw.toBytes (Enc.ridToPath (Resgate.Gw.ofBytes rb) (Resgate.Gw.ofBytes preb)))
    | _, _ => "bad-op"
  | ["ridpathb", r, pre] =>
    match unhex r, unhex pre with
    | some rb, some preb => hex (Enc.ridToPathB rb preb)
    | _, _ => "bad-op"
  | "enc" :: flat :: pre :: root :: nodes =>
    -- nodes: <ridhex>:m:<khex>=<v>,...  |  <ridhex>:c:<v>,...  |  <ridhex>:e:<jsonhex>
    let str := fun (h : String) => (unhex h).map Resgate.Gw.ofBytes
    let pv := fun (v : String) =>
      let body := (v.drop 1).toString
      if v.startsWith "p" then (str body).map Enc.HVal.prim
      else if v.startsWith "d" then (str body).map Enc.HVal.data
      else if v.startsWith "s" then (str body).map Enc.HVal.soft
      else if v.startsWith "r" then (str body).map Enc.HVal.ref
      else none
    let pn := fun (n : String) => match n.splitOn ":" with
      | [r, "e", j] => do pure ((← str r), Enc.HNode.err (← str j))
      | [r, "m", kvs] => do
        let items ← (if kvs == "" then [] else kvs.splitOn ",").mapM fun kv =>
          match kv.splitOn "=" with
          | [k, v] => do pure ((← str k), (← pv v))
          | _ => none
        pure ((← str r), Enc.HNode.model items)
      | [r, "c", vs] => do
        let items ← (if vs == "" then [] else vs.splitOn ",").mapM pv
        pure ((← str r), Enc.HNode.coll items)
      | _ => none
    match nodes.mapM pn, str pre, str root with
    | some g, some pref, some rt =>
      match Enc.encodeGET g pref (flat == "1") rt with
      | some out => out
      | none => "nil-reference"
    | _, _, _ => "bad-op"
  | _ => "bad-op"

partial def loop (hin : IO.FS.Stream) (hout : IO.FS.Stream) (gw : Option (Resgate.Gw.Gw × Bool)) : IO Unit := do
  let line ← hin.getLine
  if line.isEmpty then return ()
  let l := line.trimAscii.toString
  if l.startsWith "gw-begin" then
    let ws := l.splitOn " "
    let ref := (ws.getD 1 "0").toInt?.getD 0
    let rst := (ws.getD 2 "0").toInt?.getD 0
    let snap := ws.getD 3 "0" == "1"
    let ord := (ws.getD 4 "0").toNat?.getD 0
    let flat := ws.getD 5 "0" == "1"
    let hauth := ws.getD 6 "0" == "1"
    hout.putStrLn "ok"
    loop hin hout (some ({ refThrottle := ref, resetThrottle := rst, ord := ord % 36, sched := ord / 36, flat := flat, hauth := hauth }, snap))
  else if l == "gw-end" then
    hout.putStrLn "ok"
    loop hin hout none
  else match gw with
    | some (g, snap) =>
      let (g', out) := Resgate.Gw.runStimulus g l snap
      hout.putStrLn out
      loop hin hout (some (g', snap))
    | none =>
      hout.putStrLn (evalLine line)
      loop hin hout none

def main (_args : List String) : IO UInt32 := do
  let hin ← IO.getStdin
  let hout ← IO.getStdout
  loop hin hout none
  hout.flush
  return 0

end Resgate.Driver
