import Resgate.Model.Encode

/-
The structured specification of the HTTP rendering (C16): the recursive expansion of a resource as a
JSON *tree*, and a printer that emits well-formed JSON by construction (leaves are service values,
validated by `encoding/json` when they enter the cache).  `Proofs/EncodeSpec.lean` shows that the
byte-concatenating encoders of `Model/Encode.lean` print exactly this tree.
-/

namespace Resgate.Enc

inductive J where
  | raw (s : String)                 -- a service value (primitive or data value), well-formed by assumption
  | str (s : String)                 -- a JSON string
  | obj (kvs : List (String × J))
  | arr (vs : List J)
  deriving Inhabited

mutual
def J.render : J → String
  | .raw s => s
  | .str s => jsonStr s
  | .obj kvs => "{" ++ renderKVs kvs ++ "}"
  | .arr vs => "[" ++ renderVals vs ++ "]"
def renderKVs : List (String × J) → String
  | [] => ""
  | (k, v) :: rest => jsonStr k ++ ":" ++ v.render ++ (if rest.isEmpty then "" else "," ++ renderKVs rest)
def renderVals : List J → String
  | [] => ""
  | v :: rest => v.render ++ (if rest.isEmpty then "" else "," ++ renderVals rest)
end

def hrefJ (rid pref : String) : J := .obj [("href", .str (ridToPath rid pref))]

/-- A referenced resource in the `json` encoding: an object with href plus model/collection/error;
    in `jsonflat`, and for the root, the bare content. -/
def wrapJ (b : Bool) (rid pref kind : String) (c : J) : J :=
  if b then .obj [("href", .str (ridToPath rid pref)), (kind, c)] else c

mutual

/-- The recursive expansion of a resource. -/
def expSub (g : HGraph) (pref : String) (flat : Bool) (path : List String) (rid : String) (wrap : Bool) :
    Option J :=
  if hp : rid ∈ path then some (hrefJ rid pref)          -- would re-enter the path: href only
  else
    match hl : lookup g rid with
    | none => none
    | some (.err e) => some (wrapJ (wrap && !flat) rid pref "error" (.raw e))
    | some (.model kvs) =>
      (expKVs g pref flat (rid :: path) kvs).map fun b => wrapJ (wrap && !flat) rid pref "model" (.obj b)
    | some (.coll vs) =>
      (expVals g pref flat (rid :: path) vs).map fun b => wrapJ (wrap && !flat) rid pref "collection" (.arr b)
termination_by (offPath g path, 0, 0)
decreasing_by
  all_goals simp_wf
  · apply Prod.Lex.left; exact offPath_lt g path rid _ hl hp
  · apply Prod.Lex.left; exact offPath_lt g path rid _ hl hp

def expVal (g : HGraph) (pref : String) (flat : Bool) (path : List String) (v : HVal) : Option J :=
  match v with
  | .prim raw => some (.raw raw)
  | .data inner => some (.raw inner)                     -- data values unwrapped
  | .soft rid => some (hrefJ rid pref)                   -- soft references: href only
  | .ref rid => expSub g pref flat path rid true
termination_by (offPath g path, 1, 0)
decreasing_by
  all_goals simp_wf
  apply Prod.Lex.right; apply Prod.Lex.left; omega

def expVals (g : HGraph) (pref : String) (flat : Bool) (path : List String) (vs : List HVal) : Option (List J) :=
  match vs with
  | [] => some []
  | v :: rest =>
    match expVal g pref flat path v, expVals g pref flat path rest with
    | some a, some b => some (a :: b)
    | _, _ => none
termination_by (offPath g path, 2, vs.length)
decreasing_by
  all_goals simp_wf
  · apply Prod.Lex.right; apply Prod.Lex.left; omega
  · apply Prod.Lex.right; apply Prod.Lex.right; omega

def expKVs (g : HGraph) (pref : String) (flat : Bool) (path : List String) (kvs : List (String × HVal)) :
    Option (List (String × J)) :=
  match kvs with
  | [] => some []
  | (k, v) :: rest =>
    match expVal g pref flat path v, expKVs g pref flat path rest with
    | some a, some b => some ((k, a) :: b)
    | _, _ => none
termination_by (offPath g path, 2, kvs.length)
decreasing_by
  all_goals simp_wf
  · apply Prod.Lex.right; apply Prod.Lex.left; omega
  · apply Prod.Lex.right; apply Prod.Lex.right; omega

end

/-- What GET returns: the expansion of the root, unwrapped. -/
def expandGET (g : HGraph) (pref : String) (flat : Bool) (rid : String) : Option J :=
  expSub g pref flat [] rid false

end Resgate.Enc
