import Resgate.Model.Basic

/-
Model of `server/rescache/throttle.go`.  Callbacks are identified by a `Nat` tag; "starting" a
callback is an output.  `Done` at `running ≤ 0` is the Go `panic`.
-/

namespace Resgate

structure Throttle where
  limit : Int
  running : Int
  queue : List Nat
  deriving Repr, DecidableEq

inductive TOp | add (cb : Nat) | done
  deriving Repr, DecidableEq

def Throttle.new (limit : Int) : Throttle := ⟨limit, 0, []⟩

/-- One operation; result: new state and the callbacks started, or `none` for the panic. -/
def Throttle.step (t : Throttle) : TOp → Option (Throttle × List Nat)
  | .add cb =>
    if t.running ≥ t.limit then some ({ t with queue := t.queue ++ [cb] }, [])
    else some ({ t with running := t.running + 1 }, [cb])
  | .done =>
    if t.running ≤ 0 then none
    else match t.queue with
      | [] => some ({ t with running := t.running - 1 }, [])
      | cb :: q => some ({ t with queue := q }, [cb])

/-- Run a word of operations, collecting the started callbacks in order. -/
def Throttle.run (t : Throttle) : List TOp → Option (Throttle × List Nat)
  | [] => some (t, [])
  | op :: ops => match t.step op with
    | none => none
    | some (t', out) => match Throttle.run t' ops with
      | none => none
      | some (t'', outs) => some (t'', out ++ outs)

end Resgate
