import Resgate.Model.Basic

/-
Model of `server/codec/codec.go: IsValidRID, IsValidRIDPart`, `server/subscription.go: parseRID`,
`server/wsConn.go: ExpandCID` and the method splitter of `server/rpc/rpc.go: HandleRequest`.

`IsValidRID` ranges over runes.  Every byte ≥ 128 starts a rune ≥ 128 (or `RuneError` = 0xFFFD),
which is rejected at once, and '?' / ASCII bytes decode to themselves; the loop therefore behaves
exactly like the byte loop below (checked on every run by the byte-class table and `rgh pure`).
-/

namespace Resgate

/-- The byte test of `IsValidRID`: `r < 33 || r > 126 || r == '*' || r == '>'` is a rejection. -/
def ridByteBad (c : Nat) : Bool := c < 33 || c > 126 || c == cStar || c == cGt

def isValidRIDAux (allowQuery : Bool) : Bool → Bytes → Bool
  | start, [] => !start
  | start, c :: cs =>
    if c = cQm then allowQuery && !start
    else if ridByteBad c then false
    else if c = cDot then (if start then false else isValidRIDAux allowQuery true cs)
    else isValidRIDAux allowQuery false cs

def isValidRID (rid : Bytes) (allowQuery : Bool) : Bool := isValidRIDAux allowQuery true rid

def partByteBad (c : Nat) : Bool :=
  c < 33 || c > 126 || c == cDot || c == cStar || c == cGt || c == cQm

def isValidRIDPart (part : Bytes) : Bool :=
  part.all (fun c => !partByteBad c) && !part.isEmpty

/-- `strings.Replace(rid, "{cid}", cid, -1)`: left to right, non-overlapping. -/
def expandCID (cid : Bytes) : Bytes → Bytes
  | 123 :: 99 :: 105 :: 100 :: 125 :: rest => cid ++ expandCID cid rest
  | c :: cs => c :: expandCID cid cs
  | [] => []

/-- `parseRID`: split at the first '?'. -/
def parseRID (rid : Bytes) : Bytes × Bytes :=
  match cutAt cQm rid with
  | (n, none) => (n, [])
  | (n, some q) => (n, q)

/-- `strings.LastIndexByte(s, sep)` + slicing: (before last sep, after last sep). -/
def cutLast (sep : Nat) (s : Bytes) : Option (Bytes × Bytes) :=
  match cutAt sep s.reverse with
  | (_, none) => none
  | (a, some b) => some (b.reverse, a.reverse)

inductive RpcKind | get | subscribe | unsubscribe | call | auth | new
  deriving DecidableEq, Repr

inductive RpcDispatch
  | version                       -- method "version" (answered immediately)
  | invalid                       -- system.invalidRequest, no service traffic
  | req (k : RpcKind) (rid : Bytes) (method : Bytes)
  deriving DecidableEq, Repr

def sGet := [103, 101, 116]
def sSubscribe := [115, 117, 98, 115, 99, 114, 105, 98, 101]
def sUnsubscribe := [117, 110, 115, 117, 98, 115, 99, 114, 105, 98, 101]
def sCall := [99, 97, 108, 108]
def sAuth := [97, 117, 116, 104]
def sNew := [110, 101, 119]
def sVersion := [118, 101, 114, 115, 105, 111, 110]
def sAccess := [97, 99, 99, 101, 115, 115]
def sEvent := [101, 118, 101, 110, 116]

def rpcKindOf (action : Bytes) : Option RpcKind :=
  if action = sGet then some .get
  else if action = sSubscribe then some .subscribe
  else if action = sUnsubscribe then some .unsubscribe
  else if action = sCall then some .call
  else if action = sAuth then some .auth
  else if action = sNew then some .new
  else none

/-- The dispatch of `rpc.HandleRequest` on the method string (after the id check).
    (The Go code validates the resource id before it looks at an unknown action; every rejection
    is the same `system.invalidRequest` reply, so the order is not observable.) -/
def rpcDispatch (m : Bytes) : RpcDispatch :=
  match cutAt cDot m with
  | (_, none) => if m = sVersion then .version else .invalid
  | (action, some rest) =>
    match rpcKindOf action with
    | none => .invalid
    | some .call =>
      match cutLast cDot rest with
      | none => .invalid
      | some (rid, method) =>
        if isValidRIDPart method && isValidRID rid true then .req .call rid method else .invalid
    | some .auth =>
      match cutLast cDot rest with
      | none => .invalid
      | some (rid, method) =>
        if isValidRIDPart method && isValidRID rid true then .req .auth rid method else .invalid
    | some k => if isValidRID rest true then .req k rest [] else .invalid

/-- Subjects the gateway uses for a dispatched request of connection `cid`
    (`rescache.go: Access, Call, Auth, getSubscription; eventSubscription.go: addSubscriber`). -/
def subjectsFor (cid : Bytes) : RpcKind → Bytes → Bytes → List Bytes
  | k, rid, method =>
    let name := (parseRID (expandCID cid rid)).1
    match k with
    | .get | .subscribe => [sAccess ++ cDot :: name, sGet ++ cDot :: name, sEvent ++ cDot :: name]
    | .unsubscribe => []
    | .call => [sAccess ++ cDot :: name, sCall ++ cDot :: name ++ cDot :: method]
    | .new => [sAccess ++ cDot :: name, sCall ++ cDot :: name ++ cDot :: sNew]
    | .auth => [sAuth ++ cDot :: name ++ cDot :: method]

/-- A hygienic subject: non-empty dot-separated tokens of printable non-space ASCII without
    `*`, `>`, `?`. -/
def okByte (c : Nat) : Bool := !partByteBad c

def hygienic (s : Bytes) : Bool :=
  (splitOn cDot s).all (fun t => !t.isEmpty && t.all okByte)

end Resgate
