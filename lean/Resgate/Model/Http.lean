import Resgate.Model.Basic

/-
Model of the HTTP-side decision tables and header handling:
`server/apiHandler.go: errorStatus, statusError`, `server/codec/codec.go: IsDirectResponseStatus,
IsValidStatus, MergeHeader, Canonicalize` (with `textproto.CanonicalMIMEHeaderKey`), and
`server/config.go: toLowerASCII, matchesOrigins`.
-/

namespace Resgate

/-- `errorStatus`: RES error code → HTTP status. -/
def errorStatus (code : String) : Nat :=
  if code = "system.notFound" then 404
  else if code = "system.methodNotFound" then 404
  else if code = "system.timeout" then 404
  else if code = "system.accessDenied" then 401
  else if code = "system.methodNotAllowed" then 405
  else if code = "system.internalError" then 500
  else if code = "system.serviceUnavailable" then 503
  else if code = "system.forbidden" then 403
  else if code = "system.subjectTooLong" then 414
  else 400

/-- `statusError`: HTTP status → RES error code. -/
def statusError (status : Int) : String :=
  if 400 ≤ status ∧ status < 500 then
    if status = 401 ∨ status = 402 ∨ status = 407 then "system.accessDenied"
    else if status = 403 ∨ status = 451 then "system.forbidden"
    else if status = 410 ∨ status = 404 then "system.notFound"
    else if status = 405 then "system.methodNotAllowed"
    else if status = 408 then "system.timeout"
    else "system.badRequest"
  else if 500 ≤ status ∧ status < 600 then
    if status = 501 then "system.notImplemented"
    else if status = 503 then "system.serviceUnavailable"
    else if status = 504 then "system.timeout"
    else "system.internalError"
  else "system.internalError"

/-- `Meta.IsDirectResponseStatus`; `none` = no meta or no status. -/
def isDirectStatus : Option Int → Bool
  | none => false
  | some s => 300 ≤ s && s < 600

/-- `Meta.IsValidStatus`. -/
def isValidStatus : Option Int → Bool
  | none => true
  | some s => 300 ≤ s && s < 600

/-! ### Header names -/

def isUpper (c : Nat) : Bool := 65 ≤ c && c ≤ 90
def isLower (c : Nat) : Bool := 97 ≤ c && c ≤ 122
def isDigit (c : Nat) : Bool := 48 ≤ c && c ≤ 57

/-- `textproto.validHeaderFieldByte`: RFC 7230 token bytes. -/
def isTokenByte (c : Nat) : Bool :=
  isUpper c || isLower c || isDigit c ||
  c == 33 || c == 35 || c == 36 || c == 37 || c == 38 || c == 39 || c == 42 || c == 43 ||
  c == 45 || c == 46 || c == 94 || c == 95 || c == 96 || c == 124 || c == 126

def toLowerByte (c : Nat) : Nat := if isUpper c then c + 32 else c
def toUpperByte (c : Nat) : Nat := if isLower c then c - 32 else c

/-- `toLowerASCII`. -/
def toLowerASCII (s : Bytes) : Bytes := s.map toLowerByte

/-- The case-normalising loop of `canonicalMIMEHeaderKey`. -/
def canonLoop : Bool → Bytes → Bytes
  | _, [] => []
  | upper, c :: cs =>
    let c' := if upper then toUpperByte c else toLowerByte c
    c' :: canonLoop (c' == 45) cs

/-- `textproto.CanonicalMIMEHeaderKey`: names with a non-token byte are returned unchanged. -/
def canonicalMIME (k : Bytes) : Bytes :=
  if k.all isTokenByte then canonLoop true k else k

abbrev Headers := List (Bytes × List Bytes)

def hdrGet (h : Headers) (k : Bytes) : Option (List Bytes) := (h.find? (·.1 = k)).map (·.2)
def hdrSet (h : Headers) (k : Bytes) (v : List Bytes) : Headers :=
  (k, v) :: h.filter (fun p => p.1 ≠ k)

/-- "Sec-Websocket-Extensions" -/
def hSecExt : Bytes := [83, 101, 99, 45, 87, 101, 98, 115, 111, 99, 107, 101, 116, 45, 69, 120, 116, 101, 110, 115, 105, 111, 110, 115]
/-- "Sec-Websocket-Protocol" -/
def hSecProto : Bytes := [83, 101, 99, 45, 87, 101, 98, 115, 111, 99, 107, 101, 116, 45, 80, 114, 111, 116, 111, 99, 111, 108]
/-- "Access-Control-Allow-Credentials" -/
def hACAC : Bytes := [65, 99, 99, 101, 115, 115, 45, 67, 111, 110, 116, 114, 111, 108, 45, 65, 108, 108, 111, 119, 45, 67, 114, 101, 100, 101, 110, 116, 105, 97, 108, 115]
/-- "Access-Control-Allow-Origin" -/
def hACAO : Bytes := [65, 99, 99, 101, 115, 115, 45, 67, 111, 110, 116, 114, 111, 108, 45, 65, 108, 108, 111, 119, 45, 79, 114, 105, 103, 105, 110]
/-- "Content-Type" -/
def hContentType : Bytes := [67, 111, 110, 116, 101, 110, 116, 45, 84, 121, 112, 101]
/-- "Set-Cookie" -/
def hSetCookie : Bytes := [83, 101, 116, 45, 67, 111, 111, 107, 105, 101]

def protectedNames : List Bytes := [hSecExt, hSecProto, hACAC, hACAO, hContentType]

/-- `Meta.Canonicalize`: move every entry to its canonical key, appending on collision.
    (Go ranges over the map while mutating it; the result per canonical key is the concatenation
    of the values of all keys canonicalising to it, in an order the property does not depend on.) -/
def canonicalize : Headers → Headers
  | [] => []
  | (k, v) :: rest =>
    let r := canonicalize rest
    let nk := canonicalMIME k
    match hdrGet r nk with
    | some old => hdrSet r nk (v ++ old)
    | none => (nk, v) :: r

/-- `MergeHeader(a, b)`. -/
def mergeHeader (a : Headers) : Headers → Headers
  | [] => a
  | (k, v) :: rest =>
    if protectedNames.contains k then mergeHeader a rest
    else if k = hSetCookie then mergeHeader (hdrSet a k ((hdrGet a k).getD [] ++ v)) rest
    else mergeHeader (hdrSet a k v) rest

/-! ### Origins -/

/-- One allow-list entry against an origin: `matchesOrigins` inner loop, byte-wise
    (`sr == tr`, else lower-case `tr` and compare again), then `s == t` on the rests. -/
def originMatch : Bytes → Bytes → Bool
  | [], [] => true
  | [], _ :: _ => false
  | _ :: _, [] => false
  | sc :: s, tc :: t => (sc = tc || sc = toLowerByte tc) && originMatch s t

def matchesOrigins (os : List Bytes) (o : Bytes) : Bool := os.any (fun s => originMatch s o)

/-! ### CORS decision (`setCommonHeaders`, the WebSocket `CheckOrigin`) -/

def bStar : Bytes := [42]
def bNull : Bytes := [110, 117, 108, 108]

structure Cors where
  acao : Option Bytes     -- Access-Control-Allow-Origin
  vary : Bool             -- Vary: Origin
  refused : Bool          -- 403 before anything else happens
  deriving DecidableEq, Repr

/-- `setCommonHeaders`: `origin` is the first value of the Origin header, `none` when the request
    carries no such header (a header that is present but empty is `some []`). -/
def corsDecision (allow : List Bytes) (origin : Option Bytes) : Cors :=
  if allow.head? = some bStar then ⟨some bStar, false, false⟩
  else match origin with
    | none => ⟨none, false, false⟩
    | some o =>
      if o = bNull then ⟨none, false, false⟩
      else if matchesOrigins allow o then ⟨some o, true, false⟩
      else ⟨allow.head?, true, true⟩

/-- The WebSocket upgrader's `CheckOrigin`. -/
def wsOriginOK (allow : List Bytes) (origin : Option Bytes) : Bool :=
  if allow.head? = some bStar then true
  else match origin with
    | none => true
    | some o => o = bNull || matchesOrigins allow o

end Resgate
