/-
Basic vocabulary of the model.

Go strings are byte strings.  A byte is modelled as a `Nat` (the functions of the gateway only ever
compare bytes with constants, so every theorem over `List Nat` holds in particular for lists of
numbers below 256).  Go `int`s that are subtracted from are modelled as `Int`.
-/

namespace Resgate

abbrev Bytes := List Nat

/-- Byte constants used by the gateway. -/
def cDot : Nat := 46      -- '.'
def cStar : Nat := 42     -- '*'
def cGt : Nat := 62       -- '>'
def cQm : Nat := 63       -- '?'
def cComma : Nat := 44    -- ','
def cSlash : Nat := 47    -- '/'
def cPct : Nat := 37      -- '%'

/-- `strings.Split`-like tokenisation on a single byte: never returns the empty list. -/
def splitOn (sep : Nat) : Bytes → List Bytes
  | [] => [[]]
  | c :: cs =>
    if c = sep then [] :: splitOn sep cs
    else (c :: (splitOn sep cs).headD []) :: (splitOn sep cs).tail

theorem splitOn_ne_nil (sep : Nat) (s : Bytes) : splitOn sep s ≠ [] := by
  cases s with
  | nil => simp [splitOn]
  | cons c cs => unfold splitOn; split <;> simp

/-- Join tokens with a separator (`strings.Join`). -/
def joinWith (sep : Nat) : List Bytes → Bytes
  | [] => []
  | [t] => t
  | t :: ts => t ++ sep :: joinWith sep ts

/-- Everything before the first occurrence of `sep`, and whether `sep` occurs
    (`strings.IndexByte` + slicing). -/
def cutAt (sep : Nat) : Bytes → Bytes × Option Bytes
  | [] => ([], none)
  | c :: cs =>
    if c = sep then ([], some cs)
    else let (a, b) := cutAt sep cs; (c :: a, b)

def strBytes (s : String) : Bytes := s.toUTF8.toList.map UInt8.toNat

end Resgate
