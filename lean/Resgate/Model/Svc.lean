/-
Model of the service shell (`server/service.go`, `wsHandler.go`, `mqClient.go`): Start / Stop /
closed handler, creation of connections only while running.  `Stop` is split into its two locked
sections (`stopBegin`, `stopEnd`) because other calls can arrive in between.
-/

namespace Resgate.Svc

structure S where
  running : Bool := false       -- `s.stop != nil`
  stopping : Bool := false
  cause : Option String := none -- the error handed to the Stop in progress
  conns : Nat := 0              -- live client connections
  deriving Repr, DecidableEq

inductive Op where
  | start
  | stopBegin (cause : Option String)   -- Stop(err) / handleClosedMQ(err): first locked section
  | stopEnd                             -- sockets closed, HTTP + MQ stopped: second locked section
  | connect                             -- WebSocket upgrade or HTTP request needing a connection
  | closeConn
  deriving Repr, DecidableEq

inductive Out where
  | started | startNoop | startRefused
  | stopStarted | stopNoop
  | stopped (cause : Option String) (closed : Nat)   -- the value sent on the stop channel
  | connected | refused
  | connClosed | nothing
  deriving Repr, DecidableEq

def step (s : S) : Op → S × Out
  | .start =>
    if s.running then (s, .startNoop)
    else if s.stopping then (s, .startRefused)
    else ({ s with running := true }, .started)
  | .stopBegin c =>
    if !s.running || s.stopping then (s, .stopNoop)
    else ({ s with stopping := true, cause := c }, .stopStarted)
  | .stopEnd =>
    if s.stopping then ({ running := false, stopping := false, cause := none, conns := 0 }, .stopped s.cause s.conns)
    else (s, .nothing)
  | .connect =>
    if !s.running || s.stopping then (s, .refused)
    else ({ s with conns := s.conns + 1 }, .connected)
  | .closeConn =>
    if s.conns > 0 then ({ s with conns := s.conns - 1 }, .connClosed) else (s, .nothing)

def run (s : S) : List Op → S × List Out
  | [] => (s, [])
  | op :: ops =>
    let (s1, o) := step s op
    let (s2, os) := run s1 ops
    (s2, o :: os)

end Resgate.Svc
