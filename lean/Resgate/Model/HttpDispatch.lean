import Resgate.Model.Encode
import Resgate.Model.Rid

/-
`apiHandler` (server/apiHandler.go) after the CORS step: which resource request an HTTP request
becomes.  The configuration's `PUTMethod` / `DELETEMethod` / `PATCHMethod` enter as `mapped`: the
call method configured for this request's HTTP method, if any.
-/

namespace Resgate.Enc
open Resgate

inductive HttpVerdict
  | notFound                         -- 404 before any service request
  | methodNotAllowed                 -- 405 before any service request
  | get (rid : Bytes)                -- GetHTTPSubscription
  | call (rid action : Bytes)        -- CallHTTPResource
  deriving DecidableEq, Repr

def mGET : Bytes := [71, 69, 84]
def mHEAD : Bytes := [72, 69, 65, 68]
def mPOST : Bytes := [80, 79, 83, 84]

def httpDispatch (method path query pref : Bytes) (mapped : Option Bytes) : HttpVerdict :=
  -- NotFound on paths with trailing slash (unless it is only the APIPath)
  if path.length > pref.length && path.getLast? == some 47 then .notFound
  else if method == mGET || method == mHEAD then
    let rid := pathToRID path query pref
    if isValidRID rid true then .get rid else .notFound
  else if method == mPOST then
    let ra := pathToRIDAction path query pref
    if isValidRID ra.1 true && isValidRIDPart ra.2 then .call ra.1 ra.2 else .notFound
  else match mapped with
    | none => .methodNotAllowed
    | some m =>
      let rid := pathToRID path query pref
      if isValidRID rid true && isValidRIDPart m then .call rid m else .notFound

/-- The service subjects an HTTP request can cause (access first, then get + event or call). -/
def httpSubjects (cid : Bytes) : HttpVerdict → List Bytes
  | .get rid => subjectsFor cid .get rid []
  | .call rid action => subjectsFor cid .call rid action
  | _ => []

end Resgate.Enc
