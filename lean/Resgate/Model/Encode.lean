import Resgate.Model.Basic

/-
Model of the HTTP resource encoders (`server/apiEncoding.go`): `encoderJSON` and `encoderJSONFlat`,
over an abstract resource graph, and of `RIDToPath` / `PathToRID` (with `url.PathEscape` /
`url.PathUnescape` in path-segment mode).

The Go encoders write bytes into a buffer while walking the subscription tree with a `path` stack;
here the walk builds the string directly.  `encSub` is defined by well-founded recursion on the
number of graph nodes not on the path: Lean accepting the definition IS the cycle-cutting argument.
-/

namespace Resgate.Enc

inductive HVal where
  | prim (raw : String)          -- primitive: raw JSON
  | data (inner : String)        -- data value: the wrapped JSON, emitted unwrapped
  | soft (rid : String)
  | ref (rid : String)
  deriving Repr, Inhabited, DecidableEq

inductive HNode where
  | err (json : String)                        -- failed reference: the encoded error
  | model (kvs : List (String × HVal))
  | coll (vs : List HVal)
  deriving Repr, Inhabited

abbrev HGraph := List (String × HNode)

def hexDigitU (n : Nat) : Char := if n < 10 then Char.ofNat (48 + n) else Char.ofNat (55 + n)

/-- `url.PathEscape` (encodePathSegment): unreserved characters and `$&+=:@` stay. -/
def escByte (b : UInt8) : String :=
  let c := Char.ofNat b.toNat
  if c.isAlphanum || c == '-' || c == '_' || c == '.' || c == '~' ||
     c == '$' || c == '&' || c == '+' || c == '=' || c == ':' || c == '@' then c.toString
  else "%" ++ (hexDigitU (b.toNat / 16)).toString ++ (hexDigitU (b.toNat % 16)).toString

def pathEscape (s : String) : String := String.join (s.toUTF8.toList.map escByte)

/-- `RIDToPath`. -/
def ridToPath (rid pref : String) : String :=
  if rid == "" then "" else pref ++ (pathEscape rid).replace "." "/"

/-- `json.Marshal` of a string (valid UTF-8): `encoding/json.appendString` with HTML escaping. -/
def jsonStr (s : String) : String :=
  "\"" ++ String.join (s.toList.map fun c =>
    if c == '"' then "\\\"" else if c == '\\' then "\\\\"
    else if c == '\n' then "\\n" else if c == '\r' then "\\r" else if c == '\t' then "\\t"
    else if c.toNat == 8 then "\\b" else if c.toNat == 12 then "\\f"
    else if c == '<' then "\\u003c" else if c == '>' then "\\u003e" else if c == '&' then "\\u0026"
    else if c.toNat == 0x2028 then "\\u2028" else if c.toNat == 0x2029 then "\\u2029"
    else if c.toNat < 32 then "\\u00" ++ (hexDigitU (c.toNat / 16)).toString.toLower ++ (hexDigitU (c.toNat % 16)).toString.toLower
    else c.toString) ++ "\""

def href (rid pref : String) : String := "{\"href\":" ++ jsonStr (ridToPath rid pref)

def lookup (g : HGraph) (rid : String) : Option HNode := (g.find? (·.1 == rid)).map (·.2)

/-- Nodes of the graph that are not on the current expansion path (the termination measure). -/
def offPath (g : HGraph) (path : List String) : Nat := (g.filter (fun p => decide (p.1 ∉ path))).length

theorem offPath_le (g : HGraph) (path : List String) (rid : String) :
    offPath g (rid :: path) ≤ offPath g path := by
  unfold offPath
  induction g with
  | nil => simp
  | cons p ps ih =>
    simp only [List.filter_cons]
    by_cases hm : p.1 ∈ path
    · have h2 : p.1 ∈ rid :: path := List.mem_cons_of_mem _ hm
      simp only [hm, h2, not_true_eq_false, decide_false, Bool.false_eq_true, if_false]
      exact ih
    · by_cases hr : p.1 = rid
      · have h2 : p.1 ∈ rid :: path := by rw [hr]; exact List.mem_cons_self
        simp only [hm, h2, not_true_eq_false, not_false_eq_true, decide_true, decide_false,
          Bool.false_eq_true, if_false, if_true, List.length_cons]
        omega
      · have h2 : p.1 ∉ rid :: path := by
          intro h; rcases List.mem_cons.mp h with h | h
          · exact hr h
          · exact hm h
        simp only [hm, h2, not_false_eq_true, decide_true, if_true, List.length_cons]
        omega

theorem offPath_lt (g : HGraph) (path : List String) (rid : String) (n : HNode)
    (hl : lookup g rid = some n) (hp : rid ∉ path) :
    offPath g (rid :: path) < offPath g path := by
  induction g with
  | nil => simp [lookup] at hl
  | cons p ps ih =>
    by_cases h : p.1 = rid
    · have h1 : p.1 ∈ rid :: path := by rw [h]; exact List.mem_cons_self
      have h2 : p.1 ∉ path := by rw [h]; exact hp
      have hle := offPath_le ps path rid
      unfold offPath at hle ⊢
      simp only [List.filter_cons, h1, h2, not_true_eq_false, not_false_eq_true, decide_true, decide_false,
        Bool.false_eq_true, if_false, if_true, List.length_cons]
      omega
    · have hl' : lookup ps rid = some n := by
        unfold lookup at hl ⊢
        have : (p.1 == rid) = false := by simpa using h
        simpa [List.find?_cons, this] using hl
      have ih' := ih hl'
      unfold offPath at ih' ⊢
      simp only [List.filter_cons]
      by_cases hm : p.1 ∈ path
      · have h2 : p.1 ∈ rid :: path := List.mem_cons_of_mem _ hm
        simp only [hm, h2, not_true_eq_false, decide_false, Bool.false_eq_true, if_false]
        exact ih'
      · have h2 : p.1 ∉ rid :: path := by
          intro hh; rcases List.mem_cons.mp hh with hh | hh
          · exact h hh
          · exact hm hh
        simp only [hm, h2, not_false_eq_true, decide_true, if_true, List.length_cons]
        omega

mutual

/-- `encodeSubscription` of the `json` (wrap = referenced) and `jsonflat` (flat) encoders.
    `none` = a reference that is not in the graph (the Go code would dereference nil). -/
def encSub (g : HGraph) (pref : String) (flat : Bool) (path : List String) (rid : String) (wrap : Bool) :
    Option String :=
  let open_ := if wrap && !flat then href rid pref else ""
  let close_ := if wrap && !flat then "}" else ""
  if hp : rid ∈ path then
    -- a reference that would re-enter a resource on the path: href only
    some (if flat then href rid pref ++ "}" else open_ ++ close_)
  else
    match hl : lookup g rid with
    | none => none
    | some (.err e) => some (open_ ++ (if wrap && !flat then ",\"error\":" else "") ++ e ++ close_)
    | some (.model kvs) =>
      match encKVs g pref flat (rid :: path) kvs with
      | none => none
      | some body => some (open_ ++ (if wrap && !flat then ",\"model\":" else "") ++ "{" ++ body ++ "}" ++ close_)
    | some (.coll vs) =>
      match encVals g pref flat (rid :: path) vs with
      | none => none
      | some body => some (open_ ++ (if wrap && !flat then ",\"collection\":" else "") ++ "[" ++ body ++ "]" ++ close_)
termination_by (offPath g path, 0, 0)
decreasing_by
  all_goals simp_wf
  · apply Prod.Lex.left; exact offPath_lt g path rid _ hl hp
  · apply Prod.Lex.left; exact offPath_lt g path rid _ hl hp

/-- `encodeValue`. -/
def encVal (g : HGraph) (pref : String) (flat : Bool) (path : List String) (v : HVal) : Option String :=
  match v with
  | .prim raw => some raw
  | .data inner => some inner
  | .soft rid => some (href rid pref ++ "}")
  | .ref rid => encSub g pref flat path rid true
termination_by (offPath g path, 1, 0)
decreasing_by
  all_goals simp_wf
  apply Prod.Lex.right; apply Prod.Lex.left; omega

def encVals (g : HGraph) (pref : String) (flat : Bool) (path : List String) (vs : List HVal) : Option String :=
  match vs with
  | [] => some ""
  | [v] => encVal g pref flat path v
  | v :: v2 :: rest =>
    match encVal g pref flat path v, encVals g pref flat path (v2 :: rest) with
    | some a, some b => some (a ++ "," ++ b)
    | _, _ => none
termination_by (offPath g path, 2, vs.length)
decreasing_by
  all_goals simp_wf
  · apply Prod.Lex.right; apply Prod.Lex.left; omega
  · apply Prod.Lex.right; apply Prod.Lex.left; omega
  · apply Prod.Lex.right; apply Prod.Lex.right; omega

def encKVs (g : HGraph) (pref : String) (flat : Bool) (path : List String) (kvs : List (String × HVal)) :
    Option String :=
  match kvs with
  | [] => some ""
  | [(k, v)] => (encVal g pref flat path v).map fun a => jsonStr k ++ ":" ++ a
  | (k, v) :: kv2 :: rest =>
    match encVal g pref flat path v, encKVs g pref flat path (kv2 :: rest) with
    | some a, some b => some (jsonStr k ++ ":" ++ a ++ "," ++ b)
    | _, _ => none
termination_by (offPath g path, 2, kvs.length)
decreasing_by
  all_goals simp_wf
  · apply Prod.Lex.right; apply Prod.Lex.left; omega
  · apply Prod.Lex.right; apply Prod.Lex.left; omega
  · apply Prod.Lex.right; apply Prod.Lex.right; omega

end

/-- `EncodeGET`. -/
def encodeGET (g : HGraph) (pref : String) (flat : Bool) (rid : String) : Option String :=
  encSub g pref flat [] rid false

/-! ### PathToRID -/

def hexVal? (c : Char) : Option Nat :=
  if '0' ≤ c ∧ c ≤ '9' then some (c.toNat - 48)
  else if 'a' ≤ c ∧ c ≤ 'f' then some (c.toNat - 87)
  else if 'A' ≤ c ∧ c ≤ 'F' then some (c.toNat - 55)
  else none

/-- `url.PathUnescape` on bytes: `%XX` decoded, a malformed escape is an error. -/
def pathUnescape : List Char → Option (List Nat)
  | [] => some []
  | '%' :: a :: b :: rest =>
    match hexVal? a, hexVal? b, pathUnescape rest with
    | some x, some y, some r => some ((x * 16 + y) :: r)
    | _, _, _ => none
  | '%' :: _ => none
  | c :: rest => (pathUnescape rest).map fun r => c.toString.toUTF8.toList.map (·.toNat) ++ r

end Resgate.Enc

namespace Resgate.Enc
open Resgate

/-- `url.PathUnescape` on bytes. -/
def unescapeB : Bytes → Option Bytes
  | [] => some []
  | 37 :: a :: b :: rest =>
    match hexVal? (Char.ofNat a), hexVal? (Char.ofNat b), unescapeB rest with
    | some x, some y, some r => if a < 128 ∧ b < 128 then some ((x * 16 + y) :: r) else none
    | _, _, _ => none
  | 37 :: _ => none
  | c :: rest => (unescapeB rest).map (c :: ·)

def isPrefixB : Bytes → Bytes → Bool
  | [], _ => true
  | _ :: _, [] => false
  | a :: as, b :: bs => a == b && isPrefixB as bs

/-- `if path[0] == '/' { path = path[1:] }` -/
def stripSlash : Bytes → Bytes
  | 47 :: rest => rest
  | p => p

/-- `PathToRID(path, query, prefix)`; the empty result stands for "no resource id" (404). -/
def pathToRID (path query pref : Bytes) : Bytes :=
  if path.length == pref.length || !isPrefixB pref path then []
  else
    let p := path.drop pref.length
    if p.contains cDot then []
    else
      let p := stripSlash p
      match (splitOn cSlash p).mapM unescapeB with
      | none => []
      | some parts =>
        let rid := joinWith cDot parts
        if query.isEmpty then rid else rid ++ cQm :: query

/-- `PathToRIDAction`: (rid, action). -/
def pathToRIDAction (path query pref : Bytes) : Bytes × Bytes :=
  if path.length == pref.length || !isPrefixB pref path then ([], [])
  else
    let p := path.drop pref.length
    if p.contains cDot then ([], [])
    else
      let p := stripSlash p
      let raw := splitOn cSlash p
      if raw.length < 2 then ([], [])
      else match raw.mapM unescapeB with
        | none => ([], [])
        | some parts =>
          let rid := joinWith cDot parts.dropLast
          ((if query.isEmpty then rid else rid ++ cQm :: query), parts.getLast?.getD [])

end Resgate.Enc

namespace Resgate.Enc
open Resgate

/-- `url.PathEscape` keeps these bytes (unreserved characters and `$&+=:@`). -/
def unreservedB (b : Nat) : Bool :=
  (48 ≤ b && b ≤ 57) || (65 ≤ b && b ≤ 90) || (97 ≤ b && b ≤ 122) ||
  b == 45 || b == 95 || b == 46 || b == 126 || b == 36 || b == 38 || b == 43 || b == 61 || b == 58 || b == 64

def hexU (n : Nat) : Nat := if n < 10 then 48 + n else 55 + n

def escB (b : Nat) : Bytes := if unreservedB b then [b] else [37, hexU (b / 16), hexU (b % 16)]

/-- `RIDToPath` on bytes: escape, then every dot becomes a slash. -/
def ridToPathB (rid pref : Bytes) : Bytes :=
  if rid.isEmpty then [] else pref ++ (rid.flatMap escB).map fun b => if b = cDot then cSlash else b

end Resgate.Enc
