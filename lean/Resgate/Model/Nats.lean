/-
Model of one request of the NATS adapter (`nats/nats.go`: SendRequest, listener, parseMeta,
onTimeout) and of its control-line guard.

A pending request owns exactly one live timer: its slot in the shared timer queue (default
timeout), or an extended timer armed by a `timeout:"ms"` pre-response.  `gen` distinguishes the
extended timers so that a stale fire of a replaced timer is recognisable.
-/

namespace Resgate.Nats

inductive Timer | queue | extended (gen : Nat)
  deriving DecidableEq, Repr

inductive St where
  | pending (t : Timer) (gen : Nat)
  | done
  deriving DecidableEq, Repr

inductive In where
  | reply                      -- first byte not a letter: an actual response
  | noResponders               -- empty payload, header Status 503
  | pre (hasTimeout : Bool)    -- pre-response (meta); with or without a parsable timeout tag
  | fireQueue                  -- the timer queue's callback for this request
  | fireExtended (gen : Nat)   -- an extended timer fires
  deriving DecidableEq, Repr

inductive Cb | reply | notFound | timeout
  deriving DecidableEq, Repr

/-- One input; the completion callback invoked, if any.
    (`listener` removes the pending entry under the lock before invoking the callback; `onTimeout`
    removes it under the same lock; a fire that finds no entry does nothing. A stale extended
    timer that was stopped never fires; one that could not be stopped is modelled as a fire with an
    old `gen`, which finds the entry replaced … the code's `rc.t.Stop()` returning false keeps the
    old timer as the live one.) -/
def step : St → In → St × Option Cb
  | .done, _ => (.done, none)
  | .pending _ _, .reply => (.done, some .reply)
  | .pending _ _, .noResponders => (.done, some .notFound)
  | .pending t g, .pre false => (.pending t g, none)
  | .pending .queue g, .pre true => (.pending (.extended (g + 1)) (g + 1), none)     -- tq.Remove succeeded
  | .pending (.extended _) g, .pre true => (.pending (.extended (g + 1)) (g + 1), none)  -- old timer stopped
  | .pending .queue _, .fireQueue => (.done, some .timeout)
  | .pending (.extended g') g, .fireQueue => (.pending (.extended g') g, none)        -- not in the queue any more
  | .pending (.extended g') g, .fireExtended k =>
    if k = g' then (.done, some .timeout) else (.pending (.extended g') g, none)
  | .pending .queue g, .fireExtended _ => (.pending .queue g, none)

def run : St → List In → St × List Cb
  | s, [] => (s, [])
  | s, i :: is =>
    let (s1, o) := step s i
    let (s2, os) := run s1 is
    (s2, (match o with | some c => [c] | none => []) ++ os)

/-! ### control-line guard -/

def maxControlLine : Nat := 4096
def inboxLen : Nat := 29

/-- What the server measures for `PUB subject reply size`: `subject SP reply SP size`. -/
def pubArgLen (subjLen payloadDigits : Nat) : Nat := subjLen + 1 + inboxLen + 1 + payloadDigits

/-- `SendRequest` refuses when the PUB argument line would exceed `MAX_CONTROL_LINE_SIZE`. -/
def requestRefused (subjLen payloadDigits : Nat) : Bool := pubArgLen subjLen payloadDigits > maxControlLine

/-- The guard before the repair (`len(subj)+len(inbox) > MAX`), kept for the counterexample. -/
def requestRefusedOld (subjLen : Nat) : Bool := subjLen + inboxLen > maxControlLine

end Resgate.Nats
