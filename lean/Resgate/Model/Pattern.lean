import Resgate.Model.Basic

/-
Model of `server/rescache/resourcePattern.go` (ParseResourcePattern, IsValid, Match) and of the
call-list scanner `server/rescache/access.go: CanCall`.
-/

namespace Resgate

structure Pattern where
  pattern : Bytes
  hasWild : Bool
  deriving DecidableEq, Repr

def Pattern.invalid : Pattern := ⟨[], false⟩
def Pattern.isValid (p : Pattern) : Bool := !p.pattern.isEmpty

/-- The `for i, c := range p` loop of `ParseResourcePattern`; `none` = `return ResourcePattern{}`.
    `i < l-1` is "there are more bytes". -/
def parsePatAux : (start alone hasWild : Bool) → Bytes → Option Bool
  | _, _, hw, [] => some hw
  | start, alone, hw, c :: cs =>
    if c = cDot then
      if start then none else parsePatAux true false hw cs
    else if alone || c < 33 || c > 126 || c = cQm then none
    else if c = cGt then
      if !start || !cs.isEmpty then none else parsePatAux false alone true cs
    else if c = cStar then
      if !start then none else parsePatAux false true true cs
    else parsePatAux false alone hw cs

def parsePattern (p : Bytes) : Pattern :=
  if p.isEmpty || p.getLast? = some cDot then Pattern.invalid
  else match parsePatAux true false false p with
    | none => Pattern.invalid
    | some hw => ⟨p, hw⟩

/-- The main loop of `Match` on the remaining suffixes of pattern and name.
    `star = true`: inside the inner loop of the `'*'` case, `p` already advanced past the `*`.
    `none` = the Go code would index out of range (`s[si]` with `si ≥ slen`, `p.pattern[pi]` with
    `pi ≥ plen`) and panic; `match_total` proves this never happens. -/
def matchAux : Bool → Bytes → Bytes → Option Bool
  | _, _, [] => none                        -- s[si] out of range
  | true, ps, sc :: ss =>
    if sc = cDot then                       -- break; pi++; si++
      match ps with
      | [] => some false                    -- pi = plen+1: both exits return false
      | _ :: ps' =>
        if ss.isEmpty then some ps'.isEmpty
        else if ps'.isEmpty then some false
        else matchAux false ps' ss
    else                                    -- si++
      if ss.isEmpty then some ps.isEmpty else matchAux true ps ss
  | false, [], _ :: _ => none               -- p.pattern[pi] out of range
  | false, pc :: ps, sc :: ss =>
    if pc = cGt then some true
    else if pc = cStar then                 -- pi++, then the first round of the inner loop
      if sc = cDot then
        match ps with
        | [] => some false
        | _ :: ps' =>
          if ss.isEmpty then some ps'.isEmpty
          else if ps'.isEmpty then some false
          else matchAux false ps' ss
      else
        if ss.isEmpty then some ps.isEmpty else matchAux true ps ss
    else if sc ≠ pc then some false
    else                                    -- pi++; si++
      if ss.isEmpty then some ps.isEmpty
      else if ps.isEmpty then some false
      else matchAux false ps ss

/-- `ResourcePattern.Match`; `none` = panic. -/
def Pattern.matches? (p : Pattern) (s : Bytes) : Option Bool :=
  if p.pattern.isEmpty then some false
  else if !p.hasWild then some (s = p.pattern)
  else if p.pattern.length > s.length then some false
  else matchAux false p.pattern s

def Pattern.matches (p : Pattern) (s : Bytes) : Bool := (p.matches? s).getD false

/-- Specification: token-wise NATS wildcard matching. -/
def tokMatch : List Bytes → List Bytes → Bool
  | [], [] => true
  | [], _ :: _ => false
  | _ :: _, [] => false
  | pt :: pts, st :: sts =>
    if pt = [cGt] then true
    else if pt = [cStar] then tokMatch pts sts
    else pt = st && tokMatch pts sts

/-- Specification of a valid pattern. -/
def tokOK (last : Bool) (t : Bytes) : Bool :=
  !t.isEmpty &&
  (t = [cStar] || (t = [cGt] && last) ||
    t.all (fun c => 33 ≤ c && c ≤ 126 && c != cQm && c != cStar && c != cGt && c != cDot))

def patTokensOK : List Bytes → Bool
  | [] => false
  | [t] => tokOK true t
  | t :: ts => tokOK false t && patTokensOK ts

/-! ### CanCall -/

/-- The backwards scanner of `CanCall`, on the reversed call string; `cur` is `s[i+1:e]`. -/
def callScan (action : Bytes) : Bytes → Bytes → Bool
  | [], cur => cur = action
  | c :: rest, cur =>
    if c = cComma then (if cur = action then true else callScan action rest [])
    else callScan action rest (c :: cur)

/-- `Access.CanCall` for an access answer without error; `true` = granted. -/
def canCall (call action : Bytes) : Bool :=
  if call = [cStar] then true
  else if call.isEmpty then false
  else callScan action call.reverse []

end Resgate
