import Resgate.Model.Basic

/-
Model of the reset / query-answer diff of `server/rescache/resourceSubscription.go`:
`lcs` (collections) and `processResetModel` (models), and of the event application
`handleEventAdd / handleEventRemove / handleEventChange` that the derived events go through.

Go `int`s that are subtracted from are `Int` here (the add index `add[1] - r + add[2] + l - i`
has a negative intermediate value in Go as well).
-/

namespace Resgate

/-- A collection event as produced by `lcs` / consumed by `handleEventAdd/Remove`. -/
inductive CEv (α : Type) where
  | remove (idx : Int)
  | add (idx : Int) (v : α)
  deriving Repr, DecidableEq

/-- `handleEventRemove` / `handleEventAdd` with their bounds checks; `none` = rejected. -/
def applyCEv {α} (l : List α) : CEv α → Option (List α)
  | .remove idx => if 0 ≤ idx ∧ idx < l.length then some (l.eraseIdx idx.toNat) else none
  | .add idx v => if 0 ≤ idx ∧ idx ≤ l.length then some (l.insertIdx idx.toNat v) else none

def applyCEvs {α} : List α → List (CEv α) → Option (List α)
  | l, [] => some l
  | l, e :: es => match applyCEv l e with
    | none => none
    | some l' => applyCEvs l' es

/-- Length of the common prefix under `eq` (`for s < m && s < n && a[s].Equal(b[s]) { s++ }`). -/
def commonPrefix {α} (eq : α → α → Bool) : List α → List α → Nat
  | x :: xs, y :: ys => if eq x y then commonPrefix eq xs ys + 1 else 0
  | _, _ => 0

/-- One step of the back-track, as an alignment operation (carrying the element concerned). -/
inductive AOp (α : Type) where
  | keep (x : α) | add (v : α) | rem (x : α)
  deriving Repr

/-- The `Loop:` of `lcs`, on the *reversed* trimmed lists (`ra.head = aa[i-1]`, `i = ra.length`),
    for an arbitrary table `c i j`.  Returns the operations in the order the loop visits them
    (from the end of the lists towards the start). -/
def backtrack {α} (eq : α → α → Bool) (c : Nat → Nat → Int) : List α → List α → List (AOp α)
  | [], [] => []
  | [], y :: rb => .add y :: backtrack eq c [] rb
  | x :: ra, [] => .rem x :: backtrack eq c ra []
  | x :: ra, y :: rb =>
    if eq x y then .keep x :: backtrack eq c ra rb
    else if c (ra.length + 1) rb.length ≥ c ra.length (rb.length + 1) then
      .add y :: backtrack eq c (x :: ra) rb
    else .rem x :: backtrack eq c ra (y :: rb)
termination_by ra rb => ra.length + rb.length

/-- State of the loop while it walks the operations: `i` = remaining length of `aa`,
    `r` = removes so far; collects remove indexes (in visit order) and the `adds` triples
    `(value, idx, r)` (in visit order). -/
def walk {α} (s : Nat) : List (AOp α) → (i r : Nat) → List Int × List (α × Int × Int)
  | [], _, _ => ([], [])
  | .keep _ :: ops, i, r => walk s ops (i - 1) r
  | .add v :: ops, i, r =>
    ((walk s ops i r).1, (v, ((i + s : Nat) : Int), (r : Int)) :: (walk s ops i r).2)
  | .rem _ :: ops, i, r =>
    ((((i - 1 + s : Nat) : Int)) :: (walk s ops (i - 1) (r + 1)).1, (walk s ops (i - 1) (r + 1)).2)

/-- "Do the adds": `for i := l; i >= 0; i-- { idx = add[1] - r + add[2] + l - i }`. -/
def emitAdds {α} (r : Int) (adds : List (α × Int × Int)) : List (CEv α) :=
  let l : Int := (adds.length : Int) - 1
  (adds.zipIdx.reverse).map fun (a, k) => CEv.add (a.2.1 - r + a.2.2 + l - (k : Int)) a.1

/-- `lcs(a, b)` for a given table-producing function. -/
def lcsWith {α} (eq : α → α → Bool) (tbl : List α → List α → Nat → Nat → Int)
    (a b : List α) : List (CEv α) :=
  let s := commonPrefix eq a b
  if s = a.length ∧ s = b.length then []
  else
    let a1 := a.drop s
    let b1 := b.drop s
    let t := commonPrefix eq a1.reverse b1.reverse     -- common suffix, not overlapping the prefix
    let aa := a1.take (a1.length - t)
    let bb := b1.take (b1.length - t)
    let ops := backtrack eq (tbl aa bb) aa.reverse bb.reverse
    let w := walk s ops aa.length 0
    w.1.map CEv.remove ++ emitAdds (w.1.length : Int) w.2

/-- The table the Go code computes (`c[(i)+w*(j)]`), as an `Array`-memoised function. -/
def lcsTableArr {α} [Inhabited α] (eq : α → α → Bool) (aa bb : List α) : Array (Array Int) := Id.run do
  let m := aa.length
  let n := bb.length
  let av := aa.toArray
  let bv := bb.toArray
  let mut rows : Array (Array Int) := Array.replicate (n + 1) (Array.replicate (m + 1) 0)
  for j in [0:n] do
    for i in [0:m] do
      let v : Int :=
        if eq av[i]! bv[j]! then rows[j]![i]! + 1
        else
          let v1 := rows[j]![i+1]!
          let v2 := rows[j+1]![i]!
          if v2 > v1 then v2 else v1
      rows := rows.set! (j+1) (rows[j+1]!.set! (i+1) v)
  return rows

def lcsTable {α} [Inhabited α] (eq : α → α → Bool) (aa bb : List α) : Nat → Nat → Int :=
  let t := lcsTableArr eq aa bb
  fun i j => (t[j]!)[i]!

def lcs {α} [Inhabited α] (eq : α → α → Bool) (a b : List α) : List (CEv α) := lcsWith eq (lcsTable eq) a b

/-! ### Models -/

/-- A model is an association list with distinct keys (a Go map); `none` in a change = delete. -/
abbrev KV (κ α : Type) := List (κ × α)

def kvGet {κ α} [DecidableEq κ] (m : KV κ α) (k : κ) : Option α := (m.find? (·.1 = k)).map (·.2)
def kvErase {κ α} [DecidableEq κ] (m : KV κ α) (k : κ) : KV κ α := m.filter (·.1 ≠ k)
def kvSet {κ α} [DecidableEq κ] (m : KV κ α) (k : κ) (v : α) : KV κ α := (k, v) :: kvErase m k

/-- `processResetModel`: the `props` map after both loops; `none` = `DeleteValue`. -/
def modelDiff {κ α} [DecidableEq κ] (eq : α → α → Bool) (old new : KV κ α) : KV κ (Option α) :=
  let withDeletes : KV κ (Option α) :=
    new.map (fun p => (p.1, some p.2)) ++
      (old.filter (fun p => (kvGet new p.1).isNone)).map (fun p => (p.1, none))
  withDeletes.filter fun p =>
    match p.2, kvGet old p.1 with
    | some v, some ov => !eq v ov
    | _, _ => true

/-- `handleEventChange`: apply a change (already decoded) to a model; returns the new model and
    the effective changes (`props` after pruning). -/
def applyChange {κ α} [DecidableEq κ] (eq : α → α → Bool) (m : KV κ α) :
    KV κ (Option α) → KV κ α × KV κ (Option α)
  | [] => (m, [])
  | (k, none) :: ps =>
    match kvGet m k with
    | some _ => let (m', ch) := applyChange eq (kvErase m k) ps; (m', (k, none) :: ch)
    | none => applyChange eq m ps
  | (k, some v) :: ps =>
    match kvGet m k with
    | some ov =>
      if eq ov v then applyChange eq m ps
      else let (m', ch) := applyChange eq (kvSet m k v) ps; (m', (k, some v) :: ch)
    | none => let (m', ch) := applyChange eq (kvSet m k v) ps; (m', (k, some v) :: ch)

end Resgate
