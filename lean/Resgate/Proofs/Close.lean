import Resgate.Gw.Close

namespace Resgate.Gw

/-! ### tables keyed by numbers -/

theorem nlookup_cons {β} (k a : Nat) (b : β) (r : List (Nat × β)) :
    List.lookup k ((a, b) :: r) = if k == a then some b else List.lookup k r := by
  cases h : k == a <;> simp [List.lookup, h]

theorem map_upd_id {β} (r : List (Nat × β)) (a : Nat) (v : β) (h : r.any (·.1 == a) = false) :
    r.map (fun p => if p.1 == a then (a, v) else p) = r := by
  induction r with
  | nil => rfl
  | cons q s ih =>
    rw [List.any_cons, Bool.or_eq_false_iff] at h
    rw [List.map_cons, ih h.2]
    simp only [h.1, Bool.false_eq_true, if_false]

theorem tget_tset_self {β} [Inhabited β] (t : List (Nat × β)) (k : Nat) (v : β) :
    tget (tset t k v) k = v := by
  unfold tget tset
  cases h : t.any (·.1 == k) with
  | true =>
    simp only [if_true]
    induction t with
    | nil => simp at h
    | cons p r ih =>
      obtain ⟨a, b⟩ := p
      by_cases hak : a = k
      · subst hak; simp
      · have hb : (a == k) = false := by simpa using hak
        have hk : (k == a) = false := by simpa using (fun e : k = a => hak e.symm)
        have h' : r.any (·.1 == k) = true := by simpa [List.any_cons, hb] using h
        simp only [List.map_cons, hb, Bool.false_eq_true, if_false, nlookup_cons, hk]
        exact ih h'
  | false =>
    simp only [Bool.false_eq_true, if_false]
    induction t with
    | nil => simp
    | cons p r ih =>
      obtain ⟨a, b⟩ := p
      simp only [List.any_cons, Bool.or_eq_false_iff] at h
      have hk : (k == a) = false := by
        have : (a == k) = false := h.1
        simpa [beq_eq_false_iff_ne, ne_comm] using this
      simp only [List.cons_append, nlookup_cons, hk, Bool.false_eq_true, if_false]
      exact ih h.2

theorem tget_tset_ne {β} [Inhabited β] (t : List (Nat × β)) {k k' : Nat} (v : β) (hne : k' ≠ k) :
    tget (tset t k v) k' = tget t k' := by
  unfold tget tset
  have hk : (k' == k) = false := by simpa using hne
  cases h : t.any (·.1 == k) with
  | true =>
    simp only [if_true]
    congr 1
    induction t with
    | nil => rfl
    | cons p r ih =>
      obtain ⟨a, b⟩ := p
      by_cases hak : a = k
      · subst hak
        have h2 : (k' == a) = false := hk
        by_cases hr : r.any (·.1 == a) = true
        · simp only [List.map_cons, beq_self_eq_true, if_true, nlookup_cons, h2, Bool.false_eq_true, if_false]
          exact ih hr
        · -- no further entry with this key: the map is the identity on the rest
          have hr' : r.any (·.1 == a) = false := Bool.eq_false_iff.mpr hr
          have hid := map_upd_id r a v hr'
          simp only [List.map_cons, beq_self_eq_true, if_true, nlookup_cons, h2, Bool.false_eq_true, if_false, hid]
      · have hb : (a == k) = false := by simpa using hak
        have h' : r.any (·.1 == k) = true := by simpa [List.any_cons, hb] using h
        simp only [List.map_cons, hb, Bool.false_eq_true, if_false, nlookup_cons, ih h']
  | false =>
    simp only [Bool.false_eq_true, if_false]
    congr 1
    induction t with
    | nil => simp [nlookup_cons, hk, List.lookup]
    | cons p r ih =>
      obtain ⟨a, b⟩ := p
      simp only [List.any_cons, Bool.or_eq_false_iff] at h
      simp only [List.cons_append, nlookup_cons, ih h.2]


/-! ### one subscription of a closing connection -/

def connOf (g : Gw) (cid : Nat) : Conn := (g.conns.find? (·.cid == cid)).getD default
def subOf (g : Gw) (cid uid : Nat) : Sub := tget (connOf g cid).objs uid
/-- What subscription `uid` of connection `cid` gives back when the connection closes. -/
def releaseOf (g : Gw) (cid uid : Nat) : Option (Nat × CItem) := (subOf g cid uid).release cid

theorem release_disposed (cid : Nat) (s : Sub) (h : (s.state == .disposed) = true) : s.release cid = none := by
  unfold Sub.release; simp [h]

theorem closeSub_eq (cid : Nat) (g : Gw) (uid : Nat) :
    closeSub cid g uid =
      if (subOf g cid uid).state == .disposed then g else
        match releaseOf g cid uid with
        | none => setSubPure g cid uid (subOf g cid uid).closed
        | some (eid, it) => enqueuePure (setSubPure g cid uid (subOf g cid uid).closed) eid it := by
  unfold closeSub releaseOf subOf connOf
  rfl

theorem find_map_other (l : List Conn) (cid k : Nat) (F : Conn → Conn) (hF : ∀ d, (F d).cid = d.cid)
    (hne : k ≠ cid) :
    (l.map (fun d => if d.cid == cid then F d else d)).find? (·.cid == k) = l.find? (·.cid == k) := by
  induction l with
  | nil => rfl
  | cons d r ih =>
    by_cases hd : d.cid = cid
    · have h1 : (d.cid == cid) = true := by simpa using hd
      have h2 : ((F d).cid == k) = false := by rw [hF, hd]; simpa using (fun e : cid = k => hne e.symm)
      have h3 : (d.cid == k) = false := by rw [hd]; simpa using (fun e : cid = k => hne e.symm)
      simp only [List.map_cons, h1, if_true, List.find?_cons, h2, h3, ih]
    · have h1 : (d.cid == cid) = false := by simpa using hd
      simp only [List.map_cons, h1, Bool.false_eq_true, if_false, List.find?_cons, ih]

theorem find_map_same (l : List Conn) (cid : Nat) (F : Conn → Conn) (hF : ∀ d, (F d).cid = d.cid) :
    (l.map (fun d => if d.cid == cid then F d else d)).find? (·.cid == cid) = (l.find? (·.cid == cid)).map F := by
  induction l with
  | nil => rfl
  | cons d r ih =>
    by_cases hd : d.cid = cid
    · have h1 : (d.cid == cid) = true := by simpa using hd
      have h2 : ((F d).cid == cid) = true := by rw [hF]; exact h1
      simp only [List.map_cons, h1, if_true, List.find?_cons, h2, Option.map_some]
    · have h1 : (d.cid == cid) = false := by simpa using hd
      simp only [List.map_cons, h1, Bool.false_eq_true, if_false, List.find?_cons, ih]

theorem connOf_setSub_other (g : Gw) (cid uid k : Nat) (s : Sub) (hne : k ≠ cid) :
    connOf (setSubPure g cid uid s) k = connOf g k := by
  unfold connOf setSubPure
  simp only
  rw [find_map_other g.conns cid k (fun d => { d with objs := tset d.objs uid s }) (fun _ => rfl) hne]

theorem subOf_setSub_ne (g : Gw) (cid uid u : Nat) (s : Sub) (hne : u ≠ uid) :
    subOf (setSubPure g cid uid s) cid u = subOf g cid u := by
  unfold subOf connOf setSubPure
  simp only
  rw [find_map_same g.conns cid (fun d => { d with objs := tset d.objs uid s }) (fun _ => rfl)]
  cases hf : g.conns.find? (·.cid == cid) with
  | none => rfl
  | some c => simp only [Option.map_some, Option.getD_some]; exact tget_tset_ne _ _ hne

theorem subOf_setSub_self (g : Gw) (cid uid : Nat) (s : Sub) (hex : (g.conns.find? (·.cid == cid)).isSome) :
    subOf (setSubPure g cid uid s) cid uid = s := by
  unfold subOf connOf setSubPure
  simp only
  rw [find_map_same g.conns cid (fun d => { d with objs := tset d.objs uid s }) (fun _ => rfl)]
  cases hf : g.conns.find? (·.cid == cid) with
  | none => simp [hf] at hex
  | some c => simp only [Option.map_some, Option.getD_some]; exact tget_tset_self _ _ _

/-- Closing a subscription of `cid` leaves every other connection as it is. -/
theorem closeSub_other_conn (cid : Nat) (g : Gw) (uid k : Nat) (hne : k ≠ cid) :
    connOf (closeSub cid g uid) k = connOf g k := by
  rw [closeSub_eq]
  by_cases hd : ((subOf g cid uid).state == .disposed) = true
  · simp [hd]
  · simp only [hd, Bool.false_eq_true, if_false]
    have key := connOf_setSub_other g cid uid k (subOf g cid uid).closed hne
    cases hr : releaseOf g cid uid with
    | none => simpa using key
    | some p => obtain ⟨eid, it⟩ := p; simpa [enqueuePure, connOf] using key

/-- ... and of the subscriptions of `cid` only `uid` changes. -/
theorem closeSub_other_sub (cid : Nat) (g : Gw) (uid u : Nat) (hne : u ≠ uid) :
    subOf (closeSub cid g uid) cid u = subOf g cid u := by
  rw [closeSub_eq]
  by_cases hd : ((subOf g cid uid).state == .disposed) = true
  · simp [hd]
  · simp only [hd, Bool.false_eq_true, if_false]
    have key := subOf_setSub_ne g cid uid u (subOf g cid uid).closed hne
    cases hr : releaseOf g cid uid with
    | none => simpa using key
    | some p => obtain ⟨eid, it⟩ := p; simpa [enqueuePure, subOf, connOf] using key

/-- The subscription itself ends disposed (if the connection exists). -/
theorem closeSub_disposes (cid : Nat) (g : Gw) (uid : Nat) (hex : (g.conns.find? (·.cid == cid)).isSome) :
    (subOf (closeSub cid g uid) cid uid).state = .disposed := by
  rw [closeSub_eq]
  by_cases hd : ((subOf g cid uid).state == .disposed) = true
  · simp only [hd, if_true]; simpa using hd
  · simp only [hd, Bool.false_eq_true, if_false]
    have key := subOf_setSub_self g cid uid (subOf g cid uid).closed hex
    have hc : (subOf g cid uid).closed.state = .disposed := by
      unfold Sub.closed; split <;> rfl
    cases hr : releaseOf g cid uid with
    | none => simp only; rw [key]; exact hc
    | some p =>
      obtain ⟨eid, it⟩ := p
      have : subOf (enqueuePure (setSubPure g cid uid (subOf g cid uid).closed) eid it) cid uid
          = subOf (setSubPure g cid uid (subOf g cid uid).closed) cid uid := rfl
      simp only; rw [this, key]; exact hc

/-- Cache side of one closed subscription: the entry it held gets one `unsubscribe` item appended to
    its queue; counts, resources, locks and every other entry are untouched. -/
theorem closeSub_entry (cid : Nat) (g : Gw) (uid eid : Nat) :
    tget (closeSub cid g uid).entries eid =
      match releaseOf g cid uid with
      | some (e', it) =>
        if e' = eid then { tget g.entries eid with queue := (tget g.entries eid).queue ++ [(g.stamp, it)] }
        else tget g.entries eid
      | none => tget g.entries eid := by
  rw [closeSub_eq]
  by_cases hd : ((subOf g cid uid).state == .disposed) = true
  · have : releaseOf g cid uid = none := release_disposed cid _ hd
    simp [hd, this]
  · simp only [hd, Bool.false_eq_true, if_false]
    cases hr : releaseOf g cid uid with
    | none => rfl
    | some p =>
      obtain ⟨e', it⟩ := p
      simp only [enqueuePure, setSubPure]
      by_cases he : e' = eid
      · subst he; simp only [if_true]; rw [tget_tset_self]
      · simp only [he, if_false]; rw [tget_tset_ne _ _ (fun e => he e.symm)]

/-- Closing issues no request, sends nothing, and touches neither the throttles nor the index. -/
theorem closeSub_quiet (cid : Nat) (g : Gw) (uid : Nat) :
    (closeSub cid g uid).reqs = g.reqs ∧ (closeSub cid g uid).out = g.out ∧
    (closeSub cid g uid).throttles = g.throttles ∧ (closeSub cid g uid).index = g.index ∧
    (closeSub cid g uid).live = g.live ∧ (closeSub cid g uid).panic = g.panic := by
  rw [closeSub_eq]
  by_cases hd : ((subOf g cid uid).state == .disposed) = true
  · simp [hd]
  · simp only [hd, Bool.false_eq_true, if_false]
    cases hr : releaseOf g cid uid with
    | none => simp [setSubPure]
    | some p => obtain ⟨e', it⟩ := p; simp [setSubPure, enqueuePure]


/-! ### all subscriptions of a closing connection -/

/-- The items cache entry `eid` receives when the subscriptions `order` of connection `cid` close:
    one `unsubscribe` per subscription of `cid` that holds a resource of that entry. -/
def releasesFor (g : Gw) (cid eid : Nat) (order : List Nat) : List CItem :=
  order.filterMap fun u => match releaseOf g cid u with
    | some (e', it) => if e' = eid then some it else none
    | none => none

theorem releaseOf_closeSub_other (cid : Nat) (g : Gw) (uid u : Nat) (hne : u ≠ uid) :
    releaseOf (closeSub cid g uid) cid u = releaseOf g cid u := by
  unfold releaseOf; rw [closeSub_other_sub cid g uid u hne]

theorem closeSubs_cons (cid : Nat) (g : Gw) (u : Nat) (rest : List Nat) :
    closeSubs cid g (u :: rest) = closeSubs cid (closeSub cid g u) rest := rfl

theorem filterMap_congr' {α β} (l : List α) (f h : α → Option β) (hfh : ∀ a ∈ l, f a = h a) :
    l.filterMap f = l.filterMap h := by
  induction l with
  | nil => rfl
  | cons a r ih =>
    rw [List.filterMap_cons, List.filterMap_cons, hfh a (List.mem_cons_self ..),
      ih (fun b hb => hfh b (List.mem_cons_of_mem _ hb))]

theorem closeSubs_entry (cid : Nat) (order : List Nat) (hnd : order.Nodup) (g : Gw) (eid : Nat) :
    ∃ items : List (Nat × CItem),
      tget (closeSubs cid g order).entries eid =
        { tget g.entries eid with queue := (tget g.entries eid).queue ++ items } ∧
      items.map (·.2) = releasesFor g cid eid order := by
  induction order generalizing g with
  | nil => exact ⟨[], by simp [closeSubs], rfl⟩
  | cons u rest ih =>
    rw [List.nodup_cons] at hnd
    obtain ⟨items1, h1, h2⟩ := ih hnd.2 (closeSub cid g u)
    have hrel : releasesFor (closeSub cid g u) cid eid rest = releasesFor g cid eid rest := by
      unfold releasesFor
      apply filterMap_congr'
      intro u' hu'
      have hne : u' ≠ u := fun e => hnd.1 (e ▸ hu')
      rw [releaseOf_closeSub_other cid g u u' hne]
    rw [closeSubs_cons, h1, closeSub_entry]
    cases hr : releaseOf g cid u with
    | none =>
      refine ⟨items1, rfl, ?_⟩
      rw [h2, hrel]; simp [releasesFor, hr]
    | some p =>
      obtain ⟨e', it⟩ := p
      by_cases he : e' = eid
      · refine ⟨(g.stamp, it) :: items1, ?_, ?_⟩
        · simp [he]
        · rw [List.map_cons, h2, hrel]; simp [releasesFor, hr, he]
      · refine ⟨items1, by simp [he], ?_⟩
        rw [h2, hrel]; simp [releasesFor, hr, he]

theorem closeSubs_other_conn (cid : Nat) (order : List Nat) (g : Gw) (k : Nat) (hne : k ≠ cid) :
    connOf (closeSubs cid g order) k = connOf g k := by
  induction order generalizing g with
  | nil => rfl
  | cons u rest ih => rw [closeSubs_cons, ih, closeSub_other_conn cid g u k hne]

theorem closeSubs_quiet (cid : Nat) (order : List Nat) (g : Gw) :
    (closeSubs cid g order).reqs = g.reqs ∧ (closeSubs cid g order).out = g.out ∧
    (closeSubs cid g order).throttles = g.throttles ∧ (closeSubs cid g order).index = g.index ∧
    (closeSubs cid g order).live = g.live ∧ (closeSubs cid g order).panic = g.panic := by
  induction order generalizing g with
  | nil => simp [closeSubs]
  | cons u rest ih =>
    rw [closeSubs_cons]
    obtain ⟨a, b, c, d, e, f⟩ := ih (closeSub cid g u)
    obtain ⟨a', b', c', d', e', f'⟩ := closeSub_quiet cid g u
    exact ⟨a.trans a', b.trans b', c.trans c', d.trans d', e.trans e', f.trans f'⟩

theorem closeSub_conn_exists (cid : Nat) (g : Gw) (uid : Nat) (hex : (g.conns.find? (·.cid == cid)).isSome) :
    ((closeSub cid g uid).conns.find? (·.cid == cid)).isSome := by
  rw [closeSub_eq]
  by_cases hd : ((subOf g cid uid).state == .disposed) = true
  · simpa [hd] using hex
  · simp only [hd, Bool.false_eq_true, if_false]
    have key : ((setSubPure g cid uid (subOf g cid uid).closed).conns.find? (·.cid == cid)).isSome := by
      unfold setSubPure
      simp only
      rw [find_map_same g.conns cid (fun d => { d with objs := tset d.objs uid (subOf g cid uid).closed }) (fun _ => rfl)]
      simpa using hex
    cases hr : releaseOf g cid uid with
    | none => exact key
    | some p => obtain ⟨e', it⟩ := p; exact key

theorem closeSub_keeps_disposed (cid : Nat) (g : Gw) (uid u : Nat)
    (hex : (g.conns.find? (·.cid == cid)).isSome)
    (h : (subOf g cid u).state = .disposed) : (subOf (closeSub cid g uid) cid u).state = .disposed := by
  by_cases hu : u = uid
  · subst hu; exact closeSub_disposes cid g u hex
  · rw [closeSub_other_sub cid g uid u hu]; exact h

/-- Afterwards every listed subscription is disposed. -/
theorem closeSubs_disposes (cid : Nat) (order : List Nat) (g : Gw)
    (hex : (g.conns.find? (·.cid == cid)).isSome) :
    ∀ u, (u ∈ order ∨ (subOf g cid u).state = .disposed) → (subOf (closeSubs cid g order) cid u).state = .disposed := by
  induction order generalizing g with
  | nil => intro u hu; rcases hu with hu | hu; · simp at hu
           · exact hu
  | cons v rest ih =>
    intro u hu
    rw [closeSubs_cons]
    apply ih (closeSub cid g v) (closeSub_conn_exists cid g v hex)
    rcases hu with hu | hu
    · rcases List.mem_cons.mp hu with rfl | hr
      · exact Or.inr (closeSub_disposes cid g u hex)
      · exact Or.inl hr
    · exact Or.inr (closeSub_keeps_disposed cid g v u hex hu)

end Resgate.Gw
