import Resgate.Proofs.Populate
import Resgate.Proofs.QIdx

/-
What ends up in the resource set: the second half of the closure argument for `populateF`.
-/

namespace Resgate.Gw

/-- The resource set has an entry (model, collection or error placeholder) for `rid`. -/
def RSet.has (r : RSet) (rid : String) : Bool :=
  (sget r.models rid).isSome || (sget r.colls rid).isSome || (sget r.errors rid).isSome

theorem sget_sset_isSome {β} (t : List (String × β)) (k k' : String) (v : β)
    (h : (sget t k').isSome = true) : (sget (sset t k v) k').isSome = true := by
  by_cases e : k' = k
  · subst e; show (qget (qset t k' v) k').isSome = true; rw [qget_qset_self]; rfl
  · show (qget (qset t k v) k').isSome = true; rw [qget_qset_ne t v e]; exact h

theorem sget_sset_self_isSome {β} (t : List (String × β)) (k : String) (v : β) :
    (sget (sset t k v) k).isSome = true := by
  show (qget (qset t k v) k).isSome = true; rw [qget_qset_self]; rfl

theorem has_errors (r : RSet) (k e : String) : ({ r with errors := sset r.errors k e } : RSet).has k = true := by
  unfold RSet.has; simp [sget_sset_self_isSome]

theorem has_mono_errors (r : RSet) (k e rid : String) (h : r.has rid = true) :
    ({ r with errors := sset r.errors k e } : RSet).has rid = true := by
  unfold RSet.has at h ⊢
  simp only [Bool.or_eq_true] at h ⊢
  rcases h with (h | h) | h
  · exact Or.inl (Or.inl h)
  · exact Or.inl (Or.inr h)
  · exact Or.inr (sget_sset_isSome _ _ _ _ h)

theorem rootSet_mono (s : Sub) (r : RSet) (rid : String) (h : r.has rid = true) : (rootSet s r).has rid = true := by
  unfold rootSet
  split
  · unfold RSet.has at h ⊢
    simp only [Bool.or_eq_true] at h ⊢
    rcases h with (h | h) | h
    · exact Or.inl (Or.inl h)
    · exact Or.inl (Or.inr (sget_sset_isSome _ _ _ _ h))
    · exact Or.inr h
  · unfold RSet.has at h ⊢
    simp only [Bool.or_eq_true] at h ⊢
    rcases h with (h | h) | h
    · exact Or.inl (Or.inl (sget_sset_isSome _ _ _ _ h))
    · exact Or.inl (Or.inr h)
    · exact Or.inr h
  · exact h

theorem rootSet_has (s : Sub) (r : RSet) (h : s.typ = .model ∨ s.typ = .collection) :
    (rootSet s r).has s.rid = true := by
  unfold rootSet RSet.has
  rcases h with h | h <;> simp [h, sget_sset_self_isSome]

/-- Resource ids and kinds do not change while a set is collected. -/
def Same (c c' : Conn) : Prop := ∀ v, (st c' v).rid = (st c v).rid ∧ (st c' v).typ = (st c v).typ

theorem Same.refl (c : Conn) : Same c c := fun _ => ⟨rfl, rfl⟩
theorem Same.trans {a b c : Conn} (h1 : Same a b) (h2 : Same b c) : Same a c :=
  fun v => ⟨(h2 v).1.trans (h1 v).1, (h2 v).2.trans (h1 v).2⟩

theorem same_set (c : Conn) (uid : Nat) (s' : Sub) (hr : s'.rid = (st c uid).rid) (ht : s'.typ = (st c uid).typ) :
    Same c { c with objs := tset c.objs uid s' } := by
  intro v; by_cases h : v = uid
  · subst h; rw [st_set_self]; exact ⟨hr, ht⟩
  · rw [st_set_ne _ _ _ _ h]; exact ⟨rfl, rfl⟩

theorem bump_same (c : Conn) (uid : Nat) (ind : Bool) : Same c (bump c uid ind) := by
  unfold bump; cases ind
  · exact Same.refl c
  · exact same_set c uid _ rfl rfl

theorem markRoot_same (c : Conn) (uid : Nat) : Same c (markRoot c uid) := by
  unfold markRoot; exact same_set c uid _ rfl rfl

/-- Everything the closure theorem needs about one (part of a) collection pass. -/
structure Full (c : Conn) (r : RSet) (c' : Conn) (r' : RSet) : Prop where
  good : Good c c'
  same : Same c c'
  rmono : ∀ rid, r.has rid = true → r'.has rid = true
  deliv : ∀ v, (st c v).visited = false → (st c' v).visited = true →
    ((st c v).typ = .model ∨ (st c v).typ = .collection) → r'.has (st c v).rid = true
  errs : ∀ v, (st c v).visited = false → (st c' v).visited = true →
    ∀ ch ∈ sortedRefs (st c v), (st c' ch.2.1).visited = false → r'.has (st c ch.2.1).rid = true

theorem Full.trans {a b c : Conn} {ra rb rc : RSet} (h1 : Full a ra b rb) (h2 : Full b rb c rc) : Full a ra c rc := by
  refine ⟨h1.good.trans h2.good, h1.same.trans h2.same, fun rid h => h2.rmono rid (h1.rmono rid h), ?_, ?_⟩
  · intro v hv hv' ht
    cases hb : (st b v).visited with
    | true => exact h2.rmono _ (h1.deliv v hv hb ht)
    | false =>
      have := h2.deliv v hb hv' (by rw [(h1.same v).2]; exact ht)
      rw [(h1.same v).1] at this; exact this
  · intro v hv hv' ch hch hnv
    cases hb : (st b v).visited with
    | true =>
      have hnb : (st b ch.2.1).visited = false := by
        cases hx : (st b ch.2.1).visited with
        | false => rfl
        | true => rw [h2.good.ext.vis _ hx] at hnv; cases hnv
      exact h2.rmono _ (h1.errs v hv hb ch hch hnb)
    | false =>
      have := h2.errs v hb hv' ch (by rw [sortedRefs_congr _ _ (h1.good.ext.refs v)]; exact hch) hnv
      rw [(h1.same _).1] at this; exact this

theorem full_of_same_vis {c c' : Conn} {r r' : RSet} (hg : Good c c') (hs : Same c c')
    (hv : ∀ v, (st c' v).visited = (st c v).visited) (hr : ∀ rid, r.has rid = true → r'.has rid = true) :
    Full c r c' r' := by
  refine ⟨hg, hs, hr, ?_, ?_⟩
  · intro v h1 h2; rw [hv v, h1] at h2; cases h2
  · intro v h1 h2; rw [hv v, h1] at h2; cases h2


/-- root delivered: placed in a set / sent earlier, or delivered as an error placeholder of this set -/
def RootDone (c' : Conn) (r' : RSet) (c : Conn) (uid : Nat) : Prop :=
  (st c' uid).visited = true ∨ r'.has (st c uid).rid = true

theorem fold_full (fuel : Nat)
    (ih : ∀ c uid r ind, (populateF fuel c uid r ind).2.2 = true →
      Full c r (populateF fuel c uid r ind).1 (populateF fuel c uid r ind).2.1 ∧
      RootDone (populateF fuel c uid r ind).1 (populateF fuel c uid r ind).2.1 c uid)
    (L : List (String × Nat × Nat)) (acc : Conn × RSet × Bool)
    (hok : (L.foldl (popStep fuel) acc).2.2 = true) :
    Full acc.1 acc.2.1 (L.foldl (popStep fuel) acc).1 (L.foldl (popStep fuel) acc).2.1 ∧
      ∀ ch ∈ L, RootDone (L.foldl (popStep fuel) acc).1 (L.foldl (popStep fuel) acc).2.1 acc.1 ch.2.1 := by
  induction L generalizing acc with
  | nil =>
    exact ⟨full_of_same_vis (good_of_same_vis (Ext.refl _) (fun _ => rfl)) (Same.refl _) (fun _ => rfl) (fun _ h => h),
      fun _ h => by cases h⟩
  | cons ch rest ihL =>
    rw [List.foldl_cons] at hok ⊢
    obtain ⟨hfull1, hrest⟩ := ihL (popStep fuel acc ch) hok
    -- the accumulated flag is true, hence so was this step's
    have hacc1 : (popStep fuel acc ch).2.2 = true := by
      have h := fold_good fuel (fun c uid r ind h => populateF_good fuel c uid r ind h) rest (popStep fuel acc ch) hok
      exact h.1
    have hand : (acc.2.2 && (populateF fuel acc.1 ch.2.1 acc.2.1 true).2.2) = true := hacc1
    rw [Bool.and_eq_true] at hand
    obtain ⟨hf, hroot⟩ := ih acc.1 ch.2.1 acc.2.1 true hand.2
    have hf' : Full acc.1 acc.2.1 (popStep fuel acc ch).1 (popStep fuel acc ch).2.1 := hf
    refine ⟨hf'.trans hfull1, ?_⟩
    intro ch' hch'
    rcases List.mem_cons.mp hch' with rfl | hr
    · rcases hroot with h | h
      · exact Or.inl (hfull1.good.ext.vis _ h)
      · exact Or.inr (hfull1.rmono _ h)
    · rcases hrest ch' hr with h | h
      · exact Or.inl h
      · refine Or.inr ?_
        have : (st (popStep fuel acc ch).1 ch'.2.1).rid = (st acc.1 ch'.2.1).rid := (hf'.same _).1
        rw [← this]; exact h

theorem body_full (fuel : Nat)
    (ih : ∀ c uid r ind, (populateF fuel c uid r ind).2.2 = true →
      Full c r (populateF fuel c uid r ind).1 (populateF fuel c uid r ind).2.1 ∧
      RootDone (populateF fuel c uid r ind).1 (populateF fuel c uid r ind).2.1 c uid)
    (c1 : Conn) (uid : Nat) (r : RSet) (hok : (populateBody fuel c1 uid r).2.2 = true) :
    Full c1 r (populateBody fuel c1 uid r).1 (populateBody fuel c1 uid r).2.1 ∧
      RootDone (populateBody fuel c1 uid r).1 (populateBody fuel c1 uid r).2.1 c1 uid := by
  cases hv : (st c1 uid).visited with
  | true =>
    have key : populateBody fuel c1 uid r = (c1, r, true) := by unfold populateBody; simp [hv]
    rw [key]
    exact ⟨full_of_same_vis (good_of_same_vis (Ext.refl c1) (fun _ => rfl)) (Same.refl _) (fun _ => rfl) (fun _ h => h),
      Or.inl hv⟩
  | false =>
    cases he : (st c1 uid).error with
    | some e =>
      have key : populateBody fuel c1 uid r = (c1, { r with errors := sset r.errors (st c1 uid).rid e }, true) := by
        unfold populateBody; simp [hv, he]
      rw [key]
      exact ⟨full_of_same_vis (good_of_same_vis (Ext.refl c1) (fun _ => rfl)) (Same.refl _) (fun _ => rfl)
        (fun rid h => has_mono_errors r _ e rid h), Or.inr (has_errors r _ e)⟩
    | none =>
      have key : populateBody fuel c1 uid r =
          (sortedRefs (st c1 uid)).foldl (popStep fuel) (markRoot c1 uid, rootSet (st c1 uid) r, true) := by
        unfold populateBody; simp [hv, he]
      have hgood : Good c1 (populateBody fuel c1 uid r).1 :=
        (body_good fuel (fun c uid r ind h => populateF_good fuel c uid r ind h) c1 uid r hok).1
      rw [key] at hok hgood ⊢
      obtain ⟨_, hroot2, hsame2⟩ := markRoot_spec c1 uid he
      have hms := markRoot_same c1 uid
      obtain ⟨hfull, hch⟩ := fold_full fuel ih (sortedRefs (st c1 uid)) (markRoot c1 uid, rootSet (st c1 uid) r, true) hok
      have hfull' : Full (markRoot c1 uid) (rootSet (st c1 uid) r) _ _ := hfull
      refine ⟨⟨hgood, hms.trans hfull'.same, fun rid h => hfull'.rmono rid (rootSet_mono _ r rid h), ?_, ?_⟩,
        Or.inl (hfull'.good.ext.vis uid hroot2)⟩
      · intro v hvc hvc' ht
        by_cases hvu : v = uid
        · subst hvu; exact hfull'.rmono _ (rootSet_has _ r ht)
        · have h2 : (st (markRoot c1 uid) v).visited = false := by rw [hsame2 v hvu]; exact hvc
          have := hfull'.deliv v h2 hvc' (by rw [hsame2 v hvu]; exact ht)
          rw [hsame2 v hvu] at this; exact this
      · intro v hvc hvc' ch hchm hnv
        by_cases hvu : v = uid
        · subst hvu
          rcases hch ch hchm with h | h
          · rw [h] at hnv; cases hnv
          · have e : (st (markRoot c1 v) ch.2.1).rid = (st c1 ch.2.1).rid := (hms _).1
            rw [← e]; exact h
        · have h2 : (st (markRoot c1 uid) v).visited = false := by rw [hsame2 v hvu]; exact hvc
          have := hfull'.errs v h2 hvc' ch (by rw [hsame2 v hvu]; exact hchm) hnv
          have e : (st (markRoot c1 uid) ch.2.1).rid = (st c1 ch.2.1).rid := (hms _).1
          rw [e] at this; exact this

/-- The full statement about one call of `populateF`. -/
theorem populateF_full (fuel : Nat) : ∀ (c : Conn) (uid : Nat) (r : RSet) (ind : Bool),
    (populateF fuel c uid r ind).2.2 = true →
      Full c r (populateF fuel c uid r ind).1 (populateF fuel c uid r ind).2.1 ∧
      RootDone (populateF fuel c uid r ind).1 (populateF fuel c uid r ind).2.1 c uid := by
  induction fuel with
  | zero => intro c uid r ind h; simp [populateF] at h
  | succ fuel ih =>
    intro c uid r ind hok
    rw [populateF_succ'] at hok ⊢
    obtain ⟨hf, hroot⟩ := body_full fuel ih (bump c uid ind) uid r hok
    have hb : Full c r (bump c uid ind) r :=
      full_of_same_vis (bump_good c uid ind) (bump_same c uid ind) (by
        intro v; unfold bump; cases ind
        · rfl
        · simp only [if_true]
          by_cases h : v = uid
          · subst h; rw [st_set_self]; rfl
          · rw [st_set_ne _ _ _ _ h]) (fun _ h => h)
    refine ⟨hb.trans hf, ?_⟩
    rcases hroot with h | h
    · exact Or.inl h
    · exact Or.inr (by rw [← ((bump_same c uid ind) uid).1]; exact h)

end Resgate.Gw
