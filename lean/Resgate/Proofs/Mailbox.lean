import Resgate.Gw.Pure

/-
The mailbox of a cache entry over whole runs: normal items are run in the order they were
enqueued, each at most once and none skipped, whatever query-event locks come and go in between
and however unlock items arrive; and no normal item runs while a lock is active.  `pop` is the
model's own `mbNext`; `enq`, `arrive` and `lock` are the three functions through which the gateway
model writes to a mailbox (`Entry.push` in `cacheEnqueue`, `Entry.pushUnlock` in the unlock
callback of a query request, `Entry.lockFor` for `lockEvents`).
-/

namespace Resgate.Gw.Mailbox

inductive Op where
  | enq (st : Nat) (it : CItem)
  | arrive (st : Nat) (li : LItem)
  | lock (n : Nat)
  | pop

structure MB where
  e : Entry
  ran : List CItem := []

def items (q : List (Nat × CItem)) : List CItem := q.map Prod.snd

def step (m : MB) : Op → MB
  | .enq st it => { m with e := m.e.push st it }
  | .arrive st li => { m with e := m.e.pushUnlock st li }
  | .lock n => { m with e := m.e.lockFor n }
  | .pop =>
    match mbNext m.e with
    | .normal it e' => { e := e', ran := m.ran ++ [it] }
    | .lock _ e' => { m with e := e' }
    | .idle => m

def enqueued : List Op → List CItem
  | [] => []
  | .enq _ it :: ops => it :: enqueued ops
  | _ :: ops => enqueued ops

theorem step_spec (m : MB) (op : Op) :
    (step m op).ran ++ items (step m op).e.queue = m.ran ++ items m.e.queue ++ enqueued [op] := by
  cases op with
  | enq st it => simp [step, items, enqueued, Entry.push]
  | arrive st li =>
    simp only [step, Entry.pushUnlock]
    split <;> simp [enqueued]
  | lock n => simp [step, enqueued, Entry.lockFor]
  | pop =>
    simp only [step, mbNext]
    cases hl : m.e.locks with
    | some p =>
      obtain ⟨cap, arr⟩ := p
      cases arr with
      | nil => simp [enqueued]
      | cons x rest => obtain ⟨st, li⟩ := x; simp [enqueued]
    | none =>
      cases hq : m.e.queue with
      | nil => simp [enqueued, hq]
      | cons x rest => obtain ⟨st, it⟩ := x; simp [enqueued, items, hq]

theorem enqueued_cons (op : Op) (ops : List Op) : enqueued (op :: ops) = enqueued [op] ++ enqueued ops := by
  cases op <;> simp [enqueued]

/-- Run level: what has been run, followed by what still waits, is what was there plus what was
    enqueued, in order — nothing lost, nothing twice, nothing reordered. -/
theorem run_spec (ops : List Op) (m : MB) :
    (ops.foldl step m).ran ++ items (ops.foldl step m).e.queue
      = m.ran ++ items m.e.queue ++ enqueued ops := by
  induction ops generalizing m with
  | nil => simp [enqueued]
  | cons op ops ih =>
    rw [List.foldl_cons, ih, step_spec, enqueued_cons op ops]
    simp [List.append_assoc]

/-- While a lock is active a `pop` runs no normal item. -/
theorem pop_locked (m : MB) (h : m.e.locks.isSome = true) : (step m .pop).ran = m.ran := by
  simp only [step, mbNext]
  cases hl : m.e.locks with
  | none => simp [hl] at h
  | some p =>
    obtain ⟨cap, arr⟩ := p
    cases arr with
    | nil => rfl
    | cons x rest => obtain ⟨st, li⟩ := x; rfl

end Resgate.Gw.Mailbox

namespace Resgate.Gw.Mailbox

/-- Number of unlock items (answers of query requests) that arrive during `ops`. -/
def arrivals : List Op → Nat
  | [] => 0
  | .arrive _ _ :: ops => arrivals ops + 1
  | _ :: ops => arrivals ops

def noLock : List Op → Prop
  | [] => True
  | .lock _ :: _ => False
  | _ :: ops => noLock ops

/-- The lock holds `cap` slots of which `arr.length` have an answer waiting to be processed and
    `r` are still unanswered. -/
def Held (m : MB) (r : Nat) : Prop :=
  ∃ cap arr, m.e.locks = some (cap, arr) ∧ cap = arr.length + r

theorem step_held (m : MB) (op : Op) (r : Nat) (hop : noLock [op]) (hr : arrivals [op] < r)
    (h : Held m r) : Held (step m op) (r - arrivals [op]) ∧ (step m op).ran = m.ran := by
  obtain ⟨cap, arr, hl, hc⟩ := h
  cases op with
  | enq st it => exact ⟨⟨cap, arr, by simp [step, Entry.push, hl], by simp [arrivals, hc]⟩, rfl⟩
  | arrive st li =>
    refine ⟨⟨cap, arr ++ [(st, li)], by simp [step, Entry.pushUnlock, hl], ?_⟩, rfl⟩
    simp [arrivals] at hr ⊢; omega
  | lock n => simp [noLock] at hop
  | pop =>
    refine ⟨?_, pop_locked m (by simp [hl])⟩
    cases arr with
    | nil => exact ⟨cap, [], by simp [step, mbNext, hl], by simp [arrivals, hc]⟩
    | cons x rest =>
      obtain ⟨st, li⟩ := x
      have hne : ¬ (cap - 1 = 0) := by simp at hc; simp [arrivals] at hr; omega
      refine ⟨cap - 1, rest, ?_, ?_⟩
      · simp [step, mbNext, hl, hne]
      · simp at hc; simp [arrivals]; omega

theorem noLock_cons (op : Op) (ops : List Op) : noLock (op :: ops) ↔ noLock [op] ∧ noLock ops := by
  cases op <;> simp [noLock]

theorem arrivals_cons (op : Op) (ops : List Op) : arrivals (op :: ops) = arrivals [op] + arrivals ops := by
  cases op <;> simp [arrivals]; omega

/-- While fewer answers have arrived than query requests are unanswered, the lock stays and no
    normal item is run — for every interleaving of enqueues, arriving answers and worker steps. -/
theorem run_held (ops : List Op) (m : MB) (r : Nat) (hop : noLock ops) (hr : arrivals ops < r)
    (h : Held m r) :
    Held (ops.foldl step m) (r - arrivals ops) ∧ (ops.foldl step m).ran = m.ran := by
  induction ops generalizing m r with
  | nil => simpa [arrivals] using h
  | cons op ops ih =>
    rw [noLock_cons] at hop
    rw [arrivals_cons] at hr
    obtain ⟨h1, e1⟩ := step_held m op r hop.1 (by omega) h
    obtain ⟨h2, e2⟩ := ih (step m op) (r - arrivals [op]) hop.2 (by omega) h1
    rw [List.foldl_cons, arrivals_cons]
    refine ⟨?_, by rw [e2, e1]⟩
    have : r - (arrivals [op] + arrivals ops) = r - arrivals [op] - arrivals ops := by omega
    rw [this]; exact h2

theorem held_lockFor (m : MB) (n : Nat) : Held { m with e := m.e.lockFor n } n :=
  ⟨n, [], by simp [Entry.lockFor], by simp⟩

/-- Once every answer has arrived (`Held m 0`: as many answers wait as slots are left), processing
    them — one worker step each — ends the lock; no normal item is run and the queue is untouched
    meanwhile, so the items that waited are resumed in their order by the next steps. -/
theorem drain_lock (arr : List (Nat × LItem)) (m : MB) (hne : arr ≠ [])
    (hl : m.e.locks = some (arr.length, arr)) :
    ((List.replicate arr.length Op.pop).foldl step m).e.locks = none ∧
    ((List.replicate arr.length Op.pop).foldl step m).ran = m.ran ∧
    ((List.replicate arr.length Op.pop).foldl step m).e.queue = m.e.queue := by
  induction arr generalizing m with
  | nil => exact absurd rfl hne
  | cons x rest ih =>
    obtain ⟨st, li⟩ := x
    cases rest with
    | nil =>
      simp [step, mbNext, hl]
    | cons y rest' =>
      have hstep : (step m .pop).e.locks = some ((y :: rest').length, y :: rest') := by
        simp [step, mbNext, hl]
      have hran : (step m .pop).ran = m.ran := pop_locked m (by simp [hl])
      have hq : (step m .pop).e.queue = m.e.queue := by simp [step, mbNext, hl]
      obtain ⟨a, b, c⟩ := ih (step m .pop) (by simp) hstep
      rw [List.length_cons, List.replicate_succ, List.foldl_cons]
      exact ⟨a, by rw [b, hran], by rw [c, hq]⟩

end Resgate.Gw.Mailbox
