import Resgate.Gw.Pure

/-
The mailbox of a cache entry over whole runs: normal items are run in the order they were
enqueued, each at most once and none skipped, whatever query-event locks come and go in between
and however unlock items arrive; and no normal item runs while a lock is active.  `pop` is the
model's own `mbNext`; `enq`, `arrive` and `lock` are the three functions through which the gateway
model writes to a mailbox (`Entry.push` in `cacheEnqueue`, `Entry.pushUnlock` in the unlock
callback of a query request, `Entry.lockFor` for `lockEvents`).
-/

namespace Resgate.Gw.Mailbox

inductive Op where
  | enq (st : Nat) (it : CItem)
  | arrive (st : Nat) (li : LItem)
  | lock (n : Nat)
  | pop

structure MB where
  e : Entry
  ran : List CItem := []

def items (q : List (Nat × CItem)) : List CItem := q.map Prod.snd

def step (m : MB) : Op → MB
  | .enq st it => { m with e := m.e.push st it }
  | .arrive st li => { m with e := m.e.pushUnlock st li }
  | .lock n => { m with e := m.e.lockFor n }
  | .pop =>
    match mbNext m.e with
    | .normal it e' => { e := e', ran := m.ran ++ [it] }
    | .lock _ e' => { m with e := e' }
    | .idle => m

def enqueued : List Op → List CItem
  | [] => []
  | .enq _ it :: ops => it :: enqueued ops
  | _ :: ops => enqueued ops

theorem step_spec (m : MB) (op : Op) :
    (step m op).ran ++ items (step m op).e.queue = m.ran ++ items m.e.queue ++ enqueued [op] := by
  cases op with
  | enq st it => simp [step, items, enqueued, Entry.push]
  | arrive st li =>
    simp only [step, Entry.pushUnlock]
    split <;> simp [enqueued]
  | lock n => simp [step, enqueued, Entry.lockFor]
  | pop =>
    simp only [step, mbNext]
    cases hl : m.e.locks with
    | some p =>
      obtain ⟨cap, arr⟩ := p
      cases arr with
      | nil => simp [enqueued]
      | cons x rest => obtain ⟨st, li⟩ := x; simp [enqueued]
    | none =>
      cases hq : m.e.queue with
      | nil => simp [enqueued, hq]
      | cons x rest => obtain ⟨st, it⟩ := x; simp [enqueued, items, hq]

theorem enqueued_cons (op : Op) (ops : List Op) : enqueued (op :: ops) = enqueued [op] ++ enqueued ops := by
  cases op <;> simp [enqueued]

/-- Run level: what has been run, followed by what still waits, is what was there plus what was
    enqueued, in order — nothing lost, nothing twice, nothing reordered. -/
theorem run_spec (ops : List Op) (m : MB) :
    (ops.foldl step m).ran ++ items (ops.foldl step m).e.queue
      = m.ran ++ items m.e.queue ++ enqueued ops := by
  induction ops generalizing m with
  | nil => simp [enqueued]
  | cons op ops ih =>
    rw [List.foldl_cons, ih, step_spec, enqueued_cons op ops]
    simp [List.append_assoc]

/-- While a lock is active a `pop` runs no normal item. -/
theorem pop_locked (m : MB) (h : m.e.locks.isSome = true) : (step m .pop).ran = m.ran := by
  simp only [step, mbNext]
  cases hl : m.e.locks with
  | none => simp [hl] at h
  | some p =>
    obtain ⟨cap, arr⟩ := p
    cases arr with
    | nil => rfl
    | cons x rest => obtain ⟨st, li⟩ := x; rfl

end Resgate.Gw.Mailbox
