import Resgate.Model.Rid
import Resgate.Proofs.Split

namespace Resgate

/-- Token-wise statement of a valid resource name: all tokens non-empty, all bytes `okByte`. -/
def nameOK (name : Bytes) : Bool :=
  (splitOn cDot name).all (fun t => !t.isEmpty && t.all okByte)

/-- The same for a suffix: `start` says the current token has no byte yet. -/
def restOK (start : Bool) (name : Bytes) : Bool :=
  (!start || !((splitOn cDot name).headD []).isEmpty) &&
  ((splitOn cDot name).headD []).all okByte &&
  (splitOn cDot name).tail.all (fun t => !t.isEmpty && t.all okByte)

theorem nameOK_eq_restOK (name : Bytes) : nameOK name = restOK true name := by
  unfold nameOK restOK
  have hne := splitOn_ne_nil cDot name
  cases hs : splitOn cDot name with
  | nil => exact absurd hs hne
  | cons t ts => simp [Bool.and_assoc]

theorem ridByteBad_of_not_ok {c : Nat} (h1 : c ≠ cQm) (h2 : c ≠ cDot) (h3 : ridByteBad c = false) :
    okByte c = true := by
  simp only [okByte, partByteBad, ridByteBad, cQm, cDot, cStar, cGt, Bool.or_eq_false_iff,
    decide_eq_false_iff_not, beq_eq_false_iff_ne, Bool.not_eq_true', Bool.or_eq_false_iff] at *
  omega

theorem not_ok_of_ridByteBad {c : Nat} (h3 : ridByteBad c = true) : okByte c = false := by
  simp only [okByte, partByteBad, ridByteBad, cQm, cDot, cStar, cGt, Bool.or_eq_true,
    decide_eq_true_eq, beq_iff_eq, Bool.not_eq_false'] at *
  omega

/-- Loop invariant of `IsValidRID`. -/
theorem isValidRIDAux_spec (aq : Bool) (start : Bool) (s : Bytes) :
    isValidRIDAux aq start s =
      (restOK start (cutAt cQm s).1 && ((cutAt cQm s).2.isNone || aq)) := by
  induction s generalizing start with
  | nil => cases start <;> simp [isValidRIDAux, cutAt, restOK, splitOn]
  | cons c cs ih =>
    unfold isValidRIDAux
    by_cases hq : c = cQm
    · subst hq
      cases start <;> cases aq <;> simp [cutAt, restOK, splitOn]
    · simp only [hq, if_false]
      have hcut : cutAt cQm (c :: cs) = (c :: (cutAt cQm cs).1, (cutAt cQm cs).2) := by
        simp [cutAt, hq]
      rw [hcut]
      simp only
      by_cases hb : ridByteBad c = true
      · simp only [hb, if_true]
        have hd : c ≠ cDot := by
          intro e; subst e; simp [ridByteBad, cDot, cStar, cGt] at hb
        have hok := not_ok_of_ridByteBad hb
        simp [restOK, splitOn_cons_ne hd, hok]
      · have hb' : ridByteBad c = false := by simpa using hb
        simp only [hb', Bool.false_eq_true, if_false]
        by_cases hd : c = cDot
        · subst hd
          simp only [if_true]
          cases start
          · simp only [Bool.false_eq_true, if_false, ih]
            simp [restOK, splitOn_cons_sep]
            have hne := splitOn_ne_nil cDot (cutAt cQm cs).1
            cases hs : splitOn cDot (cutAt cQm cs).1 with
            | nil => exact absurd hs hne
            | cons t ts => simp [Bool.and_assoc]
          · simp [restOK, splitOn_cons_sep]
        · simp only [hd, if_false, ih]
          have hok := ridByteBad_of_not_ok hq hd hb'
          simp [restOK, splitOn_cons_ne hd, hok]

/-- C14 `validRID_spec`: `IsValidRID` accepts exactly the non-empty dot-separated tokens of
    `okByte`s, the query being everything after the first `?` (only when allowed). -/
theorem isValidRID_spec (rid : Bytes) (aq : Bool) :
    isValidRID rid aq = (nameOK (cutAt cQm rid).1 && ((cutAt cQm rid).2.isNone || aq)) := by
  unfold isValidRID
  rw [isValidRIDAux_spec, nameOK_eq_restOK]

/-- C14 `validPart_spec`. -/
theorem isValidRIDPart_spec (p : Bytes) :
    isValidRIDPart p = (!p.isEmpty && p.all okByte) := by
  unfold isValidRIDPart okByte
  rw [Bool.and_comm]

/-- A non-empty word of `okByte`s is skipped by the loop, leaving `start = false`. -/
theorem isValidRIDAux_skip (aq start : Bool) (w s : Bytes) (hw : w.all okByte = true) (hne : w ≠ []) :
    isValidRIDAux aq start (w ++ s) = isValidRIDAux aq false s := by
  induction w generalizing start with
  | nil => exact absurd rfl hne
  | cons c cs ih =>
    simp only [List.all_cons, Bool.and_eq_true] at hw
    have hc := hw.1
    have h1 : c ≠ cQm := by
      intro e; subst e; simp [okByte, partByteBad, cQm, cDot, cStar, cGt] at hc
    have h2 : c ≠ cDot := by
      intro e; subst e; simp [okByte, partByteBad, cQm, cDot, cStar, cGt] at hc
    have h3 : ridByteBad c = false := by
      simp only [okByte, partByteBad, ridByteBad, cQm, cDot, cStar, cGt, Bool.not_eq_true',
        Bool.or_eq_false_iff, decide_eq_false_iff_not, beq_eq_false_iff_ne] at *
      omega
    simp only [List.cons_append, isValidRIDAux, h1, h2, h3, if_false, Bool.false_eq_true]
    cases cs with
    | nil => simp
    | cons d ds => exact ih false hw.2 (by simp)

def sCidTag : Bytes := [123, 99, 105, 100, 125]

/-- Expanding `{cid}` with a non-empty `okByte` connection id does not change validity. -/
theorem isValidRIDAux_expandCID (aq : Bool) (cid : Bytes) (hcid : cid.all okByte = true)
    (hne : cid ≠ []) (start : Bool) (s : Bytes) :
    isValidRIDAux aq start (expandCID cid s) = isValidRIDAux aq start s := by
  fun_induction expandCID cid s generalizing start with
  | case1 rest ih =>
    rw [isValidRIDAux_skip aq start cid _ hcid hne]
    have : (123 :: 99 :: 105 :: 100 :: 125 :: rest) = sCidTag ++ rest := rfl
    rw [this, isValidRIDAux_skip aq start sCidTag rest (by decide) (by decide)]
    exact ih false
  | case2 c cs hnot ih =>
    simp only [isValidRIDAux]
    split
    · rfl
    · split
      · rfl
      · split
        · split
          · rfl
          · exact ih true
        · exact ih false
  | case3 => rfl

theorem isValidRID_expandCID (aq : Bool) (cid rid : Bytes) (hcid : cid.all okByte = true)
    (hne : cid ≠ []) : isValidRID (expandCID cid rid) aq = isValidRID rid aq :=
  isValidRIDAux_expandCID aq cid hcid hne true rid

theorem parseRID_fst (rid : Bytes) : (parseRID rid).1 = (cutAt cQm rid).1 := by
  unfold parseRID
  cases h : cutAt cQm rid with
  | mk n q => cases q <;> simp

/-- The resource name of a valid (expanded) resource id is a hygienic subject part. -/
theorem name_ok_of_valid (cid rid : Bytes) (hcid : cid.all okByte = true) (hne : cid ≠ [])
    (hv : isValidRID rid true = true) : nameOK (parseRID (expandCID cid rid)).1 = true := by
  rw [← isValidRID_expandCID true cid rid hcid hne, isValidRID_spec] at hv
  rw [parseRID_fst]
  simp only [Bool.or_true, Bool.and_true] at hv
  exact hv

theorem hygienic_eq_nameOK (s : Bytes) : hygienic s = nameOK s := rfl

theorem nameOK_append_dot (a b : Bytes) : nameOK (a ++ cDot :: b) = (nameOK a && nameOK b) := by
  unfold nameOK
  rw [splitOn_append_sep, List.all_append]

theorem nameOK_of_part {m : Bytes} (h : isValidRIDPart m = true) : nameOK m = true := by
  rw [isValidRIDPart_spec] at h
  have hnd : cDot ∉ m := by
    intro hm
    have := (List.all_eq_true.mp (Bool.and_eq_true_iff.mp h).2) cDot hm
    simp [okByte, partByteBad, cDot] at this
  unfold nameOK
  rw [splitOn_no_sep hnd]
  simpa using h

end Resgate
