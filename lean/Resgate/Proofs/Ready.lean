/-
The ready-callback counter of `Subscription.OnReady / onLoaded / collectRefs / testReady`
(`readyCallback.loading`): one counter per client request, incremented for every subscription of
the tree that is still loading when it is visited, decremented when that subscription has loaded
and by the visiting subscription itself *after* it has visited its references; the request is
answered when the counter reaches zero.
-/

namespace Resgate.Ready

structure S where
  count : Int := 1        -- `loading`: starts with the root's own token
  rootHeld : Bool := true -- the root is still visiting its references (its token is not given back)
  outstanding : Nat := 0  -- subscriptions that were registered and have not loaded yet
  fired : Nat := 0        -- number of times the reply callback ran
  deriving Repr, DecidableEq

inductive Op where
  | register      -- a loading reference is visited: `loading++`
  | loaded        -- a registered subscription finishes loading: `loading--`, then `testReady`
  | rootDone      -- the root has visited all references: `loading--`, then `testReady`
  deriving Repr, DecidableEq

def fire (s : S) : S := if s.count = 0 then { s with fired := s.fired + 1 } else s

def step (s : S) : Op → S
  | .register => { s with count := s.count + 1, outstanding := s.outstanding + 1 }
  | .loaded => if s.outstanding = 0 then s else fire { s with count := s.count - 1, outstanding := s.outstanding - 1 }
  | .rootDone => if !s.rootHeld then s else fire { s with count := s.count - 1, rootHeld := false }

def run (s : S) : List Op → S
  | [] => s
  | op :: ops => run (step s op) ops

/-- The discipline the code follows: references are registered only while the root still holds
    its own token (`collectRefs` decrements after the loop over the references). -/
def Disciplined : S → List Op → Prop
  | _, [] => True
  | s, op :: ops => (op = .register → s.rootHeld = true) ∧ Disciplined (step s op) ops

def Inv (s : S) : Prop :=
  s.count = (s.outstanding : Int) + (if s.rootHeld then 1 else 0) ∧
  (s.fired = if s.rootHeld = false ∧ s.outstanding = 0 then 1 else 0)

theorem inv_init : Inv {} := by simp [Inv]

theorem step_inv (s : S) (op : Op) (h : Inv s) (hd : op = .register → s.rootHeld = true) : Inv (step s op) := by
  obtain ⟨hc, hf⟩ := h
  cases op with
  | register =>
    have hr := hd rfl
    simp only [step, Inv]
    refine ⟨by simp [hr] at hc ⊢; omega, ?_⟩
    simp [hr] at hf ⊢; exact hf
  | loaded =>
    simp only [step]
    by_cases h0 : s.outstanding = 0
    · simp [h0, Inv]; exact ⟨by simpa [h0] using hc, by simpa [h0] using hf⟩
    · simp only [h0, if_false, fire]
      cases hr : s.rootHeld with
      | true =>
        have hcount : s.count - 1 ≠ 0 := by simp [hr] at hc; omega
        simp [hcount, Inv, hr]
        refine ⟨by simp [hr] at hc; omega, by simpa [hr] using hf⟩
      | false =>
        simp only [hr] at hc hf
        by_cases h1 : s.outstanding = 1
        · have hcount : s.count - 1 = 0 := by simp at hc; omega
          simp [hcount, Inv, hr, h1]
          simp [h0] at hf; omega
        · have hcount : s.count - 1 ≠ 0 := by simp at hc; omega
          have hne : s.outstanding - 1 ≠ 0 := by omega
          simp [hcount, Inv, hr, hne]
          refine ⟨by simp at hc; omega, by simpa [h0] using hf⟩
  | rootDone =>
    simp only [step]
    cases hr : s.rootHeld with
    | false => simp [Inv, hr]; exact ⟨by simpa [hr] using hc, by simpa [hr] using hf⟩
    | true =>
      simp only [Bool.not_true, Bool.false_eq_true, if_false, fire]
      simp only [hr] at hc hf
      by_cases h0 : s.outstanding = 0
      · have hcount : s.count - 1 = 0 := by simp [h0] at hc; omega
        simp [hcount, Inv, h0]
        simp at hf; omega
      · have hcount : s.count - 1 ≠ 0 := by simp at hc; omega
        simp [hcount, Inv, h0]
        refine ⟨by simp at hc; omega, by simpa using hf⟩

theorem run_inv (s : S) (ops : List Op) (h : Inv s) (hd : Disciplined s ops) : Inv (run s ops) := by
  induction ops generalizing s with
  | nil => exact h
  | cons op ops ih => exact ih (step s op) (step_inv s op h hd.1) hd.2

/-- **Exactly one reply**: under the discipline, whatever the order in which the registered
    subscriptions load, the reply callback has run once if the root is done and nothing is
    outstanding, and not at all otherwise — never twice, never early. -/
theorem fires_exactly_once (ops : List Op) (hd : Disciplined {} ops) :
    (run {} ops).fired = if (run {} ops).rootHeld = false ∧ (run {} ops).outstanding = 0 then 1 else 0 :=
  (run_inv {} ops inv_init hd).2

/-- Without the discipline the counter passes through zero early: root done first, then a
    reference registered and loaded — two replies (the seeded change C07-b). -/
theorem undisciplined_fires_twice : (run {} [.rootDone, .register, .loaded]).fired = 2 := by decide

end Resgate.Ready
