import Resgate.Model.EncodeSpec
import Resgate.Proofs.Encode

namespace Resgate.Enc

theorem hrefJ_render (rid pref : String) : (hrefJ rid pref).render = href rid pref ++ "}" := by
  have h1 : jsonStr "href" = "\"href\"" := by decide
  have h2 : "{\"href\":" = "{" ++ "\"href\"" ++ ":" := by decide
  simp only [hrefJ, J.render, renderKVs, href, h1, h2, List.isEmpty_nil, if_true, String.append_assoc,
    String.append_empty]

theorem wrapJ_render_false (rid pref kind : String) (c : J) : (wrapJ false rid pref kind c).render = c.render := by
  simp [wrapJ]

theorem wrapJ_render_true (rid pref kind : String) (c : J) :
    (wrapJ true rid pref kind c).render = href rid pref ++ ("," ++ jsonStr kind ++ ":") ++ c.render ++ "}" := by
  have h1 : jsonStr "href" = "\"href\"" := by decide
  have h2 : "{\"href\":" = "{" ++ "\"href\"" ++ ":" := by decide
  simp only [wrapJ, if_true, J.render, renderKVs, href, h1, h2, List.isEmpty_nil, List.isEmpty_cons,
    if_false, String.append_assoc, String.append_empty, Bool.false_eq_true]

theorem expVals_length (g : HGraph) (pref : String) (flat : Bool) (path : List String) (vs : List HVal) :
    ∀ b, expVals g pref flat path vs = some b → b.length = vs.length := by
  induction vs with
  | nil => intro b h; rw [expVals] at h; cases h; rfl
  | cons v rest ih =>
    intro b h
    rw [expVals] at h
    cases ha : expVal g pref flat path v with
    | none => simp [ha] at h
    | some a =>
      cases hb : expVals g pref flat path rest with
      | none => simp [ha, hb] at h
      | some b' =>
        simp [ha, hb] at h
        subst h
        simp [ih b' hb]

theorem encVals_eq (g : HGraph) (pref : String) (flat : Bool) (path : List String) (vs : List HVal)
    (h : ∀ v ∈ vs, encVal g pref flat path v = (expVal g pref flat path v).map J.render) :
    encVals g pref flat path vs = (expVals g pref flat path vs).map renderVals := by
  induction vs with
  | nil => rw [encVals, expVals]; simp [renderVals]
  | cons v rest ih =>
    have hv := h v (by simp)
    have ihr := ih (fun x hx => h x (by simp [hx]))
    cases rest with
    | nil =>
      rw [encVals, expVals, hv]
      cases expVal g pref flat path v with
      | none => simp
      | some a => rw [expVals]; simp [renderVals]
    | cons v2 rest2 =>
      rw [encVals, expVals, hv, ihr]
      cases expVal g pref flat path v with
      | none => simp
      | some a =>
        cases hb : expVals g pref flat path (v2 :: rest2) with
        | none => simp
        | some b =>
          have hl := expVals_length g pref flat path (v2 :: rest2) b hb
          cases b with
          | nil => simp at hl
          | cons b1 bs => simp [renderVals, String.append_assoc]

theorem expKVs_length (g : HGraph) (pref : String) (flat : Bool) (path : List String) (kvs : List (String × HVal)) :
    ∀ b, expKVs g pref flat path kvs = some b → b.length = kvs.length := by
  induction kvs with
  | nil => intro b h; rw [expKVs] at h; cases h; rfl
  | cons kv rest ih =>
    obtain ⟨k, v⟩ := kv
    intro b h
    rw [expKVs] at h
    cases ha : expVal g pref flat path v with
    | none => simp [ha] at h
    | some a =>
      cases hb : expKVs g pref flat path rest with
      | none => simp [ha, hb] at h
      | some b' =>
        simp [ha, hb] at h
        subst h
        simp [ih b' hb]

theorem encKVs_eq (g : HGraph) (pref : String) (flat : Bool) (path : List String) (kvs : List (String × HVal))
    (h : ∀ kv ∈ kvs, encVal g pref flat path kv.2 = (expVal g pref flat path kv.2).map J.render) :
    encKVs g pref flat path kvs = (expKVs g pref flat path kvs).map renderKVs := by
  induction kvs with
  | nil => rw [encKVs, expKVs]; simp [renderKVs]
  | cons kv rest ih =>
    obtain ⟨k, v⟩ := kv
    have hv := h (k, v) (by simp)
    simp only at hv
    have ihr := ih (fun x hx => h x (by simp [hx]))
    cases rest with
    | nil =>
      rw [encKVs, expKVs, hv]
      cases expVal g pref flat path v with
      | none => simp
      | some a => rw [expKVs]; simp [renderKVs]
    | cons kv2 rest2 =>
      rw [encKVs, expKVs, hv, ihr]
      cases expVal g pref flat path v with
      | none => simp
      | some a =>
        cases hb : expKVs g pref flat path (kv2 :: rest2) with
        | none => simp
        | some b =>
          have hl := expKVs_length g pref flat path (kv2 :: rest2) b hb
          cases b with
          | nil => simp at hl
          | cons b1 bs => simp [renderKVs, String.append_assoc]

/-! Unfolding lemmas: one per kind of node, for the encoder and for the specification. -/

theorem encSub_none (g : HGraph) (pref : String) (flat : Bool) (path : List String) (rid : String) (wrap : Bool)
    (hp : rid ∉ path) (hl : lookup g rid = none) : encSub g pref flat path rid wrap = none := by
  rw [encSub]; simp only [hp, dite_false]; split <;> simp_all

theorem expSub_none (g : HGraph) (pref : String) (flat : Bool) (path : List String) (rid : String) (wrap : Bool)
    (hp : rid ∉ path) (hl : lookup g rid = none) : expSub g pref flat path rid wrap = none := by
  rw [expSub]; simp only [hp, dite_false]; split <;> simp_all

theorem encSub_err (g : HGraph) (pref : String) (flat : Bool) (path : List String) (rid : String) (wrap : Bool)
    (e : String) (hp : rid ∉ path) (hl : lookup g rid = some (.err e)) :
    encSub g pref flat path rid wrap =
      some ((if wrap && !flat then href rid pref else "") ++ (if wrap && !flat then ",\"error\":" else "") ++ e ++
        (if wrap && !flat then "}" else "")) := by
  rw [encSub]; simp only [hp, dite_false]; split <;> simp_all

theorem expSub_err (g : HGraph) (pref : String) (flat : Bool) (path : List String) (rid : String) (wrap : Bool)
    (e : String) (hp : rid ∉ path) (hl : lookup g rid = some (.err e)) :
    expSub g pref flat path rid wrap = some (wrapJ (wrap && !flat) rid pref "error" (.raw e)) := by
  rw [expSub]; simp only [hp, dite_false]; split <;> simp_all

theorem encSub_model (g : HGraph) (pref : String) (flat : Bool) (path : List String) (rid : String) (wrap : Bool)
    (kvs : List (String × HVal)) (hp : rid ∉ path) (hl : lookup g rid = some (.model kvs)) :
    encSub g pref flat path rid wrap =
      (encKVs g pref flat (rid :: path) kvs).map fun body =>
        (if wrap && !flat then href rid pref else "") ++ (if wrap && !flat then ",\"model\":" else "") ++ "{" ++ body ++ "}" ++
          (if wrap && !flat then "}" else "") := by
  rw [encSub]; simp only [hp, dite_false]
  split <;> simp_all
  split <;> simp_all

theorem expSub_model (g : HGraph) (pref : String) (flat : Bool) (path : List String) (rid : String) (wrap : Bool)
    (kvs : List (String × HVal)) (hp : rid ∉ path) (hl : lookup g rid = some (.model kvs)) :
    expSub g pref flat path rid wrap =
      (expKVs g pref flat (rid :: path) kvs).map fun b => wrapJ (wrap && !flat) rid pref "model" (.obj b) := by
  rw [expSub]; simp only [hp, dite_false]; split <;> simp_all

theorem encSub_coll (g : HGraph) (pref : String) (flat : Bool) (path : List String) (rid : String) (wrap : Bool)
    (vs : List HVal) (hp : rid ∉ path) (hl : lookup g rid = some (.coll vs)) :
    encSub g pref flat path rid wrap =
      (encVals g pref flat (rid :: path) vs).map fun body =>
        (if wrap && !flat then href rid pref else "") ++ (if wrap && !flat then ",\"collection\":" else "") ++ "[" ++ body ++ "]" ++
          (if wrap && !flat then "}" else "") := by
  rw [encSub]; simp only [hp, dite_false]
  split <;> simp_all
  split <;> simp_all

theorem expSub_coll (g : HGraph) (pref : String) (flat : Bool) (path : List String) (rid : String) (wrap : Bool)
    (vs : List HVal) (hp : rid ∉ path) (hl : lookup g rid = some (.coll vs)) :
    expSub g pref flat path rid wrap =
      (expVals g pref flat (rid :: path) vs).map fun b => wrapJ (wrap && !flat) rid pref "collection" (.arr b) := by
  rw [expSub]; simp only [hp, dite_false]; split <;> simp_all

/-- **Refinement.** The byte-concatenating encoder prints exactly the structured expansion, for
    both encodings, every graph (cyclic or not), every path and prefix.  (`wrap = false` with the
    resource already on the path does not occur: the root is expanded with an empty path.) -/
theorem encSub_eq_render (g : HGraph) (pref : String) (flat : Bool) :
    ∀ (n : Nat) (path : List String), offPath g path = n → ∀ (rid : String) (wrap : Bool),
      (wrap = true ∨ rid ∉ path) →
      encSub g pref flat path rid wrap = (expSub g pref flat path rid wrap).map J.render := by
  intro n
  induction n using Nat.strongRecOn with
  | _ n ih =>
    intro path hn rid wrap hw
    by_cases hp : rid ∈ path
    · have hwt : wrap = true := by
        rcases hw with h | h
        · exact h
        · exact absurd hp h
      subst hwt
      rw [encSub, expSub]
      cases flat <;> simp [hp, hrefJ_render]
    · have hval : ∀ nd, lookup g rid = some nd →
          ∀ v, encVal g pref flat (rid :: path) v = (expVal g pref flat (rid :: path) v).map J.render := by
        intro nd hnd v
        cases v with
        | prim raw => rw [encVal, expVal]; simp [J.render]
        | data inner => rw [encVal, expVal]; simp [J.render]
        | soft r => rw [encVal, expVal]; simp [hrefJ_render]
        | ref r =>
          rw [encVal, expVal]
          have hlt := offPath_lt g path rid nd hnd hp
          exact ih (offPath g (rid :: path)) (by omega) (rid :: path) rfl r true (Or.inl rfl)
      have hk1 : jsonStr "error" = "\"error\"" := by decide
      have hl1 : ",\"error\":" = "," ++ "\"error\"" ++ ":" := by decide
      have hk2 : jsonStr "model" = "\"model\"" := by decide
      have hl2 : ",\"model\":" = "," ++ "\"model\"" ++ ":" := by decide
      have hk3 : jsonStr "collection" = "\"collection\"" := by decide
      have hl3 : ",\"collection\":" = "," ++ "\"collection\"" ++ ":" := by decide
      cases hnd : lookup g rid with
      | none => rw [encSub_none g pref flat path rid wrap hp hnd, expSub_none g pref flat path rid wrap hp hnd]; rfl
      | some nd =>
        cases nd with
        | err e =>
          rw [encSub_err g pref flat path rid wrap e hp hnd, expSub_err g pref flat path rid wrap e hp hnd]
          generalize (wrap && !flat) = b
          cases b <;> simp [wrapJ_render_false, wrapJ_render_true, J.render, hk1, hl1, String.append_assoc]
        | model kvs =>
          rw [encSub_model g pref flat path rid wrap kvs hp hnd, expSub_model g pref flat path rid wrap kvs hp hnd,
            encKVs_eq g pref flat (rid :: path) kvs (fun kv _ => hval _ hnd kv.2)]
          generalize (wrap && !flat) = b
          cases expKVs g pref flat (rid :: path) kvs with
          | none => simp
          | some body =>
            cases b
            · simp [wrapJ_render_false, J.render, String.append_assoc]
            · simp [wrapJ_render_true, J.render, hk2, hl2, String.append_assoc]
              have h4 : ",\"model\":{" = ",\"model\":" ++ "{" := by decide
              rw [h4, String.append_assoc]
        | coll vs =>
          rw [encSub_coll g pref flat path rid wrap vs hp hnd, expSub_coll g pref flat path rid wrap vs hp hnd,
            encVals_eq g pref flat (rid :: path) vs (fun v _ => hval _ hnd v)]
          generalize (wrap && !flat) = b
          cases expVals g pref flat (rid :: path) vs with
          | none => simp
          | some body =>
            cases b
            · simp [wrapJ_render_false, J.render, String.append_assoc]
            · simp [wrapJ_render_true, J.render, hk3, hl3, String.append_assoc]
              have h4 : ",\"collection\":[" = ",\"collection\":" ++ "[" := by decide
              rw [h4, String.append_assoc]

/-- What GET returns is the printed expansion of the resource. -/
theorem encodeGET_eq_render (g : HGraph) (pref : String) (flat : Bool) (rid : String) :
    encodeGET g pref flat rid = (expandGET g pref flat rid).map J.render :=
  encSub_eq_render g pref flat _ [] rfl rid false (Or.inr (by simp))

end Resgate.Enc
