import Resgate.Model.Svc

namespace Resgate.Svc

/-- Well-formedness: stopping implies running (a Stop in progress belongs to a started service). -/
def WF (s : S) : Prop := (s.stopping = true → s.running = true) ∧ (s.running = false → s.conns = 0)

theorem wf_init : WF {} := by simp [WF]

theorem step_wf (s : S) (op : Op) (h : WF s) : WF (step s op).1 := by
  obtain ⟨h1, h2⟩ := h
  cases op <;> simp only [step]
  · split
    · exact ⟨h1, h2⟩
    · split
      · exact ⟨h1, h2⟩
      · rename_i hr hs
        constructor <;> simp_all
  · split
    · exact ⟨h1, h2⟩
    · rename_i hc
      simp only [Bool.or_eq_true, Bool.not_eq_true', not_or] at hc
      constructor <;> simp_all
  · split
    · simp [WF]
    · exact ⟨h1, h2⟩
  · split
    · exact ⟨h1, h2⟩
    · rename_i hc
      simp only [Bool.or_eq_true, Bool.not_eq_true', not_or] at hc
      constructor
      · intro hs; simp_all
      · intro hr; simp_all
  · split
    · constructor
      · exact h1
      · intro hr; have := h2 hr; simp_all
    · exact ⟨h1, h2⟩

/-- No connection is created while the service is stopped or stopping. -/
theorem connect_refused (s : S) (h : s.running = false ∨ s.stopping = true) :
    step s .connect = (s, .refused) := by
  simp only [step]
  rcases h with h | h <;> simp [h]

/-- Stop is idempotent: a second Stop while one is in progress, or on a stopped service, does nothing. -/
theorem stop_idempotent (s : S) (c : Option String) (h : s.running = false ∨ s.stopping = true) :
    step s (.stopBegin c) = (s, .stopNoop) := by
  simp only [step]
  rcases h with h | h <;> simp [h]

/-- Completing a Stop reports the cause it was started with, leaves no connection, and the
    service can be started again. -/
theorem stop_completes (s : S) (h : s.stopping = true) :
    (step s .stopEnd).2 = .stopped s.cause s.conns ∧
    (step s .stopEnd).1 = {} ∧
    (step (step s .stopEnd).1 .start).2 = .started := by
  simp [step, h]

def nStopped : List Out → Nat
  | [] => 0
  | .stopped _ _ :: os => nStopped os + 1
  | _ :: os => nStopped os

def nStopStarted : List Out → Nat
  | [] => 0
  | .stopStarted :: os => nStopStarted os + 1
  | _ :: os => nStopStarted os

def b2n (b : Bool) : Nat := if b then 1 else 0

theorem step_balance (s : S) (op : Op) :
    nStopped [(step s op).2] + b2n (step s op).1.stopping = nStopStarted [(step s op).2] + b2n s.stopping := by
  cases op <;> simp only [step]
  · split
    · simp [nStopped, nStopStarted]
    · split <;> simp [nStopped, nStopStarted]
  · split
    · simp [nStopped, nStopStarted]
    · rename_i hc
      simp only [Bool.or_eq_true, Bool.not_eq_true', not_or, Bool.not_eq_true] at hc
      simp [nStopped, nStopStarted, b2n, hc.2]
  · split
    · rename_i hs; simp [nStopped, nStopStarted, b2n, hs]
    · simp [nStopped, nStopStarted]
  · split <;> simp [nStopped, nStopStarted]
  · split <;> simp [nStopped, nStopStarted]

theorem nStopped_cons (o : Out) (os : List Out) : nStopped (o :: os) = nStopped [o] + nStopped os := by
  cases o <;> simp [nStopped] <;> omega

theorem nStopStarted_cons (o : Out) (os : List Out) :
    nStopStarted (o :: os) = nStopStarted [o] + nStopStarted os := by
  cases o <;> simp [nStopStarted] <;> omega

/-- For every sequence of operations: exactly one stop value per Stop that was started and has
    completed (never two for one Stop), whatever else arrives in between. -/
theorem one_value_per_stop (s : S) (ops : List Op) :
    nStopped (run s ops).2 + b2n (run s ops).1.stopping = nStopStarted (run s ops).2 + b2n s.stopping := by
  induction ops generalizing s with
  | nil => simp [run, nStopped, nStopStarted]
  | cons op ops ih =>
    simp only [run]
    have h1 := ih (step s op).1
    have h2 := step_balance s op
    rw [nStopped_cons, nStopStarted_cons]
    omega

end Resgate.Svc
