import Resgate.Gw.Conn
import Resgate.Proofs.Access

/-
Theorems about the pure decision functions the gateway model is built from.
-/

namespace Resgate.Gw

/-! ### access verdicts (C04, C05, C06) -/

/-- `CanGet`: granted iff the answer carries no error and `get` is true; every error is a denial
    carrying that error, a result without `get` is `system.accessDenied`. -/
theorem canGet_spec (a : Access) :
    (a.canGet = none ↔ a.err = none ∧ a.get = true) ∧
    (∀ e, a.err = some e → a.canGet = some e) ∧
    (a.err = none → a.get = false → a.canGet = some "system.accessDenied") := by
  unfold Access.canGet
  refine ⟨?_, ?_, ?_⟩
  · cases h : a.err <;> cases hg : a.get <;> simp
  · intro e h; simp [h]
  · intro h hg; simp [h, hg]

/-- `CanCall`: granted iff no error and the call list is `*` or has the method as an exact entry. -/
theorem canCallE_spec (a : Access) (action : String) :
    a.canCallE action = none ↔
      a.err = none ∧ (toBytes a.call = [cStar] ∨
        (toBytes a.call ≠ [] ∧ toBytes action ∈ splitOn cComma (toBytes a.call))) := by
  unfold Access.canCallE
  cases h : a.err with
  | some e => simp
  | none =>
    simp only [true_and]
    rw [← canCall_spec]
    cases hc : canCall (toBytes a.call) (toBytes action) <;> simp

/-- A verdict is remembered only for an actual result or `system.accessDenied`; timeouts and other
    errors are not cached (the next request asks again). -/
theorem storeVerdict_spec (a : Access) :
    storeVerdict a = true ↔ a.err = none ∨ a.err = some "system.accessDenied" := by
  unfold storeVerdict
  cases h : a.err with
  | none => simp
  | some e => simp

/-! ### version gate (C01, C03) -/

theorem subGate_spec (v stamp : Nat) (update : Bool) :
    (subGate v stamp update = none ↔ v ≠ stamp) ∧
    (v = stamp → subGate v stamp update = some (if update then v + 1 else v)) := by
  unfold subGate
  by_cases h : v = stamp <;> simp [h]

/-! ### direct subscription accounting (C08) -/

/-- An unsubscribe request succeeds exactly when its count is positive and does not exceed the
    number of direct subscriptions held; a non-positive or malformed count is
    `system.invalidParams`; everything else is `system.noSubscription`. -/
theorem unsubVerdict_spec (bad : Bool) (count : Int) (direct : Option Int) :
    (unsubVerdict bad count direct = .ok ↔ bad = false ∧ 0 < count ∧ ∃ d, direct = some d ∧ count ≤ d) ∧
    (unsubVerdict bad count direct = .invalidParams ↔ bad = true ∨ count ≤ 0) := by
  unfold unsubVerdict
  cases bad <;> simp
  by_cases hc : count ≤ 0
  · simp [hc]; omega
  · simp only [hc, if_false]
    cases direct with
    | none => simp; omega
    | some d =>
      by_cases hd : d < count
      · simp [hd]; omega
      · simp [hd]; omega

/-- The per-resource limit: at `limit` direct subscriptions a further one is refused and the count
    is unchanged; below it the count grows by exactly one. -/
theorem addDirect_spec (limit d : Int) :
    (addDirect limit d = none ↔ limit ≤ d) ∧ (d < limit → addDirect limit d = some (d + 1)) := by
  unfold addDirect
  by_cases h : d ≥ limit <;> simp [h] <;> omega

/-! ### use counts and eviction (C09) -/

/-- A cache entry's use-count bookkeeping, abstractly: `evictPending` must say exactly whether the
    entry sits in the unsubscribe queue. -/
structure Cnt where
  count : Int
  pending : Bool
  deriving Repr

inductive CntOp | add | remove (n : Int)

/-- One operation; `none` = `timerqueue.Add` panics because the element is already queued. -/
def Cnt.step (c : Cnt) : CntOp → Option Cnt
  | .add => let (n, p) := addCountPure c.count c.pending; some ⟨n, p⟩
  | .remove n =>
    let (cnt, p, pnc) := removeCountPure c.count n c.pending
    if pnc then none else some ⟨cnt, p⟩

/-- Invariant under well-formed use (never more releases than uses): the count is non-negative and
    the entry waits for eviction exactly when its count is zero. -/
def Cnt.Inv (c : Cnt) : Prop := 0 ≤ c.count ∧ (c.pending = true ↔ c.count = 0)

/-- Adding a user keeps the invariant, except that a fresh entry (count 0, not pending) is not
    represented here: entries start at count 1. Releasing `n` users with `0 < n ≤ count` keeps it
    and never panics. -/
theorem Cnt.step_inv (c : Cnt) (h : c.Inv) (op : CntOp)
    (hop : match op with | .add => True | .remove n => 0 < n ∧ n ≤ c.count) :
    ∃ c', c.step op = some c' ∧ (c'.count = 0 → c'.pending = true) ∧ 0 ≤ c'.count ∧
      (c'.pending = true → c'.count = 0) := by
  obtain ⟨h0, hp⟩ := h
  cases op with
  | add =>
    refine ⟨_, rfl, ?_, ?_, ?_⟩
    · simp only [addCountPure]; intro hz; omega
    · simp only [addCountPure]; omega
    · simp only [addCountPure]
      by_cases hc : c.count = 0
      · simp [hc]
      · simp only [beq_iff_eq, hc, if_false]
        intro hpend
        exact absurd (hp.mp hpend) hc
  | remove n =>
    obtain ⟨hn, hle⟩ := hop
    simp only [Cnt.step, removeCountPure]
    by_cases hz : c.count - n = 0
    · have hnp : c.pending = false := by
        cases hpd : c.pending with
        | false => rfl
        | true => have := hp.mp hpd; omega
      have hn0 : (n != 0) = true := by simp; omega
      simp [hz, hn0, hnp]
    · have hb : ((c.count - n == 0) && (n != 0)) = false := by simp [hz]
      simp only [hb, Bool.false_eq_true, if_false]
      refine ⟨_, rfl, ?_, ?_, ?_⟩
      · intro h; exact absurd h hz
      · simp; omega
      · intro hpend
        have := hp.mp hpend
        omega

/-- Eviction (`mqUnsubscribe`) acts only on an unused entry: it re-checks the count. -/
theorem evict_only_unused (count : Int) : (count > 0) → ¬ (count ≤ 0) := by omega

/-! ### mailbox discipline of a cache entry (C03, C13) -/

/-- While a query-event lock is active no normal queue item runs. -/
theorem mbNext_locked (e : Entry) (h : e.locks.isSome = true) :
    ∀ it e', mbNext e ≠ .normal it e' := by
  intro it e'
  unfold mbNext
  cases hl : e.locks with
  | none => simp [hl] at h
  | some p =>
    obtain ⟨cap, pend⟩ := p
    cases pend with
    | nil => simp
    | cons x rest => obtain ⟨st, li⟩ := x; simp

/-- Each unlock item uses one slot; the lock clears exactly when the last slot is used, after which
    the waiting normal items are next, in FIFO order. -/
theorem mbNext_unlock (e : Entry) (cap st : Nat) (it : LItem) (rest : List (Nat × LItem))
    (h : e.locks = some (cap, (st, it) :: rest)) :
    mbNext e = .lock it { e with locks := if cap - 1 == 0 && rest.isEmpty then none else some (cap - 1, rest) } := by
  unfold mbNext; simp [h]

theorem mbNext_fifo (e : Entry) (st : Nat) (it : CItem) (rest : List (Nat × CItem))
    (hl : e.locks = none) (hq : e.queue = (st, it) :: rest) :
    mbNext e = .normal it { e with queue := rest } := by
  unfold mbNext; simp [hl, hq]

/-- The lock countdown: `n` unlock items arriving in any order relative to normal enqueues clear a
    lock of capacity `n`; nothing else does. -/
def lockAfter (cap : Nat) (k : Nat) : Option Nat := if k ≥ cap then none else some (cap - k)

theorem lock_clears_iff (cap k : Nat) (hc : 0 < cap) : lockAfter cap k = none ↔ cap ≤ k := by
  unfold lockAfter; by_cases h : k ≥ cap <;> simp [h] <;> omega

/-! ### disconnect (C11) -/

/-- Once a connection is disposing its mailbox refuses every item and nothing changes. -/
theorem connEnqueue_disposing (g : Gw) (cid : Nat) (it : KItem)
    (h : ((g.conns.find? (·.cid == cid)).getD default).disposing = true) :
    (connEnqueue cid it).run g = (false, g) := by
  simp [connEnqueue, getConn, h, bind, StateT.bind, get, getThe, MonadStateOf.get, StateT.get, pure,
    StateT.pure, StateT.run]

end Resgate.Gw

/-! ### event queue of a subscription (C03, C06): order is preserved by queueing -/

namespace Resgate.EvQ

/-- Abstract subscription event queue: events already processed (in order), events waiting. -/
structure Q (ε : Type) where
  done : List ε
  waiting : List ε
  queueing : Bool

/-- `Event`: append while queueing, else process at once. -/
def Q.recv {ε} (q : Q ε) (e : ε) : Q ε :=
  if q.queueing then { q with waiting := q.waiting ++ [e] } else { q with done := q.done ++ [e] }

/-- `unqueueEvents`: process waiting events in order; `stops e = true` means processing `e` starts
    queueing again (a new reference must load), in which case the rest stays, in order, in front of
    anything that arrives later. -/
def Q.flush {ε} (stops : ε → Bool) : List ε → List ε → List ε × List ε × Bool
  | done, [] => (done, [], false)
  | done, e :: rest => if stops e then (done ++ [e], rest, true) else Q.flush stops (done ++ [e]) rest

def Q.unqueue {ε} (q : Q ε) (stops : ε → Bool) : Q ε :=
  let (d, w, qu) := Q.flush stops q.done q.waiting
  ⟨d, w, qu⟩

theorem flush_order {ε} (stops : ε → Bool) (done waiting : List ε) :
    let r := Q.flush stops done waiting
    r.1 ++ r.2.1 = done ++ waiting := by
  induction waiting generalizing done with
  | nil => simp [Q.flush]
  | cons e rest ih =>
    simp only [Q.flush]
    split
    · simp
    · have := ih (done ++ [e]); simpa using this

inductive Op (ε : Type) | recv (e : ε) | startQueueing | unqueue (stops : ε → Bool)

def Q.step {ε} (q : Q ε) : Op ε → Q ε
  | .recv e => q.recv e
  | .startQueueing => { q with queueing := true }
  | .unqueue stops => q.unqueue stops

def received {ε} : List (Op ε) → List ε
  | [] => []
  | .recv e :: ops => e :: received ops
  | _ :: ops => received ops

/-- For every interleaving of arriving events, starts of queueing and flushes (including flushes
    that restart queueing in the middle): processed ++ waiting = received, in order — no event is
    reordered, duplicated or lost, and while queueing nothing is processed. -/
theorem queue_preserves_order {ε} (ops : List (Op ε)) (q : Q ε)
    (hw : q.queueing = false → q.waiting = []) :
    let q' := ops.foldl Q.step q
    q'.done ++ q'.waiting = q.done ++ q.waiting ++ received ops ∧
    (q'.queueing = false → q'.waiting = []) := by
  induction ops generalizing q with
  | nil => simpa [received] using hw
  | cons op ops ih =>
    simp only [List.foldl_cons]
    cases op with
    | recv e =>
      have hstep : (q.step (.recv e)).done ++ (q.step (.recv e)).waiting = q.done ++ q.waiting ++ [e] := by
        simp only [Q.step, Q.recv]
        cases hq : q.queueing
        · simp [hw hq]
        · simp
      have hw' : (q.step (.recv e)).queueing = false → (q.step (.recv e)).waiting = [] := by
        simp only [Q.step, Q.recv]
        cases hq : q.queueing
        · simp [hw hq]
        · simp
      have := ih (q.step (.recv e)) hw'
      simp only [received]
      refine ⟨?_, this.2⟩
      rw [this.1, hstep]; simp
    | startQueueing =>
      have := ih (q.step .startQueueing) (by simp [Q.step])
      simp only [received]
      simpa [Q.step] using this
    | unqueue stops =>
      have ho := flush_order stops q.done q.waiting
      have hw' : (q.step (.unqueue stops)).queueing = false → (q.step (.unqueue stops)).waiting = [] := by
        simp only [Q.step, Q.unqueue]
        generalize hd : q.done = d
        generalize hww : q.waiting = w
        clear ho hw hd hww
        induction w generalizing d with
        | nil => simp [Q.flush]
        | cons e rest ihw =>
          simp only [Q.flush]
          split
          · simp
          · exact ihw (d ++ [e])
      have := ih (q.step (.unqueue stops)) hw'
      simp only [received]
      refine ⟨?_, this.2⟩
      rw [this.1]
      simp only [Q.step, Q.unqueue]
      simp only at ho
      rw [ho]

end Resgate.EvQ
