import Resgate.Gw.QIdx

namespace Resgate.Gw

def upd {β} (k : String) (v : β) (p : String × β) : String × β := if p.1 == k then (k, v) else p

theorem lookup_cons' {β} (k a : String) (b : β) (r : List (String × β)) :
    List.lookup k ((a, b) :: r) = if k == a then some b else List.lookup k r := by
  cases h : k == a <;> simp [List.lookup, h]

theorem lookup_mapupd_ne {β} (t : List (String × β)) {k k' : String} (v : β) (hne : k' ≠ k) :
    List.lookup k' (t.map (upd k v)) = List.lookup k' t := by
  induction t with
  | nil => rfl
  | cons p r ih =>
    obtain ⟨a, b⟩ := p
    by_cases h : a = k
    · subst h
      have hk : (k' == a) = false := by simpa using hne
      simp only [List.map_cons, upd, beq_self_eq_true, if_true, lookup_cons', hk, Bool.false_eq_true, if_false, ih]
    · have hb : (a == k) = false := by simpa using h
      simp only [List.map_cons, upd, hb, Bool.false_eq_true, if_false, lookup_cons', ih]

theorem lookup_mapupd_self {β} (t : List (String × β)) (k : String) (v : β) (hany : t.any (·.1 == k) = true) :
    List.lookup k (t.map (upd k v)) = some v := by
  induction t with
  | nil => simp at hany
  | cons p r ih =>
    obtain ⟨a, b⟩ := p
    by_cases h : a = k
    · subst h
      simp only [List.map_cons, upd, beq_self_eq_true, if_true, lookup_cons']
    · have hb : (a == k) = false := by simpa using h
      have hk : (k == a) = false := by simpa using (fun e : k = a => h e.symm)
      have hany' : r.any (·.1 == k) = true := by simpa [List.any_cons, hb] using hany
      simp only [List.map_cons, upd, hb, Bool.false_eq_true, if_false, lookup_cons', hk, ih hany']

theorem lookup_append_ne {β} (t : List (String × β)) {k k' : String} (v : β) (hne : k' ≠ k) :
    List.lookup k' (t ++ [(k, v)]) = List.lookup k' t := by
  have hk : (k' == k) = false := by simpa using hne
  induction t with
  | nil => simp [lookup_cons', hk, List.lookup]
  | cons p r ih =>
    obtain ⟨a, b⟩ := p
    simp only [List.cons_append, lookup_cons', ih]

theorem lookup_append_self {β} (t : List (String × β)) (k : String) (v : β) (hany : t.any (·.1 == k) = false) :
    List.lookup k (t ++ [(k, v)]) = some v := by
  induction t with
  | nil => simp [lookup_cons']
  | cons p r ih =>
    obtain ⟨a, b⟩ := p
    simp only [List.any_cons, Bool.or_eq_false_iff] at hany
    have hk : (k == a) = false := by
      have : (a == k) = false := hany.1
      simpa [beq_eq_false_iff_ne, ne_comm] using this
    simp only [List.cons_append, lookup_cons', hk, Bool.false_eq_true, if_false, ih hany.2]

theorem any_false_of_lookup_none {β} (t : List (String × β)) (k : String) (h : qget t k = none) :
    t.any (·.1 == k) = false := by
  unfold qget at h
  induction t with
  | nil => rfl
  | cons p r ih =>
    obtain ⟨a, b⟩ := p
    rw [lookup_cons'] at h
    cases hka : k == a with
    | true => simp [hka] at h
    | false =>
      simp only [hka, Bool.false_eq_true, if_false] at h
      have : (a == k) = false := by
        simpa [beq_eq_false_iff_ne, ne_comm] using hka
      simp [List.any_cons, this, ih h]

theorem qset_eq {β} (t : List (String × β)) (k : String) (v : β) :
    qset t k v = if t.any (·.1 == k) then t.map (upd k v) else t ++ [(k, v)] := rfl

theorem qget_qset_self {β} (t : List (String × β)) (k : String) (v : β) : qget (qset t k v) k = some v := by
  rw [qset_eq]; unfold qget
  cases h : t.any (·.1 == k) with
  | true => simp only [if_true]; exact lookup_mapupd_self t k v h
  | false => simp only [Bool.false_eq_true, if_false]; exact lookup_append_self t k v h

theorem qget_qset_ne {β} (t : List (String × β)) {k k' : String} (v : β) (hne : k' ≠ k) :
    qget (qset t k v) k' = qget t k' := by
  rw [qset_eq]; unfold qget
  cases h : t.any (·.1 == k) with
  | true => simp only [if_true]; exact lookup_mapupd_ne t v hne
  | false => simp only [Bool.false_eq_true, if_false]; exact lookup_append_ne t v hne

theorem qget_qdel_self {β} (t : List (String × β)) (k : String) : qget (qdel t k) k = none := by
  unfold qdel qget
  induction t with
  | nil => rfl
  | cons p r ih =>
    obtain ⟨a, b⟩ := p
    by_cases h : a = k
    · subst h; simp [List.filter_cons, ih]
    · have hb : (a != k) = true := by simpa using h
      have hk : (k == a) = false := by simpa using (fun e : k = a => h e.symm)
      simp [List.filter_cons, hb, List.lookup, hk, ih]

theorem qget_qdel_ne {β} (t : List (String × β)) {k k' : String} (hne : k' ≠ k) :
    qget (qdel t k) k' = qget t k' := by
  unfold qdel qget
  induction t with
  | nil => rfl
  | cons p r ih =>
    obtain ⟨a, b⟩ := p
    by_cases h : a = k
    · subst h
      have hk : (k' == a) = false := by simpa using hne
      simp [List.filter_cons, List.lookup, hk, ih]
    · have hb : (a != k) = true := by simpa using h
      simp only [List.filter_cons, hb, if_true, List.lookup]
      cases hka : k' == a <;> simp [ih]

/-- After a get response re-linked the raw query, the raw query resolves to the target. -/
theorem lookup_link_raw (x : QIdx) (raw : String) (target : Nat) :
    (x.link raw target).lookup raw = some target := by
  unfold QIdx.link QIdx.lookup
  by_cases h : (raw == "") = true
  · simp [h]
  · simp only [h, if_false, Bool.false_eq_true, qget_qdel_self, qget_qset_self]

/-- Every other query resolves as before. -/
theorem lookup_link_other (x : QIdx) (raw q : String) (target : Nat) (hne : q ≠ raw) :
    (x.link raw target).lookup q = x.lookup q := by
  unfold QIdx.link QIdx.lookup
  by_cases h : (raw == "") = true
  · have hr : raw = "" := by simpa using h
    have hq : (q == "") = false := by simpa [hr] using hne
    simp [h, hq]
  · by_cases hq : (q == "") = true
    · simp [h, hq]
    · simp only [h, hq, if_false, Bool.false_eq_true, qget_qdel_ne x.queries hne, qget_qset_ne x.links target hne]

/-- **Aliases share one cached resource**: if the normalised query resolves to `t` and the raw
    query is linked to `t`, both resolve to `t`; so do all raw queries linked to it earlier. -/
theorem aliases_share (x : QIdx) (raw nq : String) (t : Nat) (hne : nq ≠ raw) (h : x.lookup nq = some t) :
    (x.link raw t).lookup raw = some t ∧ (x.link raw t).lookup nq = some t := by
  refine ⟨lookup_link_raw x raw t, ?_⟩
  rw [lookup_link_other x raw nq t hne, h]

/-- A newly registered query resolves to its resource (the caller registers only queries that do
    not resolve yet). -/
theorem lookup_register (x : QIdx) (q : String) (rs : Nat) (hnone : x.lookup q = none) :
    (x.register q rs).lookup q = some rs := by
  unfold QIdx.register QIdx.lookup at *
  by_cases hq : (q == "") = true
  · simp [hq]
  · simp only [hq, if_false, Bool.false_eq_true] at hnone ⊢
    have hqn : qget x.queries q = none := by
      cases h : qget x.queries q with
      | none => rfl
      | some v => simp [h] at hnone
    have hany : x.queries.any (·.1 == q) = false := any_false_of_lookup_none x.queries q hqn
    have : qget (x.queries ++ [(q, rs)]) q = some rs := lookup_append_self x.queries q rs hany
    simp [this]

/-- Unregistering a resource removes its own query. -/
theorem lookup_unregister_self (x : QIdx) (q : String) (hq : q ≠ "") (hl : qget x.links q = none) :
    (x.unregister q []).lookup q = none := by
  have hb : (q == "") = false := by simpa using hq
  simp [QIdx.unregister, QIdx.lookup, hb, qget_qdel_self, hl]

end Resgate.Gw
