import Resgate.Proofs.PatternSpec

/-
The converse of `parse_valid_of_tokens`: whatever `ParseResourcePattern` accepts is made of valid
tokens.  Together: a pattern is valid iff its tokens are, and `match_spec` holds for every valid
pattern.
-/

namespace Resgate

def LitTokB (t : Bytes) : Prop :=
  ∀ c ∈ t, 33 ≤ c ∧ c ≤ 126 ∧ c ≠ cQm ∧ c ≠ cStar ∧ c ≠ cGt ∧ c ≠ cDot

theorem tokOK_lit (last : Bool) (t : Bytes) (hne : t ≠ []) (h : LitTokB t) : tokOK last t = true := by
  have hall : t.all (fun c => 33 ≤ c && c ≤ 126 && c != cQm && c != cStar && c != cGt && c != cDot) = true := by
    rw [List.all_eq_true]
    intro c hc
    obtain ⟨h1, h2, h3, h4, h5, h6⟩ := h c hc
    simp [h1, h2, h3, h4, h5, h6]
  cases t with
  | nil => exact absurd rfl hne
  | cons a b => simp [tokOK, hall]

theorem patTokensOK_cons_of {t : Bytes} {rest : List Bytes} (h1 : tokOK rest.isEmpty t = true)
    (h2 : rest = [] ∨ patTokensOK rest = true) : patTokensOK (t :: rest) = true := by
  cases rest with
  | nil => simpa [patTokensOK] using h1
  | cons a b =>
    rcases h2 with h | h
    · cases h
    · simp [patTokensOK] at h1 ⊢; exact ⟨h1, by simpa [patTokensOK] using h⟩

/-- What a successful run of the parser loop says about the rest of the pattern, by parser state
    (`start`: at the beginning of a token; `alone`: right after a `*`). -/
theorem parsePatAux_tokens (cs : Bytes) : ∀ (start alone hw : Bool) (r : Bool),
    parsePatAux start alone hw cs = some r → cs.getLast? ≠ some cDot →
    ∃ t0 rest, splitOn cDot cs = t0 :: rest ∧ (rest = [] ∨ patTokensOK rest = true) ∧
      (start = true → alone = false → (cs = [] ∨ patTokensOK (t0 :: rest) = true)) ∧
      (alone = true → start = false → t0 = []) ∧
      (start = false → alone = false → LitTokB t0) := by
  induction cs with
  | nil =>
    intro start alone hw r _ _
    refine ⟨[], [], rfl, Or.inl rfl, ?_, ?_, ?_⟩
    · intro _ _; exact Or.inl rfl
    · intro _ _; rfl
    · intro _ _ x hx; cases hx
  | cons c cs' ih =>
    intro start alone hw r h hlast
    have hlast' : cs'.getLast? ≠ some cDot := by
      cases cs' with
      | nil => simp
      | cons a b => simpa [List.getLast?_cons_cons] using hlast
    by_cases hdot : c = cDot
    · -- a dot: the current token ends
      subst hdot
      unfold parsePatAux at h
      simp only [if_true] at h
      cases start with
      | true => simp at h
      | false =>
        simp only [Bool.false_eq_true, if_false] at h
        obtain ⟨t0', rest', hs, hr, hstart, _, _⟩ := ih true false hw r h hlast'
        have hne : cs' ≠ [] := by
          intro e; subst e; simp [cDot] at hlast
        refine ⟨[], t0' :: rest', by rw [splitOn_cons_sep, hs], ?_, ?_, ?_, ?_⟩
        · rcases hstart rfl rfl with h0 | h0
          · exact absurd h0 hne
          · exact Or.inr h0
        · intro h1; cases h1
        · intro _ _; rfl
        · intro _ _ x hx; cases hx
    · unfold parsePatAux at h
      simp only [hdot, if_false] at h
      by_cases hbad : (alone || decide (c < 33) || decide (c > 126) || decide (c = cQm)) = true
      · simp [hbad] at h
      · simp only [hbad, if_false, Bool.false_eq_true] at h
        have halone : alone = false := by
          cases alone <;> simp_all
        have h33 : 33 ≤ c := by
          have : ¬ c < 33 := by intro hh; apply hbad; simp [hh]
          omega
        have h126 : c ≤ 126 := by
          have : ¬ c > 126 := by intro hh; apply hbad; simp [hh]
          omega
        have hq : c ≠ cQm := by intro hh; apply hbad; simp [hh]
        subst halone
        by_cases hgt : c = cGt
        · subst hgt
          simp only [if_true] at h
          by_cases hc2 : (!start || !cs'.isEmpty) = true
          · simp [hc2] at h
          · have hst : start = true := by cases start <;> simp_all
            have hem : cs' = [] := by
              cases cs' with
              | nil => rfl
              | cons a b => simp [hst] at hc2
            subst hem
            refine ⟨[cGt], [], by simp [splitOn, cGt, cDot], Or.inl rfl, ?_, ?_, ?_⟩
            · intro _ _; exact Or.inr (by decide)
            · intro h1; cases h1
            · intro h1; rw [hst] at h1; cases h1
        · simp only [hgt, if_false] at h
          by_cases hstar : c = cStar
          · subst hstar
            simp only [if_true] at h
            cases start with
            | false => simp at h
            | true =>
              simp only [Bool.not_true, Bool.false_eq_true, if_false] at h
              obtain ⟨t0', rest', hs, hr, _, halone', _⟩ := ih false true true r h hlast'
              have ht0 : t0' = [] := halone' rfl rfl
              subst ht0
              have hsd : cStar ≠ cDot := by decide
              refine ⟨[cStar], rest', by rw [splitOn_cons_ne hsd, hs]; rfl, hr, ?_, ?_, ?_⟩
              · intro _ _
                refine Or.inr (patTokensOK_cons_of ?_ hr)
                cases rest' with
                | nil => decide
                | cons a b => simp [tokOK, cStar]
              · intro h1; cases h1
              · intro h1; cases h1
          · simp only [hstar, if_false] at h
            obtain ⟨t0', rest', hs, hr, _, _, hlit⟩ := ih false false hw r h hlast'
            have hl := hlit rfl rfl
            have hl2 : LitTokB (c :: t0') := by
              intro x hx
              rcases List.mem_cons.mp hx with rfl | hx
              · exact ⟨h33, h126, hq, hstar, hgt, hdot⟩
              · exact hl x hx
            refine ⟨c :: t0', rest', by rw [splitOn_cons_ne hdot, hs]; rfl, hr, ?_, ?_, ?_⟩
            · intro _ _
              exact Or.inr (patTokensOK_cons_of (tokOK_lit _ _ (by simp) hl2) hr)
            · intro h1; cases h1
            · intro _ _; exact hl2

/-- **A pattern is valid iff its tokens are.** -/
theorem parse_valid_iff (p : Bytes) : (parsePattern p).isValid = true ↔ patTokensOK (splitOn cDot p) = true := by
  constructor
  · intro h
    unfold parsePattern at h
    by_cases hpre : (p.isEmpty || decide (p.getLast? = some cDot)) = true
    · simp [hpre, Pattern.isValid, Pattern.invalid] at h
    · simp only [hpre, if_false, Bool.false_eq_true] at h
      have hne : p ≠ [] := by intro e; subst e; simp at hpre
      have hlast : p.getLast? ≠ some cDot := by intro e; apply hpre; simp [e]
      cases hp : parsePatAux true false false p with
      | none => simp [hp, Pattern.isValid, Pattern.invalid] at h
      | some r =>
        obtain ⟨t0, rest, hs, _, hstart, _, _⟩ := parsePatAux_tokens p true false false r hp hlast
        rcases hstart rfl rfl with h0 | h0
        · exact absurd h0 hne
        · rw [hs]; exact h0
  · exact parse_valid_of_tokens p

/-- `match_spec` for every pattern the parser accepts. -/
theorem match_spec_valid (p s : Bytes) (hp : (parsePattern p).isValid = true)
    (hs : ∀ t ∈ splitOn cDot s, t ≠ []) :
    (parsePattern p).matches s = tokMatch (splitOn cDot p) (splitOn cDot s) :=
  match_spec p s ((parse_valid_iff p).mp hp) hs

end Resgate
