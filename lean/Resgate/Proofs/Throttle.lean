import Resgate.Model.Throttle

namespace Resgate
namespace Throttle

/-- Invariant: the running counter stays within `0 … limit`, and callbacks wait only while every
    slot is taken. -/
def Inv (t : Throttle) : Prop :=
  0 ≤ t.running ∧ t.running ≤ t.limit ∧ (t.queue ≠ [] → t.running = t.limit)

def addsOf : List TOp → List Nat
  | [] => []
  | .add cb :: ops => cb :: addsOf ops
  | .done :: ops => addsOf ops

def nDone : List TOp → Nat
  | [] => 0
  | .add _ :: ops => nDone ops
  | .done :: ops => nDone ops + 1

theorem inv_new (limit : Int) (h : 0 < limit) : Inv (Throttle.new limit) := by
  simp [Inv, Throttle.new]; omega

/-- The only panic is `Done` with nothing running. -/
theorem step_none_iff (t : Throttle) (op : TOp) :
    t.step op = none ↔ op = .done ∧ t.running ≤ 0 := by
  cases op with
  | add cb => simp only [step]; split <;> simp
  | done =>
    simp only [step]
    split
    · simp_all
    · rename_i h
      cases t.queue <;> simp_all

/-- One step: invariant, FIFO hand-over and slot accounting. -/
theorem step_spec (t : Throttle) (op : TOp) (t' : Throttle) (out : List Nat) (hi : Inv t)
    (h : t.step op = some (t', out)) :
    Inv t' ∧ t'.limit = t.limit ∧
    out ++ t'.queue = t.queue ++ addsOf [op] ∧
    t'.running + (nDone [op] : Int) = t.running + out.length := by
  obtain ⟨h0, h1, h2⟩ := hi
  cases op with
  | add cb =>
    simp only [step] at h
    split at h
    · rename_i hge
      simp only [Option.some.injEq, Prod.mk.injEq] at h
      obtain ⟨rfl, rfl⟩ := h
      refine ⟨⟨h0, h1, fun _ => by simp only; omega⟩, rfl, by simp [addsOf], by simp [nDone]⟩
    · rename_i hlt
      simp only [Option.some.injEq, Prod.mk.injEq] at h
      obtain ⟨rfl, rfl⟩ := h
      have hq : t.queue = [] := by
        cases hq : t.queue with
        | nil => rfl
        | cons a b => have := h2 (by simp [hq]); omega
      refine ⟨⟨by simp; omega, by simp; omega, fun hne => by simp [hq] at hne⟩, rfl,
        by simp [addsOf, hq], by simp [nDone]⟩
  | done =>
    simp only [step] at h
    split at h
    · simp at h
    · rename_i hpos
      split at h
      · rename_i hq
        simp only [Option.some.injEq, Prod.mk.injEq] at h
        obtain ⟨rfl, rfl⟩ := h
        refine ⟨⟨by simp; omega, by simp; omega, fun hne => by simp [hq] at hne⟩, rfl,
          by simp [addsOf, hq], by simp [nDone]⟩
      · rename_i cb q hq
        simp only [Option.some.injEq, Prod.mk.injEq] at h
        obtain ⟨rfl, rfl⟩ := h
        have := h2 (by simp [hq])
        refine ⟨⟨h0, h1, fun _ => this⟩, rfl, by simp [addsOf, hq], by simp [nDone]⟩

theorem addsOf_cons (op : TOp) (ops : List TOp) : addsOf (op :: ops) = addsOf [op] ++ addsOf ops := by
  cases op <;> simp [addsOf]

theorem nDone_cons (op : TOp) (ops : List TOp) : nDone (op :: ops) = nDone [op] + nDone ops := by
  cases op <;> simp [nDone] <;> omega

/-- Every word of operations that does not panic: invariant at the end, callbacks are started in
    the order they were added (`started ++ waiting = all added`), and
    `running = started − done`. -/
theorem run_spec (t : Throttle) (ops : List TOp) (t' : Throttle) (out : List Nat) (hi : Inv t)
    (h : t.run ops = some (t', out)) :
    Inv t' ∧ t'.limit = t.limit ∧
    out ++ t'.queue = t.queue ++ addsOf ops ∧
    t'.running + (nDone ops : Int) = t.running + out.length := by
  induction ops generalizing t out with
  | nil =>
    simp only [run, Option.some.injEq, Prod.mk.injEq] at h
    obtain ⟨rfl, rfl⟩ := h
    exact ⟨hi, rfl, by simp [addsOf], by simp [nDone]⟩
  | cons op ops ih =>
    simp only [run] at h
    cases hs : t.step op with
    | none => simp [hs] at h
    | some p =>
      obtain ⟨t1, o1⟩ := p
      simp only [hs] at h
      cases hr : t1.run ops with
      | none => simp [hr] at h
      | some p2 =>
        obtain ⟨t2, o2⟩ := p2
        simp only [hr, Option.some.injEq, Prod.mk.injEq] at h
        obtain ⟨rfl, rfl⟩ := h
        obtain ⟨i1, l1, f1, c1⟩ := step_spec t op t1 o1 hi hs
        obtain ⟨i2, l2, f2, c2⟩ := ih t1 o2 i1 hr
        refine ⟨i2, by rw [l2, l1], ?_, ?_⟩
        · rw [addsOf_cons, List.append_assoc, f2, ← List.append_assoc, f1, List.append_assoc]
        · rw [nDone_cons]
          simp only [List.length_append]
          push_cast
          omega

/-- A word in which every `Done` answers a callback that was started (so far more starts than
    dones) never panics. -/
theorem no_panic_of_matched (t : Throttle) (hpos : 0 < t.running) :
    (t.step .done).isSome = true := by
  simp only [step]
  split
  · omega
  · cases t.queue <;> rfl

/-- No stall: while a callback waits, all `limit ≥ 1` slots are taken by requests whose `Done`
    is outstanding, and each such `Done` starts exactly the longest-waiting callback. -/
theorem done_starts_head (t : Throttle) (hi : Inv t) (hl : 0 < t.limit) (cb : Nat) (q : List Nat)
    (hq : t.queue = cb :: q) :
    t.step .done = some ({ t with queue := q }, [cb]) := by
  have := hi.2.2 (by simp [hq])
  simp only [step]
  split
  · omega
  · simp [hq]

/-- Every governed request is eventually sent: once every request that was started has been
    answered (as many `Done`s as started callbacks — in whatever order the answers came, the
    throttle does not see which one an answer belongs to), nothing waits and nothing runs. -/
theorem all_answered_all_started (limit : Int) (hl : 0 < limit) (ops : List TOp) (t' : Throttle)
    (out : List Nat) (h : (Throttle.new limit).run ops = some (t', out))
    (hall : nDone ops = out.length) :
    t'.queue = [] ∧ t'.running = 0 ∧ out = addsOf ops := by
  obtain ⟨i, hlim, f, c⟩ := run_spec (Throttle.new limit) ops t' out (inv_new limit hl) h
  simp only [Throttle.new, List.nil_append] at f hlim
  have c' : t'.running + (nDone ops : Int) = (out.length : Int) := by
    simpa [Throttle.new] using c
  have hc : (nDone ops : Int) = (out.length : Int) := by exact_mod_cast hall
  have hr : t'.running = 0 := by omega
  have hq : t'.queue = [] := by
    cases hq : t'.queue with
    | nil => rfl
    | cons a b => have := i.2.2 (by simp [hq]); omega
  exact ⟨hq, hr, by simpa [hq] using f⟩

/-- `n` answers in a row. -/
def dones (n : Nat) : List TOp := List.replicate n .done

theorem drain_nil (l : Int) (n : Nat) :
    (⟨l, (n : Int), []⟩ : Throttle).run (dones n) = some (⟨l, 0, []⟩, []) := by
  induction n with
  | zero => simp [dones, run]
  | succ n ih =>
    have hstep : (⟨l, ((n + 1 : Nat) : Int), []⟩ : Throttle).step .done = some (⟨l, (n : Int), []⟩, []) := by
      have : ¬ ((n : Int) + 1 ≤ 0) := by omega
      simp [step, this]
    simp only [dones, List.replicate_succ, run, hstep]
    simp only [dones] at ih
    rw [ih]; simp

/-- Drain: from any state the invariant allows, answering the outstanding requests one after the
    other — `running + waiting` answers — starts every waiting callback, in order, and ends with
    nothing running; none of these answers panics. -/
theorem drain (t : Throttle) (hi : Inv t) (hl : 0 < t.limit) :
    t.run (dones (t.running.toNat + t.queue.length))
      = some ({ t with running := 0, queue := [] }, t.queue) := by
  obtain ⟨l, r, q⟩ := t
  induction q with
  | nil =>
    have h0 : 0 ≤ r := hi.1
    obtain ⟨n, rfl⟩ : ∃ n : Nat, r = (n : Int) := ⟨r.toNat, by omega⟩
    simp only [List.length_nil, Nat.add_zero, Int.toNat_natCast]
    exact drain_nil l n
  | cons cb q ih =>
    have hfull := hi.2.2 (by simp)
    simp only at hfull hl
    have hpos : ¬ r ≤ 0 := by omega
    have hstep : (⟨l, r, cb :: q⟩ : Throttle).step .done = some (⟨l, r, q⟩, [cb]) := by
      simp [step, hpos]
    have hi' : Inv ⟨l, r, q⟩ := ⟨hi.1, hi.2.1, fun _ => hfull⟩
    have := ih hi' hl
    simp only [List.length_cons, ← Nat.add_assoc, dones, List.replicate_succ, run, hstep]
    simp only [dones] at this
    rw [this]; simp

end Throttle
end Resgate
