import Resgate.Model.Pattern
import Resgate.Proofs.Split

namespace Resgate

/-- The scanner invariant: with `cur` (comma-free) the part of the current entry already read,
    scanning the reversed rest decides membership in the entries of `rest ++ cur`. -/
theorem callScan_spec (action : Bytes) (r cur : Bytes) (hcur : cComma ∉ cur) :
    callScan action r cur = true ↔ action ∈ splitOn cComma (r.reverse ++ cur) := by
  induction r generalizing cur with
  | nil =>
    simp only [callScan, List.reverse_nil, List.nil_append, splitOn_no_sep hcur,
      List.mem_singleton, decide_eq_true_eq]
    exact eq_comm
  | cons c rest ih =>
    simp only [callScan, List.reverse_cons, List.append_assoc, List.singleton_append]
    by_cases hc : c = cComma
    · subst hc
      simp only [if_true]
      rw [splitOn_append_sep, splitOn_no_sep hcur, List.mem_append, List.mem_singleton]
      have ih' := ih [] (by simp)
      simp only [List.append_nil] at ih'
      by_cases hca : cur = action
      · simp [hca]
      · simp only [hca, if_false, ih']
        constructor
        · intro h; exact Or.inl h
        · intro h; rcases h with h | h
          · exact h
          · exact absurd h.symm hca
    · simp only [hc, if_false]
      apply ih
      intro hm
      rcases List.mem_cons.mp hm with h | h
      · exact hc h.symm
      · exact hcur h

theorem canCall_spec (call action : Bytes) :
    canCall call action = true ↔
      call = [cStar] ∨ (call ≠ [] ∧ action ∈ splitOn cComma call) := by
  unfold canCall
  by_cases h1 : call = [cStar]
  · simp [h1]
  · simp only [h1, if_false, false_or]
    by_cases h2 : call = []
    · simp [h2]
    · have h2' : call.isEmpty = false := by
        cases call with
        | nil => exact absurd rfl h2
        | cons _ _ => rfl
      simp only [h2', Bool.false_eq_true, if_false, ne_eq, h2, not_false_eq_true, true_and]
      have := callScan_spec action call.reverse [] (by simp)
      simpa using this

end Resgate
