import Resgate.Model.Basic

namespace Resgate

@[simp] theorem splitOn_nil (sep : Nat) : splitOn sep [] = [[]] := rfl

theorem splitOn_cons_sep (sep : Nat) (cs : Bytes) :
    splitOn sep (sep :: cs) = [] :: splitOn sep cs := by
  simp [splitOn]

theorem splitOn_cons_ne {sep c : Nat} (h : c ≠ sep) (cs : Bytes) :
    splitOn sep (c :: cs) = (c :: (splitOn sep cs).headD []) :: (splitOn sep cs).tail := by
  simp [splitOn, h]

/-- A string without the separator is one token. -/
theorem splitOn_no_sep {sep : Nat} {s : Bytes} (h : sep ∉ s) : splitOn sep s = [s] := by
  induction s with
  | nil => rfl
  | cons c cs ih =>
    have hc : c ≠ sep := by intro e; apply h; simp [e]
    have hcs : sep ∉ cs := by intro e; apply h; simp [e]
    rw [splitOn_cons_ne hc, ih hcs]; rfl

/-- Splitting `a ++ sep :: b` gives the tokens of `a` followed by the tokens of `b`. -/
theorem splitOn_append_sep (sep : Nat) (a b : Bytes) :
    splitOn sep (a ++ sep :: b) = splitOn sep a ++ splitOn sep b := by
  induction a with
  | nil => simp [splitOn_cons_sep]
  | cons c cs ih =>
    by_cases hc : c = sep
    · subst hc
      simp only [List.cons_append, splitOn_cons_sep, ih]
    · simp only [List.cons_append, splitOn_cons_ne hc, ih]
      have hne := splitOn_ne_nil sep cs
      cases hs : splitOn sep cs with
      | nil => exact absurd hs hne
      | cons t ts => simp

/-- The head token of `splitOn` for a string starting with non-separators. -/
theorem splitOn_append_no_sep {sep : Nat} {w : Bytes} (hw : sep ∉ w) (s : Bytes) :
    splitOn sep (w ++ s) = (w ++ (splitOn sep s).headD []) :: (splitOn sep s).tail := by
  induction w with
  | nil =>
    have hne := splitOn_ne_nil sep s
    cases hs : splitOn sep s with
    | nil => exact absurd hs hne
    | cons t ts => simp [hs]
  | cons c cs ih =>
    have hc : c ≠ sep := by intro e; apply hw; simp [e]
    have hcs : sep ∉ cs := by intro e; apply hw; simp [e]
    simp only [List.cons_append, splitOn_cons_ne hc, ih hcs]
    simp

end Resgate
