import Resgate.Model.Encode
import Resgate.Proofs.Split

/-
`PathToRID ∘ RIDToPath = id`: every href the gateway prints leads back to the resource it names.
-/

namespace Resgate.Enc
open Resgate

theorem joinWith_splitOn (sep : Nat) (s : Bytes) : joinWith sep (splitOn sep s) = s := by
  induction s with
  | nil => rfl
  | cons c cs ih =>
    have hne := splitOn_ne_nil sep cs
    cases hs : splitOn sep cs with
    | nil => exact absurd hs hne
    | cons h t =>
      rw [hs] at ih
      by_cases hc : c = sep
      · subst hc
        rw [splitOn_cons_sep, hs]
        simp [joinWith, ih]
      · rw [splitOn_cons_ne hc, hs]
        cases t with
        | nil => simp [joinWith] at ih ⊢; exact ih
        | cons t1 ts => simp [joinWith] at ih ⊢; exact ih

theorem hexVal_hexU (n : Nat) (h : n < 16) :
    hexVal? (Char.ofNat (hexU n)) = some n ∧ hexU n < 128 ∧ hexU n ≠ cSlash ∧ hexU n ≠ cDot := by
  have : ∀ m : Fin 16, hexVal? (Char.ofNat (hexU m.val)) = some m.val ∧ hexU m.val < 128 ∧ hexU m.val ≠ cSlash ∧ hexU m.val ≠ cDot := by
    decide
  exact this ⟨n, h⟩

/-- The escaped form with dots turned into slashes. -/
def escPath (rid : Bytes) : Bytes := (rid.flatMap escB).map fun b => if b = cDot then cSlash else b

theorem unreserved_facts (b : Nat) (h : unreservedB b = true) : b ≠ cPct ∧ b ≠ cSlash := by
  constructor
  · intro e; subst e; revert h; decide
  · intro e; subst e; revert h; decide

theorem escPath_nil : escPath [] = [] := rfl

theorem escPath_cons_dot (rest : Bytes) : escPath (cDot :: rest) = cSlash :: escPath rest := by
  simp [escPath, escB, unreservedB, cDot, cSlash]

theorem escPath_cons_unres (b : Nat) (rest : Bytes) (h : unreservedB b = true) (hd : b ≠ cDot) :
    escPath (b :: rest) = b :: escPath rest := by
  simp [escPath, escB, h, hd]

theorem escPath_cons_res (b : Nat) (rest : Bytes) (h : unreservedB b = false) (hb : b < 256) :
    escPath (b :: rest) = cPct :: hexU (b / 16) :: hexU (b % 16) :: escPath rest := by
  have h1 := (hexVal_hexU (b / 16) (by omega)).2.2.2
  have h2 := (hexVal_hexU (b % 16) (by omega)).2.2.2
  simp only [cDot] at h1 h2
  simp [escPath, escB, h, h1, h2, cPct, cDot]

theorem unescapeB_cons_ne (c : Nat) (rest : Bytes) (h : c ≠ cPct) :
    unescapeB (c :: rest) = (unescapeB rest).map (c :: ·) := by
  rw [unescapeB.eq_def]
  split
  · rename_i e; cases e
  · rename_i e; cases e; exact absurd rfl h
  · rename_i e; cases e; exact absurd rfl h
  · rename_i c' rest' _ _ e; cases e; rfl

theorem unescapeB_pct (b : Nat) (rest : Bytes) (hb : b < 256) :
    unescapeB (cPct :: hexU (b / 16) :: hexU (b % 16) :: rest) = (unescapeB rest).map (b :: ·) := by
  have h1 := hexVal_hexU (b / 16) (by omega)
  have h2 := hexVal_hexU (b % 16) (by omega)
  rw [unescapeB.eq_def]
  split
  · rename_i e; cases e
  · rename_i x y r e
    cases e
    rw [h1.1, h2.1]
    cases unescapeB rest with
    | none => rfl
    | some r' =>
      have : b / 16 * 16 + b % 16 = b := by omega
      simp [h1.2.1, h2.2.1, this]
  · rename_i hne e
    cases e
    exact absurd rfl (hne _ _ _)
  · rename_i hne1 hne2 e
    cases e
    exact (hne1 _ _ _ rfl rfl).elim

theorem mapM_cons_some {f : Bytes → Option Bytes} {h : Bytes} {t : List Bytes} {r : List Bytes}
    (hm : (h :: t).mapM f = some r) : ∃ h' t', f h = some h' ∧ t.mapM f = some t' ∧ r = h' :: t' := by
  simp only [List.mapM_cons] at hm
  cases hf : f h with
  | none => simp [hf] at hm
  | some h' =>
    cases ht : t.mapM f with
    | none => simp [hf, ht] at hm
    | some t' =>
      simp [hf, ht] at hm
      exact ⟨h', t', rfl, rfl, hm.symm⟩

/-- Splitting the escaped path on slashes and unescaping every segment gives the dot-separated
    parts of the resource id. -/
theorem mapM_unescape_escPath (rid : Bytes) (hb : ∀ b ∈ rid, b < 256) :
    (splitOn cSlash (escPath rid)).mapM unescapeB = some (splitOn cDot rid) := by
  induction rid with
  | nil => simp [escPath_nil, unescapeB]
  | cons b rest ih =>
    have ihr := ih (fun x hx => hb x (by simp [hx]))
    have hne := splitOn_ne_nil cSlash (escPath rest)
    cases hs : splitOn cSlash (escPath rest) with
    | nil => exact absurd hs hne
    | cons h t =>
      rw [hs] at ihr
      obtain ⟨h', t', hh, ht, hr⟩ := mapM_cons_some ihr
      by_cases hd : b = cDot
      · subst hd
        rw [escPath_cons_dot, splitOn_cons_sep, splitOn_cons_sep, hs, hr]
        simp [List.mapM_cons, unescapeB, hh, ht]
      · by_cases hu : unreservedB b = true
        · have hf := unreserved_facts b hu
          rw [escPath_cons_unres b rest hu hd, splitOn_cons_ne hf.2, hs, splitOn_cons_ne hd, hr]
          simp [List.mapM_cons, unescapeB_cons_ne b h hf.1, hh, ht]
        · have hu' : unreservedB b = false := by simpa using hu
          have hb' : b < 256 := hb b (by simp)
          have h1 := hexVal_hexU (b / 16) (by omega)
          have h2 := hexVal_hexU (b % 16) (by omega)
          have hp : cPct ≠ cSlash := by decide
          rw [escPath_cons_res b rest hu' hb', splitOn_cons_ne hp, splitOn_cons_ne h1.2.2.1,
            splitOn_cons_ne h2.2.2.1, hs, splitOn_cons_ne hd, hr]
          simp [List.mapM_cons, unescapeB_pct b h hb', hh, ht]

theorem isPrefixB_append (a b : Bytes) : isPrefixB a (a ++ b) = true := by
  induction a with
  | nil => simp [isPrefixB]
  | cons x xs ih => simp [isPrefixB, ih]

theorem dot_not_in_escPath (rid : Bytes) : cDot ∉ escPath rid := by
  intro h
  simp only [escPath, List.mem_map] at h
  obtain ⟨a, _, ha⟩ := h
  by_cases e : a = cDot
  · simp [e, cDot, cSlash] at ha
  · simp [e] at ha

theorem escPath_head (b : Nat) (rest : Bytes) (hd : b ≠ cDot) (hb : b < 256) :
    ∃ c tl, escPath (b :: rest) = c :: tl ∧ c ≠ cSlash := by
  by_cases hu : unreservedB b = true
  · exact ⟨b, escPath rest, escPath_cons_unres b rest hu hd, (unreserved_facts b hu).2⟩
  · have hu' : unreservedB b = false := by simpa using hu
    exact ⟨cPct, _, escPath_cons_res b rest hu' hb, by decide⟩

/-- **Round trip.** For every resource id (any bytes, incl. a query part and characters needing
    escaping) that is non-empty and does not start with a dot, and every prefix, the path printed
    by `RIDToPath` is mapped back to that resource id by `PathToRID`. -/
theorem pathToRID_ridToPathB (rid pref q : Bytes) (hne : rid ≠ []) (hhead : rid.head? ≠ some cDot)
    (hb : ∀ b ∈ rid, b < 256) :
    pathToRID (ridToPathB rid pref) q pref = if q.isEmpty then rid else rid ++ cQm :: q := by
  cases rid with
  | nil => exact absurd rfl hne
  | cons b rest =>
    have hd : b ≠ cDot := by intro e; apply hhead; simp [e]
    obtain ⟨c, tl, hc, hcs⟩ := escPath_head b rest hd (hb b (by simp))
    have hpath : ridToPathB (b :: rest) pref = pref ++ escPath (b :: rest) := by
      simp [ridToPathB, escPath]
    have hdrop : (pref ++ escPath (b :: rest)).drop pref.length = escPath (b :: rest) := by simp
    have hnodot : (escPath (b :: rest)).contains cDot = false := by
      have := dot_not_in_escPath (b :: rest)
      simpa using this
    have hlen : ((pref ++ escPath (b :: rest)).length == pref.length) = false := by
      rw [hc]; simp
    unfold pathToRID
    rw [hpath]
    simp only [hlen, isPrefixB_append, hdrop, hnodot, Bool.not_true, Bool.or_self, Bool.false_eq_true, if_false]
    have hm : stripSlash (escPath (b :: rest)) = escPath (b :: rest) := by
      rw [hc]
      unfold stripSlash
      split
      · rename_i r e; cases e; exact absurd rfl hcs
      · rfl
    rw [hm, mapM_unescape_escPath (b :: rest) hb]
    simp [joinWith_splitOn]

end Resgate.Enc
