import Resgate.Gw.Populate
import Resgate.Proofs.Close

namespace Resgate.Gw

/-- subscription object `u` of a connection -/
def st (c : Conn) (u : Nat) : Sub := tget c.objs u

/-- One child of the fold inside `populateF`. -/
def popStep (fuel : Nat) (acc : Conn × RSet × Bool) (ch : String × Nat × Nat) : Conn × RSet × Bool :=
  let res := populateF fuel acc.1 ch.2.1 acc.2.1 true
  (res.1, res.2.1, acc.2.2 && res.2.2)

/-- `c'` extends `c`: nothing delivered is forgotten, and the reference tables, error states and
    resource ids of all subscriptions are the same. -/
structure Ext (c c' : Conn) : Prop where
  refs : ∀ v, (st c' v).refs = (st c v).refs
  err : ∀ v, (st c' v).error = (st c v).error
  vis : ∀ v, (st c v).visited = true → (st c' v).visited = true

theorem Ext.refl (c : Conn) : Ext c c := ⟨fun _ => rfl, fun _ => rfl, fun _ h => h⟩

theorem Ext.trans {a b c : Conn} (h1 : Ext a b) (h2 : Ext b c) : Ext a c :=
  ⟨fun v => (h2.refs v).trans (h1.refs v), fun v => (h2.err v).trans (h1.err v),
   fun v h => h2.vis v (h1.vis v h)⟩

/-- delivered or delivered as an error placeholder -/
def Sub.covered (s : Sub) : Prop := s.visited = true ∨ s.error.isSome = true

theorem covered_ext {c c' : Conn} (h : Ext c c') (v : Nat) (hc : (st c v).covered) : (st c' v).covered := by
  rcases hc with hc | hc
  · exact Or.inl (h.vis v hc)
  · exact Or.inr (by rw [h.err v]; exact hc)

theorem mem_insertRef (x z : String × Nat × Nat) (l : List (String × Nat × Nat)) :
    z ∈ insertRef x l ↔ z = x ∨ z ∈ l := by
  induction l with
  | nil => simp [insertRef]
  | cons y ys ih =>
    unfold insertRef
    split
    · simp
    · simp only [List.mem_cons, ih]
      constructor
      · rintro (h | h | h)
        · exact Or.inr (Or.inl h)
        · exact Or.inl h
        · exact Or.inr (Or.inr h)
      · rintro (h | h | h)
        · exact Or.inr (Or.inl h)
        · exact Or.inl h
        · exact Or.inr (Or.inr h)

/-- The sorted table has exactly the references of the subscription. -/
theorem mem_sortedRefs (s : Sub) (z : String × Nat × Nat) : z ∈ sortedRefs s ↔ z ∈ s.refs := by
  unfold sortedRefs
  induction s.refs with
  | nil => simp
  | cons x xs ih => rw [List.foldr_cons, mem_insertRef, ih, List.mem_cons]

theorem sortedRefs_congr (s s' : Sub) (h : s'.refs = s.refs) : sortedRefs s' = sortedRefs s := by
  unfold sortedRefs; rw [h]

/-- Closure: every subscription newly placed in the set between `c` and `c'` has all its
    references covered in `c'`. -/
def Closed (c c' : Conn) : Prop :=
  ∀ v, (st c v).visited = false → (st c' v).visited = true →
    ∀ ch ∈ sortedRefs (st c v), (st c' ch.2.1).covered

structure Good (c c' : Conn) : Prop where
  ext : Ext c c'
  closed : Closed c c'

theorem Good.trans {a b c : Conn} (h1 : Good a b) (h2 : Good b c) : Good a c := by
  refine ⟨h1.ext.trans h2.ext, ?_⟩
  intro v hv hv' ch hch
  cases hb : (st b v).visited with
  | true => exact covered_ext h2.ext _ (h1.closed v hv hb ch hch)
  | false =>
    have := h2.closed v hb hv' ch (by rw [sortedRefs_congr _ _ (h1.ext.refs v)]; exact hch)
    exact this


/-- The fold over the children, given the statement for the recursive calls. -/
theorem fold_good (fuel : Nat)
    (ih : ∀ c uid r ind, (populateF fuel c uid r ind).2.2 = true →
      Good c (populateF fuel c uid r ind).1 ∧ (st (populateF fuel c uid r ind).1 uid).covered)
    (L : List (String × Nat × Nat)) (acc : Conn × RSet × Bool)
    (hok : (L.foldl (popStep fuel) acc).2.2 = true) :
    acc.2.2 = true ∧ Good acc.1 (L.foldl (popStep fuel) acc).1 ∧
      ∀ ch ∈ L, (st (L.foldl (popStep fuel) acc).1 ch.2.1).covered := by
  induction L generalizing acc with
  | nil =>
    exact ⟨hok, ⟨Ext.refl _, fun v hv hv' => by simp [List.foldl] at hv'; rw [hv] at hv'; cases hv'⟩,
      fun _ h => by cases h⟩
  | cons ch rest ihL =>
    rw [List.foldl_cons] at hok ⊢
    obtain ⟨hacc1, hgood1, hrest⟩ := ihL (popStep fuel acc ch) hok
    have hand : (acc.2.2 && (populateF fuel acc.1 ch.2.1 acc.2.1 true).2.2) = true := hacc1
    rw [Bool.and_eq_true] at hand
    obtain ⟨hg, hcov⟩ := ih acc.1 ch.2.1 acc.2.1 true hand.2
    have hg' : Good acc.1 (popStep fuel acc ch).1 := hg
    refine ⟨hand.1, hg'.trans hgood1, ?_⟩
    intro ch' hch'
    rcases List.mem_cons.mp hch' with rfl | hr
    · exact covered_ext hgood1.ext _ hcov
    · exact hrest ch' hr

theorem populateF_succ (fuel : Nat) (c : Conn) (uid : Nat) (r : RSet) (indirect : Bool) :
    populateF (fuel + 1) c uid r indirect =
      (let s0 := tget c.objs uid
       let c1 : Conn := if indirect then
           { c with objs := tset c.objs uid { s0 with indirectsent := s0.indirectsent + 1 } }
         else c
       let s := tget c1.objs uid
       if s.visited then (c1, r, true)
       else match s.error with
         | some e => (c1, { r with errors := sset r.errors s.rid e }, true)
         | none =>
           let r1 : RSet := match s.typ with
             | .collection => { r with colls := sset r.colls s.rid s.coll }
             | .model => { r with models := sset r.models s.rid s.model }
             | _ => r
           let c2 : Conn := { c1 with objs := tset c1.objs uid { s with state := .toSend } }
           (sortedRefs s).foldl (popStep fuel) (c2, r1, true)) := rfl


theorem st_set_self (c : Conn) (uid : Nat) (s' : Sub) :
    st { c with objs := tset c.objs uid s' } uid = s' := tget_tset_self _ _ _

theorem st_set_ne (c : Conn) (uid v : Nat) (s' : Sub) (h : v ≠ uid) :
    st { c with objs := tset c.objs uid s' } v = st c v := tget_tset_ne _ _ h

/-- Replacing one subscription object by one with the same references, error state and at least
    the same delivery mark extends the connection. -/
theorem ext_set (c : Conn) (uid : Nat) (s' : Sub)
    (hr : s'.refs = (st c uid).refs) (he : s'.error = (st c uid).error)
    (hv : (st c uid).visited = true → s'.visited = true) :
    Ext c { c with objs := tset c.objs uid s' } := by
  refine ⟨?_, ?_, ?_⟩
  · intro v; by_cases h : v = uid
    · subst h; rw [st_set_self]; exact hr
    · rw [st_set_ne _ _ _ _ h]
  · intro v; by_cases h : v = uid
    · subst h; rw [st_set_self]; exact he
    · rw [st_set_ne _ _ _ _ h]
  · intro v hvis; by_cases h : v = uid
    · subst h; rw [st_set_self]; exact hv hvis
    · rw [st_set_ne _ _ _ _ h]; exact hvis

theorem good_of_same_vis {c c' : Conn} (h : Ext c c') (hs : ∀ v, (st c' v).visited = (st c v).visited) :
    Good c c' :=
  ⟨h, fun v hv hv' => by rw [hs v, hv] at hv'; cases hv'⟩

/-! ### the pieces of one call -/

def bump (c : Conn) (uid : Nat) (ind : Bool) : Conn :=
  let s0 := tget c.objs uid
  if ind then { c with objs := tset c.objs uid { s0 with indirectsent := s0.indirectsent + 1 } } else c

def markRoot (c : Conn) (uid : Nat) : Conn :=
  let s := tget c.objs uid
  { c with objs := tset c.objs uid { s with state := .toSend } }

def rootSet (s : Sub) (r : RSet) : RSet :=
  match s.typ with
  | .collection => { r with colls := sset r.colls s.rid s.coll }
  | .model => { r with models := sset r.models s.rid s.model }
  | _ => r

def populateBody (fuel : Nat) (c1 : Conn) (uid : Nat) (r : RSet) : Conn × RSet × Bool :=
  if (st c1 uid).visited then (c1, r, true)
  else match (st c1 uid).error with
    | some e => (c1, { r with errors := sset r.errors (st c1 uid).rid e }, true)
    | none => (sortedRefs (st c1 uid)).foldl (popStep fuel) (markRoot c1 uid, rootSet (st c1 uid) r, true)

theorem populateF_succ' (fuel : Nat) (c : Conn) (uid : Nat) (r : RSet) (ind : Bool) :
    populateF (fuel + 1) c uid r ind = populateBody fuel (bump c uid ind) uid r := by
  rw [populateF_succ]
  unfold populateBody bump markRoot rootSet st
  cases ind <;> rfl

theorem bump_good (c : Conn) (uid : Nat) (ind : Bool) : Good c (bump c uid ind) := by
  unfold bump
  cases ind with
  | false => exact good_of_same_vis (Ext.refl c) (fun _ => rfl)
  | true =>
    simp only [if_true]
    refine good_of_same_vis (ext_set c uid _ rfl rfl (fun h => h)) ?_
    intro v; by_cases h : v = uid
    · subst h; rw [st_set_self]; rfl
    · rw [st_set_ne _ _ _ _ h]

theorem markRoot_spec (c : Conn) (uid : Nat) (he : (st c uid).error = none) :
    Ext c (markRoot c uid) ∧ (st (markRoot c uid) uid).visited = true ∧
    ∀ v, v ≠ uid → st (markRoot c uid) v = st c v := by
  unfold markRoot
  have herr2 : (let s := tget c.objs uid; ({ s with state := SState.toSend } : Sub)).error = (st c uid).error := by
    have hs : (tget c.objs uid).error = none := he
    show _ = (tget c.objs uid).error
    rw [hs]
    unfold Sub.error at hs ⊢
    by_cases hd : (tget c.objs uid).state = .disposed
    · simp [hd] at hs
    · simp [hd] at hs; simp [hs]
  refine ⟨ext_set c uid _ rfl herr2 (fun _ => rfl), ?_, ?_⟩
  · rw [st_set_self]; rfl
  · intro v h; exact st_set_ne _ _ _ _ h

theorem body_good (fuel : Nat)
    (ih : ∀ c uid r ind, (populateF fuel c uid r ind).2.2 = true →
      Good c (populateF fuel c uid r ind).1 ∧ (st (populateF fuel c uid r ind).1 uid).covered)
    (c1 : Conn) (uid : Nat) (r : RSet) (hok : (populateBody fuel c1 uid r).2.2 = true) :
    Good c1 (populateBody fuel c1 uid r).1 ∧ (st (populateBody fuel c1 uid r).1 uid).covered := by
  cases hv : (st c1 uid).visited with
  | true =>
    have key : populateBody fuel c1 uid r = (c1, r, true) := by unfold populateBody; simp [hv]
    rw [key]
    exact ⟨good_of_same_vis (Ext.refl c1) (fun _ => rfl), Or.inl hv⟩
  | false =>
    cases he : (st c1 uid).error with
    | some e =>
      have key : populateBody fuel c1 uid r = (c1, { r with errors := sset r.errors (st c1 uid).rid e }, true) := by
        unfold populateBody; simp [hv, he]
      rw [key]
      exact ⟨good_of_same_vis (Ext.refl c1) (fun _ => rfl), Or.inr (by rw [he]; rfl)⟩
    | none =>
      have key : populateBody fuel c1 uid r =
          (sortedRefs (st c1 uid)).foldl (popStep fuel) (markRoot c1 uid, rootSet (st c1 uid) r, true) := by
        unfold populateBody; simp [hv, he]
      rw [key] at hok ⊢
      obtain ⟨hext2, hroot2, hsame2⟩ := markRoot_spec c1 uid he
      obtain ⟨_, hgood, hch⟩ := fold_good fuel ih (sortedRefs (st c1 uid)) (markRoot c1 uid, _, true) hok
      refine ⟨⟨hext2.trans hgood.ext, ?_⟩, Or.inl (hgood.ext.vis uid hroot2)⟩
      intro v hvc hvc' ch hchm
      by_cases hvu : v = uid
      · subst hvu; exact hch ch hchm
      · have h2 : (st (markRoot c1 uid) v).visited = false := by rw [hsame2 v hvu]; exact hvc
        apply hgood.closed v h2 hvc' ch
        rw [hsame2 v hvu]; exact hchm

/-- **The collection is closed**: whenever `populateF` does not run out of fuel, the connection it
    returns extends the one it started from, the root is covered, and every subscription newly
    placed in the resource set has all of its references covered — already delivered, placed in
    this same set, or delivered in it as an error placeholder. For every reference graph: shared
    children, diamonds, cycles, self references, error children. -/
theorem populateF_good (fuel : Nat) : ∀ (c : Conn) (uid : Nat) (r : RSet) (ind : Bool),
    (populateF fuel c uid r ind).2.2 = true →
      Good c (populateF fuel c uid r ind).1 ∧ (st (populateF fuel c uid r ind).1 uid).covered := by
  induction fuel with
  | zero => intro c uid r ind h; simp [populateF] at h
  | succ fuel ih =>
    intro c uid r ind hok
    rw [populateF_succ'] at hok ⊢
    obtain ⟨hg, hcov⟩ := body_good fuel ih (bump c uid ind) uid r hok
    exact ⟨(bump_good c uid ind).trans hg, hcov⟩

end Resgate.Gw
