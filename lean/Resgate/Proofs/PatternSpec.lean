import Resgate.Model.Pattern
import Resgate.Proofs.Split
import Resgate.Proofs.Path

/-
`match_spec`: for a valid pattern and a name whose tokens are non-empty, the byte-level loop of
`ResourcePattern.Match` computes token-wise NATS wildcard matching (`tokMatch`).
-/

namespace Resgate
open Resgate.Enc (joinWith_splitOn)

/-- What the loop does after consuming one byte of both strings outside a `*` scan. -/
def mNext (ps ss : Bytes) : Option Bool :=
  if ss.isEmpty then some ps.isEmpty else if ps.isEmpty then some false else matchAux false ps ss

/-- … after consuming one non-dot byte of the name inside a `*` scan. -/
def mStarNext (ps ss : Bytes) : Option Bool :=
  if ss.isEmpty then some ps.isEmpty else matchAux true ps ss

/-- … when the `*` scan reaches a dot. -/
def mDot (ps ss : Bytes) : Option Bool :=
  match ps with
  | [] => some false
  | _ :: ps' => mNext ps' ss

theorem matchAux_lit (pc : Nat) (ps : Bytes) (sc : Nat) (ss : Bytes) (h1 : pc ≠ cGt) (h2 : pc ≠ cStar) :
    matchAux false (pc :: ps) (sc :: ss) = if sc ≠ pc then some false else mNext ps ss := by
  unfold matchAux; simp [h1, h2, mNext]

theorem matchAux_gt (ps : Bytes) (sc : Nat) (ss : Bytes) : matchAux false (cGt :: ps) (sc :: ss) = some true := by
  unfold matchAux; simp

theorem matchAux_star (ps : Bytes) (sc : Nat) (ss : Bytes) :
    matchAux false (cStar :: ps) (sc :: ss) = if sc = cDot then mDot ps ss else mStarNext ps ss := by
  unfold matchAux
  have : cStar ≠ cGt := by decide
  simp only [this, if_false, if_true]
  cases ps <;> simp [mDot, mNext, mStarNext]

theorem matchAux_scan (ps : Bytes) (sc : Nat) (ss : Bytes) :
    matchAux true ps (sc :: ss) = if sc = cDot then mDot ps ss else mStarNext ps ss := by
  unfold matchAux
  cases ps <;> simp [mDot, mNext, mStarNext]

/-- A tail is what follows a token: nothing, or a dot and more. -/
def IsTail (t : Bytes) : Prop := t = [] ∨ ∃ r, t = cDot :: r

theorem mNext_cons_cons (pc : Nat) (ps : Bytes) (sc : Nat) (ss : Bytes) :
    mNext (pc :: ps) (sc :: ss) = matchAux false (pc :: ps) (sc :: ss) := by
  simp [mNext]

/-- Literal bytes are compared one by one; a literal token matches exactly itself. -/
theorem lit_next (t : Bytes) : ∀ (st tp ts : Bytes),
    (∀ c ∈ t, c ≠ cGt ∧ c ≠ cStar ∧ c ≠ cDot) → cDot ∉ st → IsTail tp → IsTail ts →
    mNext (t ++ tp) (st ++ ts) = if t = st then mNext tp ts else some false := by
  induction t with
  | nil =>
    intro st tp ts _ hst htp hts
    cases st with
    | nil => simp
    | cons sc st' =>
      have hsc : sc ≠ cDot := by intro e; apply hst; simp [e]
      rcases htp with rfl | ⟨P', rfl⟩
      · simp [mNext]
      · have h1 : cDot ≠ cGt := by decide
        have h2 : cDot ≠ cStar := by decide
        simp only [List.nil_append, List.cons_append, mNext_cons_cons, matchAux_lit cDot P' sc _ h1 h2]
        simp [hsc]
  | cons pc t' ih =>
    intro st tp ts ht hst htp hts
    have hpc := ht pc (by simp)
    cases st with
    | nil =>
      rcases hts with rfl | ⟨S', rfl⟩
      · simp [mNext]
      · simp only [List.nil_append, List.cons_append, mNext_cons_cons, matchAux_lit pc _ cDot S' hpc.1 hpc.2.1]
        have : cDot ≠ pc := fun e => hpc.2.2 e.symm
        simp [this]
    | cons sc st' =>
      simp only [List.cons_append, mNext_cons_cons, matchAux_lit pc _ sc _ hpc.1 hpc.2.1]
      by_cases e : sc = pc
      · subst e
        have hst' : cDot ∉ st' := by intro h; apply hst; simp [h]
        rw [ih st' tp ts (fun c hc => ht c (by simp [hc])) hst' htp hts]
        simp
      · have : ¬ (pc :: t' = sc :: st') := by intro h; injection h with h1 _; exact e h1.symm
        simp [e, this]

theorem mNext_dot_dot (ps ss : Bytes) : mNext (cDot :: ps) (cDot :: ss) = mNext ps ss := by
  have h1 : cDot ≠ cGt := by decide
  have h2 : cDot ≠ cStar := by decide
  rw [mNext_cons_cons, matchAux_lit cDot ps cDot ss h1 h2]; simp

/-- A `*` consumes the rest of the current token of the name, whatever it is. -/
theorem star_next (st : Bytes) : ∀ (tp ts : Bytes), cDot ∉ st → IsTail tp → IsTail ts →
    mStarNext tp (st ++ ts) = mNext tp ts := by
  induction st with
  | nil =>
    intro tp ts _ htp hts
    rcases hts with rfl | ⟨S', rfl⟩
    · simp [mStarNext, mNext]
    · simp only [List.nil_append, mStarNext, List.isEmpty_cons, Bool.false_eq_true, if_false, matchAux_scan, if_true]
      rcases htp with rfl | ⟨P', rfl⟩
      · simp [mDot, mNext]
      · simp [mDot, mNext_dot_dot]
  | cons sc st' ih =>
    intro tp ts hst htp hts
    have hsc : sc ≠ cDot := by intro e; apply hst; simp [e]
    have hst' : cDot ∉ st' := by intro h; apply hst; simp [h]
    simp only [List.cons_append, mStarNext, List.isEmpty_cons, Bool.false_eq_true, if_false, matchAux_scan, hsc]
    exact ih tp ts hst' htp hts

def tailOf (ts : List Bytes) : Bytes :=
  match ts with
  | [] => []
  | _ :: _ => cDot :: joinWith cDot ts

theorem isTail_tailOf (ts : List Bytes) : IsTail (tailOf ts) := by
  cases ts with
  | nil => exact Or.inl rfl
  | cons t r => exact Or.inr ⟨_, rfl⟩

theorem joinWith_cons (t : Bytes) (ts : List Bytes) : joinWith cDot (t :: ts) = t ++ tailOf ts := by
  cases ts <;> simp [joinWith, tailOf]

theorem joinWith_ne_nil (ts : List Bytes) (hne : ts ≠ []) (h : ∀ t ∈ ts, t ≠ []) : joinWith cDot ts ≠ [] := by
  cases ts with
  | nil => exact absurd rfl hne
  | cons t r =>
    rw [joinWith_cons]
    have := h t (by simp)
    cases t with
    | nil => exact absurd rfl this
    | cons c cs => simp

theorem mNext_tails (a b : List Bytes) (ha : ∀ t ∈ a, t ≠ []) (hb : ∀ t ∈ b, t ≠ []) :
    mNext (tailOf a) (tailOf b) = mNext (joinWith cDot a) (joinWith cDot b) := by
  cases a with
  | nil =>
    cases b with
    | nil => rfl
    | cons t r =>
      have := joinWith_ne_nil (t :: r) (by simp) hb
      cases hj : joinWith cDot (t :: r) with
      | nil => exact absurd hj this
      | cons c cs => simp [tailOf, mNext, joinWith]
  | cons t r =>
    cases b with
    | nil =>
      have := joinWith_ne_nil (t :: r) (by simp) ha
      cases hj : joinWith cDot (t :: r) with
      | nil => exact absurd hj this
      | cons c cs => simp [tailOf, mNext, joinWith]
    | cons t2 r2 => simp only [tailOf, mNext_dot_dot]

def LitTok (t : Bytes) : Prop :=
  ∀ c ∈ t, 33 ≤ c ∧ c ≤ 126 ∧ c ≠ cQm ∧ c ≠ cStar ∧ c ≠ cGt ∧ c ≠ cDot

theorem tokOK_cases {last : Bool} {t : Bytes} (h : tokOK last t = true) :
    t ≠ [] ∧ (t = [cStar] ∨ (t = [cGt] ∧ last = true) ∨ LitTok t) := by
  simp only [tokOK, Bool.and_eq_true, Bool.or_eq_true, decide_eq_true_eq, Bool.not_eq_true',
    List.all_eq_true, bne_iff_ne, ne_eq] at h
  refine ⟨by intro e; simp [e] at h, ?_⟩
  rcases h.2 with (h1 | h1) | h1
  · exact Or.inl h1
  · exact Or.inr (Or.inl h1)
  · exact Or.inr (Or.inr (fun c hc => by have := h1 c hc; omega))

theorem patTokensOK_cons {t : Bytes} {ts : List Bytes} (h : patTokensOK (t :: ts) = true) :
    tokOK ts.isEmpty t = true ∧ (ts = [] ∨ patTokensOK ts = true) := by
  cases ts with
  | nil => simp [patTokensOK] at h; simp [h]
  | cons t2 r => simp [patTokensOK] at h; simp [h]

theorem litTok_not_wild {t : Bytes} (hne : t ≠ []) (h : LitTok t) : t ≠ [cGt] ∧ t ≠ [cStar] := by
  constructor
  · intro e; subst e; exact (h cGt (by simp)).2.2.2.2.1 rfl
  · intro e; subst e; exact (h cStar (by simp)).2.2.2.1 rfl

theorem patTokensOK_ne_nil (ts : List Bytes) (h : patTokensOK ts = true) : ∀ t ∈ ts, t ≠ [] := by
  induction ts with
  | nil => intro t ht; cases ht
  | cons t r ih =>
    obtain ⟨h1, h2⟩ := patTokensOK_cons h
    intro x hx
    rcases List.mem_cons.mp hx with rfl | hx
    · exact (tokOK_cases h1).1
    · rcases h2 with rfl | h2
      · cases hx
      · exact ih h2 x hx

/-- **The loop computes token-wise matching** (from any token boundary). -/
theorem mNext_tokMatch (pts : List Bytes) : ∀ (sts : List Bytes),
    (pts = [] ∨ patTokensOK pts = true) → (∀ t ∈ sts, t ≠ [] ∧ cDot ∉ t) →
    mNext (joinWith cDot pts) (joinWith cDot sts) = some (tokMatch pts sts) := by
  induction pts with
  | nil =>
    intro sts _ hs
    cases sts with
    | nil => rfl
    | cons st r =>
      have := joinWith_ne_nil (st :: r) (by simp) (fun t ht => (hs t ht).1)
      cases hj : joinWith cDot (st :: r) with
      | nil => exact absurd hj this
      | cons c cs => simp [joinWith, mNext, tokMatch]
  | cons pt pts' ih =>
    intro sts hp hs
    have hp' : patTokensOK (pt :: pts') = true := by
      rcases hp with h | h
      · cases h
      · exact h
    obtain ⟨htok, hrest⟩ := patTokensOK_cons hp'
    obtain ⟨hptne, hkind⟩ := tokOK_cases htok
    have hpne : ∀ t ∈ pts', t ≠ [] := by
      intro t ht
      rcases hrest with rfl | h
      · cases ht
      · exact patTokensOK_ne_nil pts' h t ht
    cases sts with
    | nil =>
      have := joinWith_ne_nil (pt :: pts') (by simp) (by
        intro t ht
        rcases List.mem_cons.mp ht with rfl | h
        · exact hptne
        · exact hpne t h)
      cases hj : joinWith cDot (pt :: pts') with
      | nil => exact absurd hj this
      | cons c cs => simp [joinWith, mNext, tokMatch]
    | cons st sts' =>
      have hst := hs st (by simp)
      have hs' : ∀ t ∈ sts', t ≠ [] ∧ cDot ∉ t := fun t ht => hs t (by simp [ht])
      rw [joinWith_cons pt pts', joinWith_cons st sts']
      have htl := mNext_tails pts' sts' hpne (fun t ht => (hs' t ht).1)
      have ihr := ih sts' hrest hs'
      rcases hkind with hstar | ⟨hgt, hlast⟩ | hlit
      · -- `*`
        subst hstar
        cases st with
        | nil => exact absurd rfl hst.1
        | cons sc st' =>
          have hsc : sc ≠ cDot := by intro e; apply hst.2; simp [e]
          have hst' : cDot ∉ st' := by intro h; apply hst.2; simp [h]
          have hne : ([cStar] : Bytes) ≠ [cGt] := by decide
          simp only [List.cons_append, List.nil_append, mNext_cons_cons, matchAux_star, hsc, if_false]
          rw [star_next st' _ _ hst' (isTail_tailOf _) (isTail_tailOf _), htl, ihr]
          simp [tokMatch, hne]
      · -- `>` (last token)
        subst hgt
        cases st with
        | nil => exact absurd rfl hst.1
        | cons sc st' =>
          simp only [List.cons_append, List.nil_append, mNext_cons_cons, matchAux_gt]
          simp [tokMatch]
      · -- literal token
        have hnw := litTok_not_wild hptne hlit
        rw [lit_next pt st _ _ (fun c hc => by have := hlit c hc; exact ⟨this.2.2.2.2.1, this.2.2.2.1, this.2.2.2.2.2⟩)
          hst.2 (isTail_tailOf _) (isTail_tailOf _), htl, ihr]
        by_cases e : pt = st
        · subst e; simp [tokMatch, hnw.1, hnw.2]
        · simp [tokMatch, hnw.1, hnw.2, e]

/-! ### Parsing a pattern made of valid tokens -/

def isWildTok (t : Bytes) : Bool := t == [cStar] || t == [cGt]

theorem parse_lit_step (c : Nat) (start hw : Bool) (cs : Bytes)
    (h : 33 ≤ c ∧ c ≤ 126 ∧ c ≠ cQm ∧ c ≠ cStar ∧ c ≠ cGt ∧ c ≠ cDot) :
    parsePatAux start false hw (c :: cs) = parsePatAux false false hw cs := by
  obtain ⟨h1, h2, h3, h4, h5, h6⟩ := h
  conv => lhs; unfold parsePatAux
  have a1 : ¬ c < 33 := by omega
  have a2 : ¬ c > 126 := by omega
  simp [h6, h3, h4, h5, a1, a2]

theorem parse_lit (t : Bytes) (hw : Bool) (rest : Bytes) (h : LitTok t) :
    parsePatAux false false hw (t ++ rest) = parsePatAux false false hw rest := by
  induction t with
  | nil => rfl
  | cons c t' ih =>
    rw [List.cons_append, parse_lit_step c false hw _ (h c (by simp))]
    exact ih (fun x hx => h x (by simp [hx]))

theorem parse_dot (hw : Bool) (cs : Bytes) (alone : Bool) :
    parsePatAux false alone hw (cDot :: cs) = parsePatAux true false hw cs := by
  conv => lhs; unfold parsePatAux
  simp

theorem parse_tokens (pts : List Bytes) : ∀ (hw : Bool), patTokensOK pts = true →
    parsePatAux true false hw (joinWith cDot pts) = some (hw || pts.any isWildTok) := by
  induction pts with
  | nil => intro hw h; simp [patTokensOK] at h
  | cons pt pts' ih =>
    intro hw h
    obtain ⟨htok, hrest⟩ := patTokensOK_cons h
    obtain ⟨hne, hkind⟩ := tokOK_cases htok
    rw [joinWith_cons]
    rcases hkind with hstar | ⟨hgt, hlast⟩ | hlit
    · subst hstar
      have e1 : parsePatAux true false hw (cStar :: tailOf pts') = parsePatAux false true true (tailOf pts') := by
        conv => lhs; unfold parsePatAux
        simp [cStar, cDot, cQm, cGt]
      simp only [List.cons_append, List.nil_append, e1]
      cases pts' with
      | nil => simp [tailOf, parsePatAux, isWildTok]
      | cons t2 r =>
        rcases hrest with h0 | h0
        · cases h0
        · simp only [tailOf, parse_dot, ih true h0]
          simp [isWildTok]
    · subst hgt
      have : pts' = [] := by simpa using hlast
      subst this
      simp only [tailOf, List.append_nil]
      unfold parsePatAux
      simp [cGt, cDot, cQm, parsePatAux, isWildTok]
    · have hnw := litTok_not_wild hne hlit
      have hnwb : isWildTok pt = false := by simp [isWildTok, hnw.1, hnw.2]
      cases pt with
      | nil => exact absurd rfl hne
      | cons c t' =>
        rw [List.cons_append, parse_lit_step c true hw _ (hlit c (by simp)),
          parse_lit t' hw _ (fun x hx => hlit x (by simp [hx]))]
        cases pts' with
        | nil => simp [tailOf, parsePatAux, hnwb]
        | cons t2 r =>
          rcases hrest with h0 | h0
          · cases h0
          · simp only [tailOf, parse_dot, ih hw h0]
            simp [hnwb]

/-! ### Assembly -/

theorem splitOn_tokens_no_sep (sep : Nat) (s : Bytes) : ∀ t ∈ splitOn sep s, sep ∉ t := by
  induction s with
  | nil => intro t ht; simp at ht; subst ht; simp
  | cons c cs ih =>
    have hne := splitOn_ne_nil sep cs
    cases hs : splitOn sep cs with
    | nil => exact absurd hs hne
    | cons h tl =>
      rw [hs] at ih
      by_cases hc : c = sep
      · subst hc
        rw [splitOn_cons_sep, hs]
        intro t ht
        rcases List.mem_cons.mp ht with rfl | ht
        · simp
        · exact ih t ht
      · rw [splitOn_cons_ne hc, hs]
        intro t ht
        simp only [List.headD_cons, List.tail_cons] at ht
        rcases List.mem_cons.mp ht with rfl | ht
        · intro hm
          rcases List.mem_cons.mp hm with e | hm
          · exact hc e.symm
          · exact ih h (by simp) hm
        · exact ih t (by simp [ht])

theorem splitOn_joinWith (ts : List Bytes) (hne : ts ≠ []) (h : ∀ t ∈ ts, cDot ∉ t) :
    splitOn cDot (joinWith cDot ts) = ts := by
  induction ts with
  | nil => exact absurd rfl hne
  | cons t r ih =>
    cases r with
    | nil => simp [joinWith, splitOn_no_sep (h t (by simp))]
    | cons t2 r2 =>
      have : joinWith cDot (t :: t2 :: r2) = t ++ cDot :: joinWith cDot (t2 :: r2) := by simp [joinWith]
      rw [this, splitOn_append_sep, splitOn_no_sep (h t (by simp)), ih (by simp) (fun x hx => h x (by simp [hx]))]
      rfl

theorem tokMatch_nil_left (sts : List Bytes) : tokMatch [] sts = true → sts = [] := by
  cases sts <;> simp [tokMatch]

theorem tailOf_length (a : List Bytes) : (tailOf a).length = if a = [] then 0 else 1 + (joinWith cDot a).length := by
  cases a <;> simp [tailOf]; omega

/-- A matching name is at least as long as the pattern (the early exit of `Match`). -/
theorem tokMatch_len (pts : List Bytes) : ∀ (sts : List Bytes),
    (pts = [] ∨ patTokensOK pts = true) → (∀ t ∈ sts, t ≠ []) → tokMatch pts sts = true →
    (joinWith cDot pts).length ≤ (joinWith cDot sts).length := by
  induction pts with
  | nil => intro sts _ _ h; rw [tokMatch_nil_left sts h]; simp
  | cons pt pts' ih =>
    intro sts hp hs hm
    have hp' : patTokensOK (pt :: pts') = true := by
      rcases hp with h | h
      · cases h
      · exact h
    obtain ⟨htok, hrest⟩ := patTokensOK_cons hp'
    obtain ⟨hptne, hkind⟩ := tokOK_cases htok
    cases sts with
    | nil => simp [tokMatch] at hm
    | cons st sts' =>
      have hstne := hs st (by simp)
      have hs' : ∀ t ∈ sts', t ≠ [] := fun t ht => hs t (by simp [ht])
      have hstlen : 1 ≤ st.length := by
        cases st with
        | nil => exact absurd rfl hstne
        | cons c cs => simp
      rw [joinWith_cons, joinWith_cons, List.length_append, List.length_append]
      have tails : tokMatch pts' sts' = true → (tailOf pts').length ≤ (tailOf sts').length := by
        intro h
        have := ih sts' hrest hs' h
        rw [tailOf_length, tailOf_length]
        by_cases ea : pts' = []
        · simp [ea]
        · have eb : sts' ≠ [] := by
            intro e; subst e
            cases pts' with
            | nil => exact ea rfl
            | cons x y => simp [tokMatch] at h
          simp [ea, eb]; omega
      rcases hkind with hstar | ⟨hgt, hlast⟩ | hlit
      · subst hstar
        have hne : ([cStar] : Bytes) ≠ [cGt] := by decide
        simp only [tokMatch, hne, if_false, if_true] at hm
        have := tails hm
        simp; omega
      · subst hgt
        have : pts' = [] := by simpa using hlast
        subst this
        simp [tailOf]; omega
      · have hnw := litTok_not_wild hptne hlit
        simp only [tokMatch, hnw.1, hnw.2, if_false, Bool.and_eq_true, decide_eq_true_eq] at hm
        have := tails hm.2
        rw [hm.1]; omega

theorem tokMatch_no_wild (pts : List Bytes) : ∀ (sts : List Bytes), pts.any isWildTok = false →
    tokMatch pts sts = decide (pts = sts) := by
  induction pts with
  | nil => intro sts _; cases sts <;> simp [tokMatch]
  | cons pt pts' ih =>
    intro sts h
    simp only [List.any_cons, Bool.or_eq_false_iff] at h
    have h1 : pt ≠ [cGt] ∧ pt ≠ [cStar] := by
      have := h.1
      simp only [isWildTok, Bool.or_eq_false_iff, beq_eq_false_iff_ne, ne_eq] at this
      exact ⟨this.2, this.1⟩
    cases sts with
    | nil => simp [tokMatch]
    | cons st sts' =>
      simp only [tokMatch, h1.1, h1.2, if_false, ih sts' h.2]
      by_cases e1 : pt = st <;> by_cases e2 : pts' = sts' <;> simp [e1, e2]

theorem joinWith_getLast (pts : List Bytes) (h : patTokensOK pts = true) :
    (joinWith cDot pts).getLast? ≠ some cDot := by
  induction pts with
  | nil => simp [patTokensOK] at h
  | cons pt pts' ih =>
    obtain ⟨htok, hrest⟩ := patTokensOK_cons h
    obtain ⟨hne, hkind⟩ := tokOK_cases htok
    cases pts' with
    | nil =>
      simp only [joinWith]
      rcases hkind with rfl | ⟨rfl, _⟩ | hlit
      · decide
      · decide
      · intro hl
        have hm : cDot ∈ pt := List.mem_of_getLast? hl
        exact (hlit cDot hm).2.2.2.2.2 rfl
    | cons t2 r =>
      rcases hrest with h0 | h0
      · cases h0
      · have := ih h0
        have hj := joinWith_ne_nil (t2 :: r) (by simp) (patTokensOK_ne_nil _ h0)
        have e : joinWith cDot (pt :: t2 :: r) = pt ++ cDot :: joinWith cDot (t2 :: r) := by simp [joinWith]
        rw [e, List.getLast?_append]
        cases hj2 : joinWith cDot (t2 :: r) with
        | nil => exact absurd hj2 hj
        | cons c cs =>
          rw [hj2] at this
          simp only [List.getLast?_cons_cons]
          intro hl
          apply this
          cases hg : (c :: cs).getLast? with
          | none => simp at hg
          | some x => simp [hg] at hl; rw [hl]

theorem patTokensOK_no_dot (ts : List Bytes) (h : patTokensOK ts = true) : ∀ t ∈ ts, cDot ∉ t := by
  induction ts with
  | nil => intro t ht; cases ht
  | cons t r ih =>
    obtain ⟨h1, h2⟩ := patTokensOK_cons h
    intro x hx
    rcases List.mem_cons.mp hx with rfl | hx
    · rcases (tokOK_cases h1).2 with rfl | ⟨rfl, _⟩ | hlit
      · decide
      · decide
      · intro hm; exact (hlit cDot hm).2.2.2.2.2 rfl
    · rcases h2 with rfl | h2
      · cases hx
      · exact ih h2 x hx

theorem parsePattern_tokens (pts : List Bytes) (h : patTokensOK pts = true) :
    parsePattern (joinWith cDot pts) = ⟨joinWith cDot pts, pts.any isWildTok⟩ := by
  have hne : pts ≠ [] := by intro e; subst e; simp [patTokensOK] at h
  have hj := joinWith_ne_nil pts hne (patTokensOK_ne_nil pts h)
  have hl := joinWith_getLast pts h
  unfold parsePattern
  have e1 : (joinWith cDot pts).isEmpty = false := by
    cases hh : joinWith cDot pts with
    | nil => exact absurd hh hj
    | cons c cs => rfl
  simp only [e1, Bool.false_or, decide_eq_true_eq, hl, if_false, parse_tokens pts false h, Bool.false_or]

/-- **match_spec** on token lists: a pattern made of valid tokens, parsed and matched by the
    byte-level code against a name made of non-empty dot-free tokens, decides token-wise wildcard
    matching. -/
theorem match_spec_tokens (pts sts : List Bytes) (hp : patTokensOK pts = true) (hsne : sts ≠ [])
    (hs : ∀ t ∈ sts, t ≠ [] ∧ cDot ∉ t) :
    (parsePattern (joinWith cDot pts)).matches (joinWith cDot sts) = tokMatch pts sts := by
  have hpne : pts ≠ [] := by intro e; subst e; simp [patTokensOK] at hp
  have hpj := joinWith_ne_nil pts hpne (patTokensOK_ne_nil pts hp)
  have hsj := joinWith_ne_nil sts hsne (fun t ht => (hs t ht).1)
  rw [parsePattern_tokens pts hp]
  unfold Pattern.matches Pattern.matches?
  have e1 : (joinWith cDot pts).isEmpty = false := by
    cases hh : joinWith cDot pts with
    | nil => exact absurd hh hpj
    | cons c cs => rfl
  simp only [e1, Bool.false_eq_true, if_false]
  cases hw : pts.any isWildTok with
  | false =>
    simp only [Bool.not_false, if_true, Option.getD_some]
    rw [tokMatch_no_wild pts sts hw]
    -- literal pattern: string equality is token-list equality
    have hpd : ∀ t ∈ pts, cDot ∉ t := patTokensOK_no_dot pts hp
    by_cases e : pts = sts
    · subst e; simp
    · have : joinWith cDot sts ≠ joinWith cDot pts := by
        intro h
        apply e
        have h1 := splitOn_joinWith pts hpne hpd
        have h2 := splitOn_joinWith sts hsne (fun t ht => (hs t ht).2)
        rw [← h1, ← h2, h]
      simp [e, this]
  | true =>
    simp only [Bool.not_true, Bool.false_eq_true, if_false]
    have hmain := mNext_tokMatch pts sts (Or.inr hp) hs
    split
    · rename_i hlen
      cases hm : tokMatch pts sts with
      | false => rfl
      | true =>
        have := tokMatch_len pts sts (Or.inr hp) (fun t ht => (hs t ht).1) hm
        omega
    · cases hh : joinWith cDot pts with
      | nil => exact absurd hh hpj
      | cons pc ps =>
        cases hh2 : joinWith cDot sts with
        | nil => exact absurd hh2 hsj
        | cons sc ss =>
          rw [hh, hh2, mNext_cons_cons] at hmain
          rw [hmain]; rfl

/-- **match_spec**: for every pattern whose dot-separated tokens are valid and every name whose
    tokens are non-empty, `ParseResourcePattern(p).Match(s)` is token-wise wildcard matching. -/
theorem match_spec (p s : Bytes) (hp : patTokensOK (splitOn cDot p) = true)
    (hs : ∀ t ∈ splitOn cDot s, t ≠ []) :
    (parsePattern p).matches s = tokMatch (splitOn cDot p) (splitOn cDot s) := by
  have h := match_spec_tokens (splitOn cDot p) (splitOn cDot s) hp (splitOn_ne_nil cDot s)
    (fun t ht => ⟨hs t ht, splitOn_tokens_no_sep cDot s t ht⟩)
  rwa [joinWith_splitOn, joinWith_splitOn] at h

/-- A pattern made of valid tokens is accepted by `ParseResourcePattern`. -/
theorem parse_valid_of_tokens (p : Bytes) (hp : patTokensOK (splitOn cDot p) = true) :
    (parsePattern p).isValid = true := by
  have h := parsePattern_tokens (splitOn cDot p) hp
  rw [joinWith_splitOn] at h
  rw [h]
  have hne := joinWith_ne_nil (splitOn cDot p) (splitOn_ne_nil cDot p) (patTokensOK_ne_nil _ hp)
  rw [joinWith_splitOn] at hne
  cases p with
  | nil => exact absurd rfl hne
  | cons c cs => rfl

end Resgate
