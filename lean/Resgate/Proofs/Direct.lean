import Resgate.Gw.Pure

/-
The direct-subscription counter of one (connection, resource id) as a machine whose steps are the
gateway model's own decision functions (`addDirect`, `unsubVerdict`): it never leaves `0..limit`,
and equals "successful subscriptions minus successfully unsubscribed counts since the last
unsubscribe event".
-/

namespace Resgate.Direct
open Resgate.Gw

inductive Op where
  | subscribe                              -- subscribe / resource response that takes a direct count
  | unsubscribe (bad : Bool) (count : Int) -- client request
  | revoke                                 -- unsubscribe event (denial, delete): all direct counts go
  deriving Repr

inductive Out where
  | ok | limitExceeded | invalidParams | noSubscription | unsubscribeEvent
  deriving Repr, DecidableEq

def step (limit : Int) (d : Int) : Op → Int × Out
  | .subscribe =>
    match addDirect limit d with
    | some d' => (d', .ok)
    | none => (d, .limitExceeded)
  | .unsubscribe bad c =>
    match unsubVerdict bad c (some d) with
    | .ok => (d - c, .ok)
    | .invalidParams => (d, .invalidParams)
    | .noSubscription => (d, .noSubscription)
  | .revoke => (0, .unsubscribeEvent)

/-- The specification: a natural-number counter. -/
def spec (limit : Int) (n : Int) : Op → Int × Out
  | .subscribe => if n < limit then (n + 1, .ok) else (n, .limitExceeded)
  | .unsubscribe bad c =>
    if bad ∨ c ≤ 0 then (n, .invalidParams)
    else if c ≤ n then (n - c, .ok) else (n, .noSubscription)
  | .revoke => (0, .unsubscribeEvent)

/-- The decision functions implement the counter specification, step by step. -/
theorem step_eq_spec (limit d : Int) (op : Op) : step limit d op = spec limit d op := by
  cases op with
  | subscribe =>
    simp only [step, spec, addDirect]
    by_cases h : d ≥ limit
    · have : ¬ d < limit := by omega
      simp [h, this]
    · have : d < limit := by omega
      simp [h, this]
  | unsubscribe bad c =>
    simp only [step, spec, unsubVerdict]
    cases bad with
    | true => simp
    | false =>
      by_cases hc : c ≤ 0
      · simp [hc]
      · by_cases hd : d < c
        · have : ¬ c ≤ d := by omega
          simp [hc, hd, this]
        · have : c ≤ d := by omega
          simp [hc, hd, this]
  | revoke => rfl

def run (limit : Int) (d : Int) : List Op → Int × List Out
  | [] => (d, [])
  | op :: ops =>
    let (d1, o) := step limit d op
    let (d2, os) := run limit d1 ops
    (d2, o :: os)

/-- For every sequence of requests and unsubscribe events the count stays within `0..limit`. -/
theorem bounds (limit : Int) (hl : 0 ≤ limit) (ops : List Op) : ∀ d, 0 ≤ d → d ≤ limit →
    0 ≤ (run limit d ops).1 ∧ (run limit d ops).1 ≤ limit := by
  induction ops with
  | nil => intro d h0 h1; exact ⟨h0, h1⟩
  | cons op ops ih =>
    intro d h0 h1
    simp only [run]
    have hs : 0 ≤ (step limit d op).1 ∧ (step limit d op).1 ≤ limit := by
      rw [step_eq_spec]
      cases op with
      | subscribe =>
        simp only [spec]
        by_cases h : d < limit
        · simp [h]; omega
        · simp [h]; omega
      | unsubscribe bad c =>
        simp only [spec]
        by_cases hb : bad = true ∨ c ≤ 0
        · simp [hb]; omega
        · by_cases hc : c ≤ d
          · simp [hb, hc]; omega
          · simp [hb, hc]; omega
      | revoke => simp [spec]; omega
    exact ih _ hs.1 hs.2

/-- A refused request leaves the count unchanged. -/
theorem refused_leaves_nothing (limit d : Int) (op : Op)
    (h : (step limit d op).2 = .limitExceeded ∨ (step limit d op).2 = .invalidParams ∨
         (step limit d op).2 = .noSubscription) : (step limit d op).1 = d := by
  rw [step_eq_spec] at h ⊢
  cases op with
  | subscribe =>
    simp only [spec] at h ⊢
    by_cases hh : d < limit <;> simp [hh] at h ⊢
  | unsubscribe bad c =>
    simp only [spec] at h ⊢
    by_cases hb : bad = true ∨ c ≤ 0
    · simp [hb]
    · by_cases hc : c ≤ d
      · simp [hb, hc] at h
      · simp [hb, hc]
  | revoke => simp [spec] at h

end Resgate.Direct
