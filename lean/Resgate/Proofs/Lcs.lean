import Resgate.Model.Diff

/-
Correctness of the collection diff (`lcs`) for ANY table: the produced remove/add events, applied
in order with the bounds checks of `handleEventRemove/Add`, turn `a` into a list pointwise
`Equal` to `b`.  Only minimality of the script depends on the table.
-/

namespace Resgate
namespace Lcs

variable {α : Type}

/-- Pointwise relation between two lists (core Lean has no `Forall₂`). -/
inductive AllRel (R : α → α → Prop) : List α → List α → Prop
  | nil : AllRel R [] []
  | cons {x y xs ys} : R x y → AllRel R xs ys → AllRel R (x :: xs) (y :: ys)

/-- Elements of `aa` (reversed) the operations talk about. -/
def projA : List (AOp α) → List α
  | [] => []
  | .keep x :: ops => x :: projA ops
  | .add _ :: ops => projA ops
  | .rem x :: ops => x :: projA ops

/-- The kept elements (reversed). -/
def kept : List (AOp α) → List α
  | [] => []
  | .keep x :: ops => x :: kept ops
  | .add _ :: ops => kept ops
  | .rem _ :: ops => kept ops

/-- The result (reversed): kept elements and added values. -/
def merged : List (AOp α) → List α
  | [] => []
  | .keep x :: ops => x :: merged ops
  | .add v :: ops => v :: merged ops
  | .rem _ :: ops => merged ops

def nRem : List (AOp α) → Nat
  | [] => 0
  | .rem _ :: ops => nRem ops + 1
  | _ :: ops => nRem ops

def nAdd : List (AOp α) → Nat
  | [] => 0
  | .add _ :: ops => nAdd ops + 1
  | _ :: ops => nAdd ops

theorem projA_length (ops : List (AOp α)) : (projA ops).length = (kept ops).length + nRem ops := by
  induction ops with
  | nil => rfl
  | cons o ops ih => cases o <;> simp [projA, kept, nRem, ih] <;> omega

theorem merged_length (ops : List (AOp α)) : (merged ops).length = (kept ops).length + nAdd ops := by
  induction ops with
  | nil => rfl
  | cons o ops ih => cases o <;> simp [merged, kept, nAdd, ih] <;> omega

/-! ### Phase 0: the back-track yields an alignment -/

theorem backtrack_projA (eq : α → α → Bool) (c : Nat → Nat → Int) (ra rb : List α) :
    projA (backtrack eq c ra rb) = ra := by
  fun_induction backtrack eq c ra rb with
  | case1 => rfl
  | case2 y rb ih => simpa [projA] using ih
  | case3 x ra ih => simpa [projA] using ih
  | case4 x ra y rb h ih => simpa [projA] using ih
  | case5 x ra y rb h1 h2 ih => simpa [projA] using ih
  | case6 x ra y rb h1 h2 ih => simpa [projA] using ih

theorem backtrack_merged (eq : α → α → Bool) (c : Nat → Nat → Int) (ra rb : List α) :
    AllRel (fun x y => eq x y = true ∨ x = y) (merged (backtrack eq c ra rb)) rb := by
  fun_induction backtrack eq c ra rb with
  | case1 => exact AllRel.nil
  | case2 y rb ih => exact AllRel.cons (Or.inr rfl) ih
  | case3 x ra ih => simpa [merged] using ih
  | case4 x ra y rb h ih => exact AllRel.cons (Or.inl h) ih
  | case5 x ra y rb h1 h2 ih => exact AllRel.cons (Or.inr rfl) ih
  | case6 x ra y rb h1 h2 ih => simpa [merged] using ih

/-! ### Applying events -/

theorem applyCEvs_append (l : List α) (e1 e2 : List (CEv α)) :
    applyCEvs l (e1 ++ e2) = (applyCEvs l e1).bind (fun l' => applyCEvs l' e2) := by
  induction e1 generalizing l with
  | nil => rfl
  | cons e es ih =>
    simp only [List.cons_append, applyCEvs]
    cases applyCEv l e with
    | none => rfl
    | some l' => exact ih l'

/-! ### Phase 1: the removes -/

theorem walk_rems_length (s : Nat) (ops : List (AOp α)) (i r : Nat) :
    (walk s ops i r).1.length = nRem ops := by
  induction ops generalizing i r with
  | nil => rfl
  | cons o ops ih => cases o <;> simp [walk, nRem, ih]

theorem walk_adds_length (s : Nat) (ops : List (AOp α)) (i r : Nat) :
    (walk s ops i r).2.length = nAdd ops := by
  induction ops generalizing i r with
  | nil => rfl
  | cons o ops ih => cases o <;> simp [walk, nAdd, ih]

theorem eraseIdx_mid (P M S : List α) (x : α) :
    (P ++ M ++ x :: S).eraseIdx (P.length + M.length) = P ++ M ++ S := by
  have : P.length + M.length = (P ++ M).length := by simp
  rw [this, List.eraseIdx_append_of_length_le (Nat.le_refl _)]
  simp

/-- Removing, in visit order, the positions recorded by `walk` from `P ++ aa ++ S` leaves the
    kept elements; every index is in range. -/
theorem removes_apply (P : List α) (ops : List (AOp α)) (S : List α) (r : Nat) :
    applyCEvs (P ++ (projA ops).reverse ++ S)
        ((walk P.length ops (projA ops).length r).1.map CEv.remove)
      = some (P ++ (kept ops).reverse ++ S) := by
  induction ops generalizing S r with
  | nil => simp [walk, projA, kept, applyCEvs]
  | cons o ops ih =>
    cases o with
    | keep x =>
      simp only [projA, kept, walk, List.length_cons, Nat.add_sub_cancel, List.reverse_cons,
        List.append_assoc, List.singleton_append]
      have := ih (x :: S) r
      simpa [List.append_assoc] using this
    | add v =>
      simp only [projA, kept, walk]
      exact ih S r
    | rem x =>
      simp only [projA, kept, walk, List.length_cons, Nat.add_sub_cancel, List.reverse_cons,
        List.append_assoc, List.singleton_append, List.map_cons, applyCEvs, applyCEv]
      have hlen : ((P ++ ((projA ops).reverse ++ x :: S)).length : Int) >
          (((projA ops).length + P.length : Nat) : Int) := by
        simp only [List.length_append, List.length_reverse, List.length_cons]
        omega
      have h0 : (0 : Int) ≤ (((projA ops).length + P.length : Nat) : Int) := by omega
      simp only [h0, hlen, and_self, if_true, Int.toNat_natCast]
      have he := eraseIdx_mid P (projA ops).reverse S x
      simp only [List.length_reverse, List.append_assoc] at he
      rw [Nat.add_comm, he]
      have := ih S (r + 1)
      simpa [List.append_assoc] using this

/-! ### Phase 2: the adds -/

/-- The add events, recursively: the adds of the later operations first, then this one at the
    position right after everything merged so far. -/
def addEvents (s : Nat) : List (AOp α) → List (CEv α)
  | [] => []
  | .keep _ :: ops => addEvents s ops
  | .rem _ :: ops => addEvents s ops
  | .add v :: ops => addEvents s ops ++ [CEv.add ((s + (merged ops).length : Nat) : Int) v]

theorem insertIdx_append_length (M S : List α) (v : α) :
    (M ++ S).insertIdx M.length v = M ++ v :: S := by
  induction M with
  | nil => simp
  | cons m M ih => simp [List.insertIdx_succ_cons, ih]

theorem insertIdx_mid (P M S : List α) (v : α) :
    (P ++ M ++ S).insertIdx (P.length + M.length) v = P ++ M ++ v :: S := by
  have : P.length + M.length = (P ++ M).length := by simp
  rw [this, insertIdx_append_length]

theorem adds_apply (P : List α) (ops : List (AOp α)) (S : List α) :
    applyCEvs (P ++ (kept ops).reverse ++ S) (addEvents P.length ops)
      = some (P ++ (merged ops).reverse ++ S) := by
  induction ops generalizing S with
  | nil => simp [addEvents, kept, merged, applyCEvs]
  | cons o ops ih =>
    cases o with
    | keep x =>
      simp only [kept, merged, addEvents, List.reverse_cons, List.append_assoc,
        List.singleton_append]
      have := ih (x :: S)
      simpa [List.append_assoc] using this
    | rem x =>
      simp only [kept, merged, addEvents]
      exact ih S
    | add v =>
      simp only [kept, merged, addEvents, List.reverse_cons, List.append_assoc,
        List.singleton_append]
      have ihS := ih S
      simp only [List.append_assoc] at ihS
      rw [applyCEvs_append, ihS]
      simp only [Option.bind_some, applyCEvs, applyCEv]
      have h0 : (0 : Int) ≤ ((P.length + (merged ops).length : Nat) : Int) := by omega
      have h1 : ((P.length + (merged ops).length : Nat) : Int) ≤
          ((P ++ ((merged ops).reverse ++ S)).length : Int) := by
        simp only [List.length_append, List.length_reverse]; omega
      simp only [h0, h1, and_self, if_true, Int.toNat_natCast]
      have hi := insertIdx_mid P (merged ops).reverse S v
      simp only [List.length_reverse, List.append_assoc] at hi
      rw [hi]

/-- The closed-form index arithmetic of the Go code (`add[1] - r + add[2] + l - i`) computes
    exactly `addEvents`. -/
theorem emit_eq_addEvents (s : Nat) (ops : List (AOp α)) (r k0 : Nat) (R L : Int)
    (hR : R = (r : Int) + (nRem ops : Int))
    (hL : L = (k0 : Int) + (nAdd ops : Int) - 1) :
    (((walk s ops (projA ops).length r).2.zipIdx k0).reverse).map
        (fun (p : (α × Int × Int) × Nat) => CEv.add (p.1.2.1 - R + p.1.2.2 + L - (p.2 : Int)) p.1.1)
      = addEvents s ops := by
  induction ops generalizing r k0 with
  | nil => simp [walk, addEvents]
  | cons o ops ih =>
    cases o with
    | keep x =>
      simp only [projA, walk, List.length_cons, Nat.add_sub_cancel, addEvents]
      exact ih r k0 (by simpa [nRem] using hR) (by simpa [nAdd] using hL)
    | rem x =>
      simp only [projA, walk, List.length_cons, Nat.add_sub_cancel, addEvents]
      exact ih (r + 1) k0 (by simp only [nRem] at hR; omega) (by simpa [nAdd] using hL)
    | add v =>
      simp only [projA, walk, addEvents, List.zipIdx_cons, List.reverse_cons, List.map_append,
        List.map_cons, List.map_nil]
      have ih' := ih r (k0 + 1) (by simpa [nRem] using hR) (by simp only [nAdd] at hL; omega)
      rw [ih']
      congr 2
      have hp := projA_length ops
      have hm := merged_length ops
      simp only [nRem, nAdd] at hR hL
      simp only [CEv.add.injEq, and_true]
      omega

theorem emitAdds_eq (s : Nat) (ops : List (AOp α)) :
    emitAdds ((walk s ops (projA ops).length 0).1.length : Int) (walk s ops (projA ops).length 0).2
      = addEvents s ops := by
  unfold emitAdds
  have h := emit_eq_addEvents s ops 0 0 (nRem ops : Int) ((nAdd ops : Int) - 1) (by simp) (by simp)
  rw [walk_rems_length, walk_adds_length]
  simpa using h

/-- The whole script of the trimmed middle part. -/
theorem script_apply (P : List α) (ops : List (AOp α)) (S : List α) :
    applyCEvs (P ++ (projA ops).reverse ++ S)
      ((walk P.length ops (projA ops).length 0).1.map CEv.remove ++
        emitAdds ((walk P.length ops (projA ops).length 0).1.length : Int)
          (walk P.length ops (projA ops).length 0).2)
      = some (P ++ (merged ops).reverse ++ S) := by
  rw [applyCEvs_append, removes_apply, emitAdds_eq]
  simp only [Option.bind_some]
  exact adds_apply P ops S

end Lcs
end Resgate

namespace Resgate
namespace Lcs

variable {α : Type}

theorem AllRel.append {R : α → α → Prop} {xs ys xs' ys' : List α}
    (h1 : AllRel R xs ys) (h2 : AllRel R xs' ys') : AllRel R (xs ++ xs') (ys ++ ys') := by
  induction h1 with
  | nil => exact h2
  | cons hr _ ih => exact AllRel.cons hr ih

theorem AllRel.reverse {R : α → α → Prop} {xs ys : List α}
    (h : AllRel R xs ys) : AllRel R xs.reverse ys.reverse := by
  induction h with
  | nil => exact AllRel.nil
  | cons hr _ ih =>
    simp only [List.reverse_cons]
    exact AllRel.append ih (AllRel.cons hr AllRel.nil)

theorem AllRel.mono {R R' : α → α → Prop} (hm : ∀ x y, R x y → R' x y) {xs ys : List α}
    (h : AllRel R xs ys) : AllRel R' xs ys := by
  induction h with
  | nil => exact AllRel.nil
  | cons hr _ ih => exact AllRel.cons (hm _ _ hr) ih

theorem commonPrefix_le (eq : α → α → Bool) (a b : List α) :
    commonPrefix eq a b ≤ a.length ∧ commonPrefix eq a b ≤ b.length := by
  fun_induction commonPrefix eq a b with
  | case1 x xs y ys h ih => simp; omega
  | case2 x xs y ys h => simp
  | case3 a b h => simp

theorem commonPrefix_rel (eq : α → α → Bool) (a b : List α) :
    AllRel (fun x y => eq x y = true) (a.take (commonPrefix eq a b)) (b.take (commonPrefix eq a b)) := by
  fun_induction commonPrefix eq a b with
  | case1 x xs y ys h ih => simpa using (AllRel.cons (R := fun x y => eq x y = true) h ih)
  | case2 x xs y ys h => simpa using (AllRel.nil (R := fun x y => eq x y = true))
  | case3 a b h => simpa using (AllRel.nil (R := fun x y => eq x y = true))

theorem take_all {l : List α} {n : Nat} (h : n = l.length) : l.take n = l := by
  subst h; simp

theorem drop_eq_reverse_take_reverse (l : List α) (t : Nat) (ht : t ≤ l.length) :
    l.drop (l.length - t) = (l.reverse.take t).reverse := by
  rw [List.take_reverse, List.reverse_reverse]

/-- C12 `lcs_applies`: for every pair of lists and EVERY table, the derived events apply with all
    indexes in range and yield a list pointwise `Equal` to the new one. -/
theorem lcs_applies (eq : α → α → Bool) (hrefl : ∀ x, eq x x = true)
    (tbl : List α → List α → Nat → Nat → Int) (a b : List α) :
    ∃ r, applyCEvs a (lcsWith eq tbl a b) = some r ∧ AllRel (fun x y => eq x y = true) r b := by
  unfold lcsWith
  have hle := commonPrefix_le eq a b
  have hrel := commonPrefix_rel eq a b
  generalize hs : commonPrefix eq a b = s at hle hrel
  simp only
  by_cases hall : s = a.length ∧ s = b.length
  · rw [if_pos hall]
    refine ⟨a, rfl, ?_⟩
    rw [take_all hall.1, take_all hall.2] at hrel
    exact hrel
  · rw [if_neg hall]
    have hle1 := commonPrefix_le eq (a.drop s).reverse (b.drop s).reverse
    have hrel1 := commonPrefix_rel eq (a.drop s).reverse (b.drop s).reverse
    generalize ht : commonPrefix eq (a.drop s).reverse (b.drop s).reverse = t at hle1 hrel1
    simp only [List.length_reverse] at hle1
    generalize ha1 : a.drop s = a1 at hle1 hrel1
    generalize hb1 : b.drop s = b1 at hle1 hrel1
    -- decomposition of a and b
    have hPa : (a.take s).length = s := by simp; omega
    have hdeca : a = a.take s ++ a1.take (a1.length - t) ++ a1.drop (a1.length - t) := by
      rw [List.append_assoc, List.take_append_drop, ← ha1, List.take_append_drop]
    have hdecb : b = b.take s ++ b1.take (b1.length - t) ++ b1.drop (b1.length - t) := by
      rw [List.append_assoc, List.take_append_drop, ← hb1, List.take_append_drop]
    generalize haa : a1.take (a1.length - t) = aa at hdeca
    generalize hbb : b1.take (b1.length - t) = bb at hdecb
    have hproj := backtrack_projA eq (tbl aa bb) aa.reverse bb.reverse
    have hmerged := backtrack_merged eq (tbl aa bb) aa.reverse bb.reverse
    generalize hops : backtrack eq (tbl aa bb) aa.reverse bb.reverse = ops at hproj hmerged
    have hscript := script_apply (a.take s) ops (a1.drop (a1.length - t))
    rw [hproj, List.reverse_reverse, hPa, List.length_reverse] at hscript
    refine ⟨List.take s a ++ (merged ops).reverse ++ List.drop (a1.length - t) a1, ?_, ?_⟩
    · rw [← hdeca] at hscript
      exact hscript
    · rw [hdecb]
      refine AllRel.append (AllRel.append hrel ?_) ?_
      · have := AllRel.reverse hmerged
        rw [List.reverse_reverse] at this
        refine AllRel.mono ?_ this
        intro x y h
        rcases h with h | h
        · exact h
        · subst h; exact hrefl x
      · rw [drop_eq_reverse_take_reverse a1 t hle1.1, drop_eq_reverse_take_reverse b1 t hle1.2]
        exact AllRel.reverse hrel1

end Lcs
end Resgate

namespace Resgate
namespace Lcs
variable {α : Type}

theorem commonPrefix_of_rel (eq : α → α → Bool) {a b : List α}
    (h : AllRel (fun x y => eq x y = true) a b) :
    commonPrefix eq a b = a.length ∧ commonPrefix eq a b = b.length := by
  induction h with
  | nil => simp [commonPrefix]
  | cons hr _ ih =>
    simp only [commonPrefix, hr, if_true, List.length_cons]
    omega

/-- C12: unchanged content yields no event. -/
theorem lcs_nil_of_equal (eq : α → α → Bool) (tbl : List α → List α → Nat → Nat → Int)
    {a b : List α} (h : AllRel (fun x y => eq x y = true) a b) : lcsWith eq tbl a b = [] := by
  unfold lcsWith
  have := commonPrefix_of_rel eq h
  simp only
  rw [if_pos this]

end Lcs
end Resgate
