import Resgate.Model.Pattern

namespace Resgate

/-- The loop of `Match` never indexes out of range: from any loop head with a non-empty name
    suffix (and, outside the `*` scan, a non-empty pattern suffix) it returns a verdict. -/
theorem matchAux_total (star : Bool) (ps s : Bytes) (hs : s ≠ []) (hp : star = false → ps ≠ []) :
    (matchAux star ps s).isSome = true := by
  induction s generalizing star ps with
  | nil => exact absurd rfl hs
  | cons sc ss ih =>
    cases star with
    | true =>
      unfold matchAux
      split
      · cases ps with
        | nil => rfl
        | cons p ps' =>
          simp only
          split
          · rfl
          · split
            · rfl
            · rename_i h1 h2
              exact ih false ps' (by simpa using h1) (fun _ => by simpa using h2)
      · split
        · rfl
        · rename_i h1
          exact ih true ps (by simpa using h1) (by simp)
    | false =>
      cases ps with
      | nil => exact absurd rfl (hp rfl)
      | cons pc ps' =>
        unfold matchAux
        split
        · rfl
        · split
          · split
            · cases ps' with
              | nil => rfl
              | cons p ps'' =>
                simp only
                split
                · rfl
                · split
                  · rfl
                  · rename_i h1 h2
                    exact ih false ps'' (by simpa using h1) (fun _ => by simpa using h2)
            · split
              · rfl
              · rename_i h1
                exact ih true ps' (by simpa using h1) (by simp)
          · split
            · rfl
            · split
              · rfl
              · split
                · rfl
                · rename_i h1 h2
                  exact ih false ps' (by simpa using h1) (fun _ => by simpa using h2)

/-- C12/C15 `match_total`: `Match` never panics, for any pattern value and any name. -/
theorem match_total (p : Pattern) (s : Bytes) : (p.matches? s).isSome = true := by
  unfold Pattern.matches?
  split
  · rfl
  · split
    · rfl
    · split
      · rfl
      · rename_i h1 _ h3
        have hp : p.pattern ≠ [] := by
          intro e; apply h1; simp [e]
        have hs : s ≠ [] := by
          intro e; subst e
          cases hpp : p.pattern with
          | nil => exact hp hpp
          | cons a b => simp [hpp] at h3
        exact matchAux_total false p.pattern s hs (fun _ => hp)

/-- Invalid patterns match nothing. -/
theorem invalid_matches_nothing (s : Bytes) : Pattern.invalid.matches s = false := by
  simp [Pattern.matches, Pattern.matches?, Pattern.invalid]

end Resgate
