import Resgate.Model.Diff

/-
`modelDiff_applies`: the change event derived by `processResetModel`, applied by
`handleEventChange`, turns the cached model into the fetched one (key by key, up to `Equal`).
-/

namespace Resgate

variable {κ α : Type} [DecidableEq κ]

theorem kvGet_nil (k : κ) : kvGet ([] : KV κ α) k = none := rfl

theorem kvGet_cons (a : κ) (b : α) (m : KV κ α) (k : κ) :
    kvGet ((a, b) :: m) k = if a = k then some b else kvGet m k := by
  unfold kvGet
  by_cases h : a = k <;> simp [List.find?_cons, h]

theorem kvErase_cons (a : κ) (b : α) (m : KV κ α) (k : κ) :
    kvErase ((a, b) :: m) k = if a = k then kvErase m k else (a, b) :: kvErase m k := by
  unfold kvErase
  by_cases h : a = k <;> simp [List.filter_cons, h]

theorem kvGet_erase_self (m : KV κ α) (k : κ) : kvGet (kvErase m k) k = none := by
  induction m with
  | nil => rfl
  | cons p r ih =>
    obtain ⟨a, b⟩ := p
    rw [kvErase_cons]
    by_cases h : a = k
    · simp only [h, if_true]; exact ih
    · simp only [h, if_false, kvGet_cons]; exact ih

theorem kvGet_erase_ne (m : KV κ α) {k' k : κ} (hne : k' ≠ k) : kvGet (kvErase m k') k = kvGet m k := by
  induction m with
  | nil => rfl
  | cons p r ih =>
    obtain ⟨a, b⟩ := p
    rw [kvErase_cons]
    by_cases h : a = k'
    · have : a ≠ k := by rw [h]; exact hne
      simp only [h, if_true, kvGet_cons, hne, if_false]; exact ih
    · simp only [h, if_false, kvGet_cons, ih]

theorem kvGet_set_self (m : KV κ α) (k : κ) (v : α) : kvGet (kvSet m k v) k = some v := by
  simp [kvSet, kvGet_cons]

theorem kvGet_set_ne (m : KV κ α) {k' k : κ} (v : α) (hne : k' ≠ k) : kvGet (kvSet m k' v) k = kvGet m k := by
  simp [kvSet, kvGet_cons, hne, kvGet_erase_ne m hne]

theorem kvGet_none_of_not_mem (m : KV κ α) (k : κ) (h : k ∉ m.map (·.1)) : kvGet m k = none := by
  induction m with
  | nil => rfl
  | cons p r ih =>
    obtain ⟨a, b⟩ := p
    simp only [List.map_cons, List.mem_cons, not_or] at h
    rw [kvGet_cons]
    have : a ≠ k := fun e => h.1 e.symm
    simp [this, ih h.2]

/-- What `handleEventChange` leaves under each key, for a change that names no key twice. -/
theorem applyChange_get (eq : α → α → Bool) (ch : KV κ (Option α)) :
    ∀ (m : KV κ α), (ch.map (·.1)).Nodup → ∀ k,
    kvGet (applyChange eq m ch).1 k =
      match kvGet ch k with
      | none => kvGet m k
      | some none => none
      | some (some v) =>
        match kvGet m k with
        | some ov => if eq ov v then some ov else some v
        | none => some v := by
  induction ch with
  | nil => intro m _ k; simp [applyChange, kvGet_nil]
  | cons p ps ih =>
    intro m hnd k
    obtain ⟨k', ov'⟩ := p
    simp only [List.map_cons, List.nodup_cons] at hnd
    have hps : kvGet ps k' = none := kvGet_none_of_not_mem ps k' hnd.1
    rw [kvGet_cons]
    cases ov' with
    | none =>
      unfold applyChange
      by_cases hk : k' = k
      · subst hk
        simp only [if_true]
        cases hm : kvGet m k' with
        | none => simp only; rw [ih m hnd.2 k', hps]; exact hm
        | some x => simp only; rw [ih _ hnd.2 k', hps]; exact kvGet_erase_self m k'
      · simp only [hk, if_false]
        cases hm : kvGet m k' with
        | none => simp only; exact ih m hnd.2 k
        | some x => simp only; rw [ih _ hnd.2 k, kvGet_erase_ne m hk]
    | some v =>
      unfold applyChange
      by_cases hk : k' = k
      · subst hk
        simp only [if_true]
        cases hm : kvGet m k' with
        | none => simp only; rw [ih _ hnd.2 k', hps]; exact kvGet_set_self m k' v
        | some x =>
          simp only
          by_cases he : eq x v = true
          · simp only [he, if_true]; rw [ih m hnd.2 k', hps]; exact hm
          · simp only [he, if_false, Bool.false_eq_true]; rw [ih _ hnd.2 k', hps]; exact kvGet_set_self m k' v
      · simp only [hk, if_false]
        cases hm : kvGet m k' with
        | none => simp only; rw [ih _ hnd.2 k, kvGet_set_ne m v hk]
        | some x =>
          simp only
          by_cases he : eq x v = true
          · simp only [he, if_true]; exact ih m hnd.2 k
          · simp only [he, if_false, Bool.false_eq_true]; rw [ih _ hnd.2 k, kvGet_set_ne m v hk]

theorem kvGet_some_mem {m : KV κ α} {k : κ} {v : α} (h : kvGet m k = some v) : k ∈ m.map (·.1) := by
  induction m with
  | nil => simp [kvGet_nil] at h
  | cons p r ih =>
    obtain ⟨a, b⟩ := p
    rw [kvGet_cons] at h
    by_cases e : a = k
    · simp [e]
    · simp only [e, if_false] at h
      simp [ih h]

theorem kvGet_append (a b : KV κ α) (k : κ) :
    kvGet (a ++ b) k = match kvGet a k with | some v => some v | none => kvGet b k := by
  induction a with
  | nil => simp [kvGet_nil]
  | cons p r ih =>
    obtain ⟨x, y⟩ := p
    rw [List.cons_append, kvGet_cons, kvGet_cons]
    by_cases e : x = k <;> simp [e, ih]

theorem kvGet_map {β : Type} (f : α → β) (m : KV κ α) (k : κ) :
    kvGet (m.map (fun p => (p.1, f p.2))) k = (kvGet m k).map f := by
  induction m with
  | nil => rfl
  | cons p r ih =>
    obtain ⟨x, y⟩ := p
    rw [List.map_cons, kvGet_cons, kvGet_cons]
    by_cases e : x = k <;> simp [e, ih]

/-- Filtering on the key only. -/
theorem kvGet_filter_key (q : κ → Bool) (m : KV κ α) (k : κ) :
    kvGet (m.filter (fun p => q p.1)) k = if q k then kvGet m k else none := by
  induction m with
  | nil => simp [kvGet_nil]
  | cons p r ih =>
    obtain ⟨x, y⟩ := p
    by_cases hq : q x = true
    · simp only [List.filter_cons, hq, if_true, kvGet_cons]
      by_cases e : x = k
      · subst e; simp [hq]
      · simp [e, ih]
    · simp only [List.filter_cons, hq, if_false, kvGet_cons, Bool.false_eq_true]
      by_cases e : x = k
      · subst e; simp [hq, ih]
      · simp [e, ih]

/-- Filtering a list without duplicate keys. -/
theorem kvGet_filter_nodup (P : κ × α → Bool) (m : KV κ α) (hnd : (m.map (·.1)).Nodup) (k : κ) :
    kvGet (m.filter P) k = match kvGet m k with | some v => if P (k, v) then some v else none | none => none := by
  induction m with
  | nil => simp [kvGet_nil]
  | cons p r ih =>
    obtain ⟨x, y⟩ := p
    simp only [List.map_cons, List.nodup_cons] at hnd
    rw [kvGet_cons]
    by_cases e : x = k
    · subst e
      have hr : kvGet r x = none := kvGet_none_of_not_mem r x hnd.1
      by_cases hp : P (x, y) = true
      · simp [List.filter_cons, hp, kvGet_cons]
      · simp only [List.filter_cons, hp, if_false, if_true, Bool.false_eq_true]
        rw [ih hnd.2, hr]
    · simp only [e, if_false]
      by_cases hp : P (x, y) = true
      · simp [List.filter_cons, hp, kvGet_cons, e, ih hnd.2]
      · simp [List.filter_cons, hp, ih hnd.2]

theorem nodup_filter_keys (P : κ × α → Bool) (m : KV κ α) (hnd : (m.map (·.1)).Nodup) :
    ((m.filter P).map (·.1)).Nodup := by
  induction m with
  | nil => simp
  | cons p r ih =>
    simp only [List.map_cons, List.nodup_cons] at hnd
    by_cases hp : P p = true
    · simp only [List.filter_cons, hp, if_true, List.map_cons, List.nodup_cons]
      refine ⟨?_, ih hnd.2⟩
      intro hm
      apply hnd.1
      simp only [List.mem_map] at hm ⊢
      obtain ⟨q, hq, he⟩ := hm
      exact ⟨q, (List.mem_filter.mp hq).1, he⟩
    · simp only [List.filter_cons, hp, if_false, Bool.false_eq_true]
      exact ih hnd.2

/-- The change derived by `processResetModel` before pruning: every key of the new model with
    its value, and a delete for every key of the old model that the new one lacks. -/
def withDeletes (old new : KV κ α) : KV κ (Option α) :=
  new.map (fun p => (p.1, some p.2)) ++
    (old.filter (fun p => (kvGet new p.1).isNone)).map (fun p => (p.1, none))

theorem modelDiff_eq (eq : α → α → Bool) (old new : KV κ α) :
    modelDiff eq old new = (withDeletes old new).filter fun p =>
      match p.2, kvGet old p.1 with
      | some v, some ov => !eq v ov
      | _, _ => true := rfl

theorem withDeletes_get (old new : KV κ α) (k : κ) :
    kvGet (withDeletes old new) k =
      match kvGet new k with
      | some v => some (some v)
      | none => match kvGet old k with | some _ => some none | none => none := by
  unfold withDeletes
  rw [kvGet_append, kvGet_map (fun v => some v) new k]
  cases hn : kvGet new k with
  | some v => simp
  | none =>
    simp only [Option.map_none]
    have := kvGet_map (fun (_ : α) => (none : Option α)) (old.filter (fun p => (kvGet new p.1).isNone)) k
    rw [this, kvGet_filter_key (fun x => (kvGet new x).isNone) old k, hn]
    cases kvGet old k <;> simp

theorem withDeletes_nodup (old new : KV κ α) (ho : (old.map (·.1)).Nodup) (hn : (new.map (·.1)).Nodup) :
    ((withDeletes old new).map (·.1)).Nodup := by
  unfold withDeletes
  rw [List.map_append, List.nodup_append]
  refine ⟨?_, ?_, ?_⟩
  · simpa [List.map_map, Function.comp_def] using hn
  · have := nodup_filter_keys (fun p => (kvGet new p.1).isNone) old ho
    simpa [List.map_map, Function.comp_def] using this
  · intro a ha b hb hab
    subst hab
    simp only [List.map_map, List.mem_map, Function.comp_def] at ha hb
    obtain ⟨p, hp, rfl⟩ := ha
    obtain ⟨q, hq, he⟩ := hb
    have hq2 := (List.mem_filter.mp hq).2
    rw [he] at hq2
    have : kvGet new p.1 = none := by simpa using hq2
    have hmem : p.1 ∈ new.map (·.1) := List.mem_map.mpr ⟨p, hp, rfl⟩
    -- a key of `new` has a value in `new`
    have : ∃ v, kvGet new p.1 = some v := by
      clear hq hq2 he this hn
      induction new with
      | nil => cases hp
      | cons x r ih =>
        obtain ⟨xa, xb⟩ := x
        rw [kvGet_cons]
        by_cases e : xa = p.1
        · exact ⟨xb, by simp [e]⟩
        · simp only [e, if_false]
          rcases List.mem_cons.mp hp with h | h
          · exact absurd (by rw [h]) e
          · exact ih h (List.mem_map.mpr ⟨p, h, rfl⟩)
    obtain ⟨v, hv⟩ := this
    simp_all

/-- **modelDiff_applies.** For every cached model and every fetched model (keys distinct — they are
    Go maps), applying the derived change leaves, under every key, a value `Equal` to the fetched
    one, and no key the fetched model lacks. -/
theorem modelDiff_applies (eq : α → α → Bool) (hrefl : ∀ x, eq x x = true)
    (hsymm : ∀ x y, eq x y = eq y x) (old new : KV κ α)
    (ho : (old.map (·.1)).Nodup) (hn : (new.map (·.1)).Nodup) (k : κ) :
    match kvGet (applyChange eq old (modelDiff eq old new)).1 k, kvGet new k with
    | none, none => True
    | some r, some v => eq v r = true
    | _, _ => False := by
  have hnd := withDeletes_nodup old new ho hn
  have hnd2 : ((modelDiff eq old new).map (·.1)).Nodup := by
    rw [modelDiff_eq]; exact nodup_filter_keys _ _ hnd
  rw [applyChange_get eq _ old hnd2 k, modelDiff_eq, kvGet_filter_nodup _ _ hnd k, withDeletes_get]
  cases hnew : kvGet new k with
  | none =>
    cases hold : kvGet old k with
    | none => simp [hold]
    | some ov => simp [hold]
  | some v =>
    cases hold : kvGet old k with
    | none => simp [hold, hrefl]
    | some ov =>
      simp only [hold]
      by_cases he : eq v ov = true
      · simp [he, hold]
      · simp only [he, Bool.not_false, if_true, Bool.false_eq_true]
        have he2 : ¬ eq ov v = true := by rw [hsymm]; exact he
        simp [he2, hrefl]

end Resgate
