import Resgate.Proofs.Close
import Resgate.Proofs.Collector
import Resgate.Gw.Conn

namespace Resgate.Gw

/-- `orderedList` for a plain map range: a permutation of its argument; only the order counter
    of the state changes. -/
theorem orderedList_plain {α} (sorted : List α) (g : Gw) :
    List.Perm ((orderedList sorted false).run g).1 sorted ∧
    ∃ n, ((orderedList sorted false).run g).2 = { g with ordCtr := n } := by
  unfold orderedList
  by_cases h : g.ord < 6
  · simp [h, StateT.run, bind, StateT.bind, get, getThe, MonadStateOf.get, StateT.get, pure, StateT.pure]
    exact ⟨g.ordCtr, rfl⟩
  · simp [h, StateT.run, bind, StateT.bind, get, getThe, MonadStateOf.get, StateT.get, pure, StateT.pure,
      set, StateT.set]
    exact shuffle_perm _ _

end Resgate.Gw

namespace Resgate.Gw

theorem disposeConn_run (g : Gw) (cid : Nat) :
    ((disposeConn cid).run g).2 =
      if (connOf g cid).disposing then g else
        let r := (orderedList ((connOf g cid).subs.mergeSort fun a b => !(b.1 < a.1)) false).run (closingStart g cid)
        closeSubs cid r.2 (r.1.map (·.2)) := by
  unfold disposeConn
  by_cases h : (connOf g cid).disposing = true
  · have h' : ((g.conns.find? (·.cid == cid)).getD default).disposing = true := h
    simp [h, h', getConn, StateT.run, bind, StateT.bind, get, getThe, MonadStateOf.get, StateT.get, pure, StateT.pure]
  · have h' : ((g.conns.find? (·.cid == cid)).getD default).disposing = false := by simpa [connOf] using h
    simp [h', connOf, getConn, StateT.run, bind, StateT.bind, get, getThe, MonadStateOf.get, StateT.get, pure, StateT.pure,
      modify, modifyGet, MonadStateOf.modifyGet, StateT.modifyGet]
    split
    next a s heq => rw [heq]

end Resgate.Gw

namespace Resgate.Gw

/-! ### the first half of dispose -/

theorem found_cid (g : Gw) (cid : Nat) (c : Conn) (h : g.conns.find? (·.cid == cid) = some c) : c.cid = cid := by
  have := List.find?_some h
  simpa using this

theorem closingStart_conn_same (g : Gw) (cid : Nat) (c : Conn) (h : g.conns.find? (·.cid == cid) = some c) :
    connOf (closingStart g cid) cid = { c with disposing := true, subs := [] } := by
  unfold connOf closingStart
  simp only
  rw [find_map_same g.conns cid (fun d => { d with disposing := true, subs := [] }) (fun _ => rfl)]
  simp [h]

theorem closingStart_conn_other (g : Gw) (cid k : Nat) (hne : k ≠ cid) :
    connOf (closingStart g cid) k = connOf g k := by
  unfold connOf closingStart
  simp only
  rw [find_map_other g.conns cid k (fun d => { d with disposing := true, subs := [] }) (fun _ => rfl) hne]

theorem closingStart_sub (g : Gw) (cid u : Nat) : subOf (closingStart g cid) cid u = subOf g cid u := by
  unfold subOf connOf closingStart
  simp only
  rw [find_map_same g.conns cid (fun d => { d with disposing := true, subs := [] }) (fun _ => rfl)]
  cases g.conns.find? (·.cid == cid) <;> rfl

end Resgate.Gw

namespace Resgate.Gw

theorem connOf_setSub_flags (g : Gw) (cid uid : Nat) (s : Sub) :
    (connOf (setSubPure g cid uid s) cid).disposing = (connOf g cid).disposing ∧
    (connOf (setSubPure g cid uid s) cid).subs = (connOf g cid).subs := by
  unfold connOf setSubPure
  simp only
  rw [find_map_same g.conns cid (fun d => { d with objs := tset d.objs uid s }) (fun _ => rfl)]
  cases g.conns.find? (·.cid == cid) <;> exact ⟨rfl, rfl⟩

theorem closeSub_conn_flags (cid : Nat) (g : Gw) (uid : Nat) :
    (connOf (closeSub cid g uid) cid).disposing = (connOf g cid).disposing ∧
    (connOf (closeSub cid g uid) cid).subs = (connOf g cid).subs := by
  rw [closeSub_eq]
  by_cases hd : ((subOf g cid uid).state == .disposed) = true
  · simp [hd]
  · simp only [hd, Bool.false_eq_true, if_false]
    have key := connOf_setSub_flags g cid uid (subOf g cid uid).closed
    cases hr : releaseOf g cid uid with
    | none => exact key
    | some p => obtain ⟨e', it⟩ := p; exact key

theorem closeSubs_conn_flags (cid : Nat) (order : List Nat) (g : Gw) :
    (connOf (closeSubs cid g order) cid).disposing = (connOf g cid).disposing ∧
    (connOf (closeSubs cid g order) cid).subs = (connOf g cid).subs := by
  induction order generalizing g with
  | nil => exact ⟨rfl, rfl⟩
  | cons u rest ih =>
    rw [closeSubs_cons]
    obtain ⟨a, b⟩ := ih (closeSub cid g u)
    obtain ⟨a', b'⟩ := closeSub_conn_flags cid g u
    exact ⟨a.trans a', b.trans b'⟩

theorem releasesFor_congr (g g' : Gw) (cid eid : Nat) (order : List Nat)
    (h : ∀ u, subOf g' cid u = subOf g cid u) : releasesFor g' cid eid order = releasesFor g cid eid order := by
  unfold releasesFor releaseOf
  simp only [h]

theorem releasesFor_perm (g : Gw) (cid eid : Nat) (o o' : List Nat) (h : List.Perm o o') :
    List.Perm (releasesFor g cid eid o) (releasesFor g cid eid o') := by
  unfold releasesFor
  exact List.Perm.filterMap _ h

/-- **What `wsConn.dispose` does, in any state of the gateway** (C11). -/
theorem disposeConn_spec (g : Gw) (cid : Nat) (c : Conn)
    (hc : g.conns.find? (·.cid == cid) = some c) (hlive : c.disposing = false)
    (hnd : (c.subs.map (·.2)).Nodup) :
    let g' := ((disposeConn cid).run g).2
    -- the connection is marked, owns no subscription any more, has left the token-reset fan-out
    (connOf g' cid).disposing = true ∧ (connOf g' cid).subs = [] ∧ cid ∉ g'.live ∧
    -- every subscription it had is disposed
    (∀ u ∈ c.subs.map (·.2), (subOf g' cid u).state = .disposed) ∧
    -- every other connection is exactly as before
    (∀ k, k ≠ cid → connOf g' k = connOf g k) ∧
    -- every cache entry keeps its content, count and locks; its queue receives exactly one
    -- `unsubscribe` item per subscription of this connection that held one of its resources
    (∀ eid, ∃ items : List (Nat × CItem),
      tget g'.entries eid = { tget g.entries eid with queue := (tget g.entries eid).queue ++ items } ∧
      List.Perm (items.map (·.2)) (releasesFor g cid eid (c.subs.map (·.2)))) ∧
    -- no request is issued, no throttle or index entry touched, nothing but the connection-event
    -- unsubscribe is emitted
    g'.reqs = g.reqs ∧ g'.throttles = g.throttles ∧ g'.index = g.index ∧
    g'.out = g.out.push s!"U conn.{cname cid}" := by
  intro g'
  have hconn : connOf g cid = c := by unfold connOf; simp [hc]
  have hrun := disposeConn_run g cid
  rw [hconn] at hrun
  simp only [hlive, Bool.false_eq_true, if_false] at hrun
  obtain ⟨hperm, n, hst⟩ := orderedList_plain (c.subs.mergeSort fun a b => !(b.1 < a.1)) (closingStart g cid)
  -- the order is a permutation of the connection's subscriptions
  have hperm2 : List.Perm
      (((orderedList (c.subs.mergeSort fun a b => !(b.1 < a.1)) false).run (closingStart g cid)).1.map (·.2))
      (c.subs.map (·.2)) := (hperm.trans (List.mergeSort_perm _ _)).map _
  generalize hord : ((orderedList (c.subs.mergeSort fun a b => !(b.1 < a.1)) false).run (closingStart g cid)).1.map (·.2) = order at hperm2 hrun
  rw [hst] at hrun
  have hg' : g' = closeSubs cid { closingStart g cid with ordCtr := n } order := hrun
  have hnd' : order.Nodup := (List.Perm.nodup_iff hperm2).mpr hnd
  -- facts about the start state
  have hex1 : (({ closingStart g cid with ordCtr := n } : Gw).conns.find? (·.cid == cid)).isSome := by
    show ((closingStart g cid).conns.find? (·.cid == cid)).isSome
    unfold closingStart
    simp only
    rw [find_map_same g.conns cid (fun d => { d with disposing := true, subs := [] }) (fun _ => rfl)]
    simp [hc]
  have hsub0 : ∀ u, subOf ({ closingStart g cid with ordCtr := n } : Gw) cid u = subOf g cid u :=
    fun u => closingStart_sub g cid u
  have hstart : connOf ({ closingStart g cid with ordCtr := n } : Gw) cid = { c with disposing := true, subs := [] } :=
    closingStart_conn_same g cid c hc
  obtain ⟨hq1, hq2, hq3, hq4, hq5, _⟩ := closeSubs_quiet cid order { closingStart g cid with ordCtr := n }
  obtain ⟨hf1, hf2⟩ := closeSubs_conn_flags cid order { closingStart g cid with ordCtr := n }
  rw [hg']
  refine ⟨?_, ?_, ?_, ?_, ?_, ?_, ?_, ?_, ?_, ?_⟩
  · rw [hf1, hstart]
  · rw [hf2, hstart]
  · rw [hq5]; simp [closingStart]
  · intro u hu
    exact closeSubs_disposes cid order _ hex1 u (Or.inl ((List.Perm.mem_iff hperm2).mpr hu))
  · intro k hk
    rw [closeSubs_other_conn cid order _ k hk]
    exact closingStart_conn_other g cid k hk
  · intro eid
    obtain ⟨items, h1, h2⟩ := closeSubs_entry cid order hnd' { closingStart g cid with ordCtr := n } eid
    refine ⟨items, h1, ?_⟩
    rw [h2, releasesFor_congr g _ cid eid order hsub0]
    exact releasesFor_perm g cid eid _ _ hperm2
  · rw [hq1]; rfl
  · rw [hq3]; rfl
  · rw [hq4]; rfl
  · rw [hq2]; rfl

end Resgate.Gw
