import Resgate.Gw.Reset

namespace Resgate.Gw

theorem mem_validPats (ps : List String) (pat : Pattern) :
    pat ∈ validPats ps ↔ ∃ p ∈ ps, parsePattern (toBytes p) = pat ∧ pat.isValid = true := by
  unfold validPats
  rw [List.mem_filterMap]
  constructor
  · rintro ⟨p, hp, h⟩
    refine ⟨p, hp, ?_⟩
    by_cases hv : (parsePattern (toBytes p)).isValid = true
    · simp only [hv, if_true, Option.some.injEq] at h
      exact ⟨h, h ▸ hv⟩
    · simp [hv] at h
  · rintro ⟨p, hp, rfl, hv⟩
    exact ⟨p, hp, by simp [hv]⟩

theorem mem_resetMatches (index : List (String × Nat)) (pats : List Pattern) (eid : Nat) :
    eid ∈ resetMatches index pats ↔
      ∃ name, (name, eid) ∈ index ∧ ∃ pat ∈ pats, pat.matches (toBytes name) = true := by
  unfold resetMatches
  rw [List.mem_flatMap]
  constructor
  · rintro ⟨⟨name, e⟩, hne, h⟩
    rw [List.mem_map] at h
    obtain ⟨pat, hpat, he⟩ := h
    rw [List.mem_filter] at hpat
    simp only at he
    subst he
    exact ⟨name, hne, pat, hpat.1, hpat.2⟩
  · rintro ⟨name, hne, pat, hp, hm⟩
    refine ⟨(name, eid), hne, ?_⟩
    rw [List.mem_map]
    exact ⟨pat, List.mem_filter.mpr ⟨hp, hm⟩, rfl⟩

/-- How often an entry is handed over: once per matching pattern and index line. -/
theorem count_resetMatches_le (index : List (String × Nat)) (pats : List Pattern) :
    (resetMatches index pats).length ≤ index.length * pats.length := by
  unfold resetMatches
  induction index with
  | nil => simp
  | cons ne r ih =>
    rw [List.flatMap_cons, List.length_append, List.length_map, List.length_cons, Nat.succ_mul]
    have := List.length_filter_le (fun pat : Pattern => pat.matches (toBytes ne.1)) pats
    omega

end Resgate.Gw
