import Resgate.Proofs.Rid

namespace Resgate

/-- What the dispatcher guarantees about a request it hands on. -/
theorem rpcDispatch_req {m : Bytes} {k : RpcKind} {rid method : Bytes}
    (h : rpcDispatch m = .req k rid method) :
    isValidRID rid true = true ∧
    ((k = .call ∨ k = .auth) → isValidRIDPart method = true) := by
  unfold rpcDispatch at h
  split at h
  · split at h <;> simp at h
  · split at h
    · simp at h
    · split at h
      · simp at h
      · split at h
        · rename_i hc
          simp only [Bool.and_eq_true] at hc
          simp only [RpcDispatch.req.injEq] at h
          obtain ⟨hk, hr, hm⟩ := h
          subst hk; subst hr; subst hm
          exact ⟨hc.2, fun _ => hc.1⟩
        · simp at h
    · split at h
      · simp at h
      · split at h
        · rename_i hc
          simp only [Bool.and_eq_true] at hc
          simp only [RpcDispatch.req.injEq] at h
          obtain ⟨hk, hr, hm⟩ := h
          subst hk; subst hr; subst hm
          exact ⟨hc.2, fun _ => hc.1⟩
        · simp at h
    · rename_i k' hk1 hk2
      split at h
      · rename_i hc
        simp only [RpcDispatch.req.injEq] at h
        obtain ⟨hk, hr, hm⟩ := h
        subst hk; subst hr; subst hm
        refine ⟨hc, ?_⟩
        intro hk
        rcases hk with hk | hk
        · exact (k' hk).elim
        · exact (hk1 hk).elim
      · simp at h

/-- No request of the dispatcher reaches the gateway unless the method string has a dot. -/
theorem rpcDispatch_no_dot {m : Bytes} (h : cDot ∉ m) :
    rpcDispatch m = .version ∨ rpcDispatch m = .invalid := by
  have hcut : ∀ s : Bytes, cDot ∉ s → (cutAt cDot s).2 = none := by
    intro s hs
    induction s with
    | nil => rfl
    | cons c cs ih =>
      have hc : c ≠ cDot := by intro e; apply hs; simp [e]
      have hcs : cDot ∉ cs := by intro e; apply hs; simp [e]
      simp [cutAt, hc, ih hcs]
  unfold rpcDispatch
  have := hcut m h
  cases hc : cutAt cDot m with
  | mk a b =>
    rw [hc] at this
    simp only at this
    subst this
    simp only
    split
    · exact Or.inl rfl
    · exact Or.inr rfl

def sPrefixOK (p : Bytes) : Prop := nameOK p = true

theorem hyg_prefix (p name : Bytes) (hp : nameOK p = true) (hn : nameOK name = true) :
    hygienic (p ++ cDot :: name) = true := by
  rw [hygienic_eq_nameOK, nameOK_append_dot, hp, hn]; rfl

theorem hyg_prefix2 (p name m : Bytes) (hp : nameOK p = true) (hn : nameOK name = true)
    (hm : nameOK m = true) : hygienic (p ++ cDot :: name ++ cDot :: m) = true := by
  have : p ++ cDot :: name ++ cDot :: m = (p ++ cDot :: name) ++ cDot :: m := by simp
  rw [hygienic_eq_nameOK, this, nameOK_append_dot, nameOK_append_dot, hp, hn, hm]; rfl

/-- C14 `rpc_subjects`: every subject used for a dispatched client request is hygienic. -/
theorem rpc_subjects_hygienic (m cid : Bytes) (hcid : cid.all okByte = true) (hne : cid ≠ [])
    (k : RpcKind) (rid method : Bytes) (h : rpcDispatch m = .req k rid method) :
    ∀ s ∈ subjectsFor cid k rid method, hygienic s = true := by
  obtain ⟨hv, hm⟩ := rpcDispatch_req h
  have hn := name_ok_of_valid cid rid hcid hne hv
  intro s hs
  cases k <;> simp only [subjectsFor, List.mem_cons, List.not_mem_nil, or_false] at hs
  · rcases hs with rfl | rfl | rfl
    · exact hyg_prefix _ _ (by decide) hn
    · exact hyg_prefix _ _ (by decide) hn
    · exact hyg_prefix _ _ (by decide) hn
  · rcases hs with rfl | rfl | rfl
    · exact hyg_prefix _ _ (by decide) hn
    · exact hyg_prefix _ _ (by decide) hn
    · exact hyg_prefix _ _ (by decide) hn
  · have hmm := nameOK_of_part (hm (Or.inl rfl))
    rcases hs with rfl | rfl
    · exact hyg_prefix _ _ (by decide) hn
    · exact hyg_prefix2 _ _ _ (by decide) hn hmm
  · have hmm := nameOK_of_part (hm (Or.inr rfl))
    rcases hs with rfl
    exact hyg_prefix2 _ _ _ (by decide) hn hmm
  · rcases hs with rfl | rfl
    · exact hyg_prefix _ _ (by decide) hn
    · exact hyg_prefix2 _ _ _ (by decide) hn (by decide)

/-- The same from validity alone: whatever resource id (and method) passes the validators yields
    hygienic subjects — this is what the HTTP handlers rely on after `PathToRID` / `PathToRIDAction`. -/
theorem subjects_hygienic_of_valid (cid : Bytes) (hcid : cid.all okByte = true) (hne : cid ≠ [])
    (k : RpcKind) (rid method : Bytes) (hv : isValidRID rid true = true)
    (hm : (k = .call ∨ k = .auth) → isValidRIDPart method = true) :
    ∀ s ∈ subjectsFor cid k rid method, hygienic s = true := by
  have hn := name_ok_of_valid cid rid hcid hne hv
  intro s hs
  cases k <;> simp only [subjectsFor, List.mem_cons, List.not_mem_nil, or_false] at hs
  · rcases hs with rfl | rfl | rfl
    · exact hyg_prefix _ _ (by decide) hn
    · exact hyg_prefix _ _ (by decide) hn
    · exact hyg_prefix _ _ (by decide) hn
  · rcases hs with rfl | rfl | rfl
    · exact hyg_prefix _ _ (by decide) hn
    · exact hyg_prefix _ _ (by decide) hn
    · exact hyg_prefix _ _ (by decide) hn
  · have hmm := nameOK_of_part (hm (Or.inl rfl))
    rcases hs with rfl | rfl
    · exact hyg_prefix _ _ (by decide) hn
    · exact hyg_prefix2 _ _ _ (by decide) hn hmm
  · have hmm := nameOK_of_part (hm (Or.inr rfl))
    rcases hs with rfl
    exact hyg_prefix2 _ _ _ (by decide) hn hmm
  · rcases hs with rfl | rfl
    · exact hyg_prefix _ _ (by decide) hn
    · exact hyg_prefix2 _ _ _ (by decide) hn (by decide)

end Resgate
