import Resgate.Gw.Cache

/-
The version-stamp mechanism (C01, C03): the resource stamps every event with the version it
targets and bumps the version for state events; a subscriber drops events whose stamp differs
from its own version and bumps on state events.  `snapshot_replay` is the statement that a
subscriber that joins at any point and reads the snapshot (value, version) at any later point ends
exactly at the resource's value and version.
-/

namespace Resgate.Snap

structure Ev (α : Type) where
  upd : Option α      -- some d : a state-changing event carrying d; none : custom event
  ver : Nat

/-- resource state: applied updates (stands for the value) and version -/
abbrev RS (α : Type) := List α × Nat

def RS.step {α} (s : RS α) (o : Option α) : RS α :=
  match o with
  | some d => (s.1 ++ [d], s.2 + 1)
  | none => s

/-- the resource emits a stamped stream (`handleEvent`: stamp with the current version, then apply) -/
def emit {α} : RS α → List (Option α) → List (Ev α)
  | _, [] => []
  | s, o :: os => ⟨o, s.2⟩ :: emit (s.step o) os

def RS.run {α} (s : RS α) (os : List (Option α)) : RS α := os.foldl RS.step s

/-- subscriber: value, version, delivered events -/
structure Sub (α : Type) where
  val : List α
  ver : Nat
  delivered : List (Ev α)

/-- `processEvent`, written with the model's own gate function `Gw.subGate`. -/
def Sub.proc {α} (s : Sub α) (e : Ev α) : Sub α :=
  match Gw.subGate s.ver e.ver e.upd.isSome with
  | none => s
  | some v' =>
    match e.upd with
    | some d => ⟨s.val ++ [d], v', s.delivered ++ [e]⟩
    | none => ⟨s.val, v', s.delivered ++ [e]⟩

theorem Sub.proc_eq {α} (s : Sub α) (e : Ev α) :
    s.proc e = if s.ver ≠ e.ver then s else
      match e.upd with
      | some d => ⟨s.val ++ [d], s.ver + 1, s.delivered ++ [e]⟩
      | none => ⟨s.val, s.ver, s.delivered ++ [e]⟩ := by
  unfold Sub.proc Gw.subGate
  cases h : e.upd <;> by_cases hv : s.ver = e.ver <;> simp [hv]

def Sub.runEvs {α} (s : Sub α) (es : List (Ev α)) : Sub α := es.foldl Sub.proc s

/-- In sync: a subscriber holding exactly the resource's state follows the stream exactly. -/
theorem insync {α} (os : List (Option α)) (r : RS α) (d : List (Ev α)) :
    (Sub.runEvs ⟨r.1, r.2, d⟩ (emit r os)).val = (r.run os).1 ∧
    (Sub.runEvs ⟨r.1, r.2, d⟩ (emit r os)).ver = (r.run os).2 ∧
    (Sub.runEvs ⟨r.1, r.2, d⟩ (emit r os)).delivered = d ++ emit r os := by
  induction os generalizing r d with
  | nil => simp [Sub.runEvs, emit, RS.run]
  | cons o os ih =>
    cases o with
    | none =>
      have := ih r (d ++ [⟨none, r.2⟩])
      simpa [Sub.runEvs, emit, RS.run, RS.step, Sub.proc_eq, List.append_assoc] using this
    | some a =>
      have := ih (r.1 ++ [a], r.2 + 1) (d ++ [⟨some a, r.2⟩])
      simpa [Sub.runEvs, emit, RS.run, RS.step, Sub.proc_eq, List.append_assoc] using this

/-- version never decreases along the resource's run -/
theorem ver_mono {α} (os : List (Option α)) (r : RS α) : r.2 ≤ (r.run os).2 := by
  induction os generalizing r with
  | nil => simp [RS.run]
  | cons o os ih =>
    cases o with
    | none => simpa [RS.run, RS.step] using ih r
    | some a =>
      have := ih (r.1 ++ [a], r.2 + 1)
      simp only [RS.run, List.foldl_cons, RS.step] at *
      omega

/-- Stale prefix: events emitted before the snapshot point never change a subscriber that already
    holds the snapshot; only custom events stamped with the snapshot version are delivered. -/
theorem stale {α} (os : List (Option α)) (r : RS α) (V : List α) (d : List (Ev α)) :
    let q := r.run os
    (Sub.runEvs ⟨V, q.2, d⟩ (emit r os)).val = V ∧
    (Sub.runEvs ⟨V, q.2, d⟩ (emit r os)).ver = q.2 ∧
    ∀ e ∈ (Sub.runEvs ⟨V, q.2, d⟩ (emit r os)).delivered, e ∈ d ∨ (e.upd = none ∧ e.ver = q.2) := by
  induction os generalizing r d with
  | nil =>
    simp only [Sub.runEvs, emit, RS.run, List.foldl_nil, true_and]
    intro e he; exact Or.inl he
  | cons o os ih =>
    cases o with
    | none =>
      by_cases h : (r.run (none :: os)).2 = r.2
      · have := ih r (d ++ [⟨none, r.2⟩])
        simp only [RS.run, List.foldl_cons, RS.step] at h this ⊢
        simp only [Sub.runEvs, emit, List.foldl_cons, Sub.proc_eq, RS.step, h, ne_eq, not_true_eq_false, if_false]
        simp only [Sub.runEvs, h] at this
        refine ⟨this.1, this.2.1, ?_⟩
        intro e he
        rcases this.2.2 e he with h1 | h1
        · rcases List.mem_append.mp h1 with h2 | h2
          · exact Or.inl h2
          · simp at h2; subst h2; exact Or.inr ⟨rfl, by simp [h]⟩
        · exact Or.inr h1
      · have := ih r d
        simp only [RS.run, List.foldl_cons, RS.step] at h this ⊢
        simp only [Sub.runEvs, emit, List.foldl_cons, Sub.proc_eq, RS.step, ne_eq, h, not_false_eq_true, if_true]
        simpa [Sub.runEvs] using this
    | some a =>
      have hm := ver_mono os (r.1 ++ [a], r.2 + 1)
      have := ih (r.1 ++ [a], r.2 + 1) d
      simp only [RS.run, List.foldl_cons, RS.step] at hm this ⊢
      have hne : (List.foldl RS.step (r.1 ++ [a], r.2 + 1) os).2 ≠ r.2 := by omega
      simp only [Sub.runEvs, emit, List.foldl_cons, Sub.proc_eq, RS.step, ne_eq, hne, not_false_eq_true, if_true]
      simpa [Sub.runEvs] using this

theorem emit_append {α} (r : RS α) (xs ys : List (Option α)) :
    emit r (xs ++ ys) = emit r xs ++ emit (r.run xs) ys := by
  induction xs generalizing r with
  | nil => simp [emit, RS.run]
  | cons o os ih => simp [emit, RS.run, ih (r.step o)]

/-- Snapshot replay. -/
theorem snapshot_replay {α} (r0 : RS α) (pre mid post : List (Option α)) :
    let rp := r0.run pre          -- subscriber added here
    let rq := rp.run mid          -- snapshot read here
    let rE := rq.run post
    let s := Sub.runEvs ⟨rq.1, rq.2, []⟩ (emit rp (mid ++ post))
    s.val = rE.1 ∧ s.ver = rE.2 ∧
    ∃ old, s.delivered = old ++ emit rq post ∧ ∀ e ∈ old, e.upd = none ∧ e.ver = rq.2 := by
  intro rp rq rE s
  have h1 := stale mid rp rq.1 []
  simp only at h1
  obtain ⟨hv, hver, hd⟩ := h1
  have hs : s = Sub.runEvs (Sub.runEvs ⟨rq.1, rq.2, []⟩ (emit rp mid)) (emit rq post) := by
    simp [s, emit_append, Sub.runEvs, List.foldl_append, rq]
  generalize hm : Sub.runEvs ⟨rq.1, rq.2, []⟩ (emit rp mid) = m at hs hv hver hd
  have hm' : m = ⟨rq.1, rq.2, m.delivered⟩ := by
    cases m; simp_all [rq]
  have h2 := insync post rq m.delivered
  rw [← hm'] at h2
  rw [hs]
  refine ⟨h2.1, h2.2.1, m.delivered, h2.2.2, ?_⟩
  intro e he
  rcases hd e he with h | h
  · simp at h
  · exact h

end Resgate.Snap

namespace Resgate.Gw

/-- The cache side of the mechanism in the gateway model: an accepted state event bumps the
    resource's version by exactly one, is marked `update`, and keeps its stamp. -/
theorem applyStateEvent_some {r r' : Res} {ev ev' : REv} (h : applyStateEvent r ev = some (r', ev')) :
    r'.version = r.version + 1 ∧ ev'.update = true ∧ ev'.version = ev.version ∧ ev'.name = ev.name := by
  unfold applyStateEvent at h
  split at h
  · split at h
    · simp at h
    · simp only at h
      split at h
      · simp at h
      · simp only [Option.some.injEq, Prod.mk.injEq] at h
        obtain ⟨rfl, rfl⟩ := h; simp
  · split at h
    · simp at h
    · split at h
      · simp at h
      · simp only [Option.some.injEq, Prod.mk.injEq] at h
        obtain ⟨rfl, rfl⟩ := h; simp
  · split at h
    · simp at h
    · split at h
      · simp at h
      · simp only [Option.some.injEq, Prod.mk.injEq] at h
        obtain ⟨rfl, rfl⟩ := h; simp
  · simp at h

/-- Kind and bounds checks: a change never applies to a collection, add/remove never to a model,
    and an accepted add / remove index lies within the current collection bounds. -/
theorem applyStateEvent_checks {r r' : Res} {ev ev' : REv} (h : applyStateEvent r ev = some (r', ev')) :
    (ev.name = "change" → r.state ≠ .collection) ∧
    (ev.name = "add" → r.state ≠ .model ∧ 0 ≤ ev'.idx ∧ ev'.idx ≤ r.coll.length) ∧
    (ev.name = "remove" → r.state ≠ .model ∧ 0 ≤ ev'.idx ∧ ev'.idx < r.coll.length) := by
  unfold applyStateEvent at h
  split at h
  · rename_i hn _
    split at h
    · simp at h
    · rename_i hs
      refine ⟨fun _ => by simpa using hs, ?_, ?_⟩ <;> intro hc <;> simp [hn] at hc
  · rename_i hn _
    split at h
    · simp at h
    · rename_i hs
      split at h
      · simp at h
      · rename_i hb
        simp only [Option.some.injEq, Prod.mk.injEq] at h
        obtain ⟨_, rfl⟩ := h
        simp only [Bool.or_eq_true, decide_eq_true_eq, not_or, Int.not_lt] at hb
        refine ⟨fun hc => by simp [hn] at hc, fun _ => ⟨by simpa using hs, by simpa using hb.1, by simpa using hb.2⟩, fun hc => by simp [hn] at hc⟩
  · rename_i hn _
    split at h
    · simp at h
    · rename_i hs
      split at h
      · simp at h
      · rename_i hb
        simp only [Option.some.injEq, Prod.mk.injEq] at h
        obtain ⟨_, rfl⟩ := h
        simp only [Bool.or_eq_true, decide_eq_true_eq, not_or, Int.not_lt, Int.not_le] at hb
        refine ⟨fun hc => by simp [hn] at hc, fun hc => by simp [hn] at hc, fun _ => ⟨by simpa using hs, by simpa using hb.1, by simpa using hb.2⟩⟩
  · simp at h

/-- Malformed or inapplicable state events are discarded as a whole. -/
theorem applyStateEvent_bad (r : Res) (ev : REv) (h : ev.data = .bad) : applyStateEvent r ev = none := by
  unfold applyStateEvent
  split <;> simp_all

theorem applyStateEvent_wrong_kind (r : Res) (ev : REv) :
    (ev.name = "change" → r.state = .collection → applyStateEvent r ev = none) ∧
    (ev.name = "add" → r.state = .model → applyStateEvent r ev = none) ∧
    (ev.name = "remove" → r.state = .model → applyStateEvent r ev = none) := by
  refine ⟨?_, ?_, ?_⟩ <;> intro hn hs <;> unfold applyStateEvent <;> split <;> simp_all

end Resgate.Gw
