import Resgate.Model.Http

namespace Resgate

/-! ### status -/

theorem isDirectStatus_iff (s : Int) : isDirectStatus (some s) = true ↔ 300 ≤ s ∧ s < 600 := by
  simp [isDirectStatus]

theorem isValidStatus_iff (s : Int) : isValidStatus (some s) = true ↔ 300 ≤ s ∧ s < 600 := by
  simp [isValidStatus]

/-- Any code outside the nine listed ones maps to 400. -/
theorem errorStatus_default (code : String)
    (h : code ∉ ["system.notFound", "system.methodNotFound", "system.timeout", "system.accessDenied",
      "system.methodNotAllowed", "system.internalError", "system.serviceUnavailable",
      "system.forbidden", "system.subjectTooLong"]) : errorStatus code = 400 := by
  simp only [List.mem_cons, List.not_mem_nil, or_false, not_or] at h
  obtain ⟨h1, h2, h3, h4, h5, h6, h7, h8, h9⟩ := h
  simp [errorStatus, h1, h2, h3, h4, h5, h6, h7, h8, h9]

/-! ### header merging -/

theorem hdrGet_filter_ne (h : Headers) (k k' : Bytes) (hne : k' ≠ k) :
    hdrGet (h.filter (fun p => p.1 ≠ k)) k' = hdrGet h k' := by
  unfold hdrGet
  induction h with
  | nil => rfl
  | cons p ps ih =>
    by_cases hp : p.1 = k
    · have hpk' : ¬ p.1 = k' := by rw [hp]; exact fun e => hne e.symm
      have hkk : ¬ k = k' := fun e => hne e.symm
      simp only [List.filter_cons, hp, ne_eq, not_true_eq_false, decide_false, Bool.false_eq_true,
        if_false, List.find?_cons, hkk]
      exact ih
    · simp only [List.filter_cons, hp, ne_eq, not_false_eq_true, decide_true, if_true,
        List.find?_cons]
      by_cases hp' : p.1 = k'
      · simp [hp']
      · simp only [hp', decide_false]
        exact ih

theorem hdrGet_hdrSet_ne (h : Headers) (k k' : Bytes) (v : List Bytes) (hne : k' ≠ k) :
    hdrGet (hdrSet h k v) k' = hdrGet h k' := by
  unfold hdrSet
  have : hdrGet ((k, v) :: h.filter (fun p => p.1 ≠ k)) k' = hdrGet (h.filter (fun p => p.1 ≠ k)) k' := by
    unfold hdrGet
    simp [List.find?_cons, hne.symm]
  rw [this, hdrGet_filter_ne h k k' hne]

theorem hdrGet_hdrSet_eq (h : Headers) (k : Bytes) (v : List Bytes) :
    hdrGet (hdrSet h k v) k = some v := by
  simp [hdrSet, hdrGet, List.find?_cons]

/-- C17 `merge_protects`: whatever a service puts into its meta header, merging never changes the
    five protected entries of the response header. -/
theorem merge_protects (a b : Headers) (k : Bytes) (hk : k ∈ protectedNames) :
    hdrGet (mergeHeader a b) k = hdrGet a k := by
  induction b generalizing a with
  | nil => rfl
  | cons p ps ih =>
    obtain ⟨k', v⟩ := p
    simp only [mergeHeader]
    split
    · exact ih a
    · rename_i hnp
      have hne : k ≠ k' := by
        intro e; subst e
        apply hnp
        simpa using hk
      split
      · rw [ih]; exact hdrGet_hdrSet_ne _ _ _ _ hne
      · rw [ih]; exact hdrGet_hdrSet_ne _ _ _ _ hne

/-- `Set-Cookie` values accumulate. -/
theorem set_cookie_accumulates (a : Headers) (v : List Bytes) :
    hdrGet (mergeHeader a [(hSetCookie, v)]) hSetCookie
      = some ((hdrGet a hSetCookie).getD [] ++ v) := by
  have hnp : protectedNames.contains hSetCookie = false := by decide
  simp only [mergeHeader, hnp, Bool.false_eq_true, if_false, if_true]
  exact hdrGet_hdrSet_eq _ _ _

/-! ### canonical header names -/

theorem toUpper_toLower (c : Nat) : toUpperByte (toLowerByte c) = toUpperByte c := by
  simp only [toUpperByte, toLowerByte, isUpper, isLower]
  grind

theorem toLower_toLower (c : Nat) : toLowerByte (toLowerByte c) = toLowerByte c := by
  simp only [toLowerByte, isUpper]
  grind

theorem canonLoop_lower (u : Bool) (k : Bytes) :
    canonLoop u (toLowerASCII k) = canonLoop u k := by
  induction k generalizing u with
  | nil => rfl
  | cons c cs ih =>
    simp only [toLowerASCII, List.map_cons, canonLoop]
    cases u
    · simp only [Bool.false_eq_true, if_false, toLower_toLower]
      exact congrArg _ (ih _)
    · simp only [if_true, toUpper_toLower]
      exact congrArg _ (ih _)

theorem isTokenByte_lower (c : Nat) : isTokenByte (toLowerByte c) = isTokenByte c := by
  simp only [toLowerByte]
  split
  · rename_i h
    simp only [isUpper, Bool.and_eq_true, decide_eq_true_eq] at h
    have h1 : isLower (c + 32) = true := by simp [isLower]; omega
    simp [isTokenByte, h1, isUpper, h.1, h.2]
  · rfl

theorem all_token_lower (k : Bytes) : (toLowerASCII k).all isTokenByte = k.all isTokenByte := by
  induction k with
  | nil => rfl
  | cons c cs ih =>
    simp only [toLowerASCII, List.map_cons, List.all_cons, isTokenByte_lower] at *
    rw [ih]

theorem canonicalMIME_lower_of_token (k : Bytes) (h : k.all isTokenByte = true) :
    canonicalMIME k = canonLoop true (toLowerASCII k) := by
  simp [canonicalMIME, h, canonLoop_lower]

/-- C17: every spelling of a protected header name (any letter case) is canonicalised to exactly
    the protected key, hence never merged. -/
theorem canon_protected (k p : Bytes) (hp : p ∈ protectedNames)
    (heq : toLowerASCII k = toLowerASCII p) : canonicalMIME k = p := by
  have htok : k.all isTokenByte = true := by
    rw [← all_token_lower, heq, all_token_lower]
    simp only [protectedNames, List.mem_cons, List.not_mem_nil, or_false] at hp
    rcases hp with rfl | rfl | rfl | rfl | rfl <;> decide
  rw [canonicalMIME_lower_of_token k htok, heq, canonLoop_lower]
  simp only [protectedNames, List.mem_cons, List.not_mem_nil, or_false] at hp
  rcases hp with rfl | rfl | rfl | rfl | rfl <;> decide

/-! ### origins -/

/-- C17 `origin_spec` for one allow-list entry (entries are lower-cased by the configuration). -/
theorem originMatch_iff (s o : Bytes) (hs : toLowerASCII s = s) :
    originMatch s o = true ↔ s = toLowerASCII o := by
  induction s generalizing o with
  | nil => cases o <;> simp [originMatch, toLowerASCII]
  | cons sc s ih =>
    cases o with
    | nil => simp [originMatch, toLowerASCII]
    | cons tc t =>
      simp only [toLowerASCII, List.map_cons, List.cons.injEq] at hs
      have ih' := ih t (by simpa [toLowerASCII] using hs.2)
      simp only [originMatch, Bool.and_eq_true, Bool.or_eq_true, decide_eq_true_eq, ih',
        toLowerASCII, List.map_cons, List.cons.injEq]
      constructor
      · rintro ⟨h | h, h2⟩
        · subst h
          exact ⟨hs.1.symm, h2⟩
        · exact ⟨h, h2⟩
      · rintro ⟨h, h2⟩
        exact ⟨Or.inr h, h2⟩

theorem matchesOrigins_iff (os : List Bytes) (o : Bytes) (hos : ∀ s ∈ os, toLowerASCII s = s) :
    matchesOrigins os o = true ↔ toLowerASCII o ∈ os := by
  unfold matchesOrigins
  rw [List.any_eq_true]
  constructor
  · rintro ⟨s, hs, hm⟩
    rw [originMatch_iff s o (hos s hs)] at hm
    rw [← hm]; exact hs
  · intro h
    exact ⟨_, h, (originMatch_iff _ o (hos _ h)).mpr rfl⟩

end Resgate
