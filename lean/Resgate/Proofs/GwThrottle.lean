import Resgate.Gw.Pure
import Resgate.Proofs.Throttle

/-
The throttle of the gateway model (`Gw.ThrottleS`, whose waiting callbacks are job ids) is the
throttle of `Model/Throttle.lean` (the one the theorems of C19 are about and the suite `throttle`
compares with `server/rescache/throttle.go` operation by operation).
-/

namespace Resgate.Gw

def ThrottleS.toModel (t : ThrottleS) : Resgate.Throttle := ⟨t.limit, t.running, t.queue⟩

/-- `Add` in the gateway model is `Throttle.step (.add jid)`. -/
theorem ThrottleS.add_refines (t : ThrottleS) (jid : Nat) :
    t.toModel.step (.add jid) =
      some (if t.full then ((t.enqueue jid).toModel, []) else (t.start.toModel, [jid])) := by
  simp only [Resgate.Throttle.step, toModel, full, enqueue, start]
  by_cases h : t.running ≥ t.limit <;> simp [h]

/-- `Done` in the gateway model is `Throttle.step .done`: the same panic, the same successor, the
    same callback started. -/
theorem ThrottleS.done_refines (t : ThrottleS) :
    t.toModel.step .done = t.done.map (fun p => (p.1.toModel, p.2.toList)) := by
  simp only [Resgate.Throttle.step, toModel, done]
  by_cases h : t.running ≤ 0
  · simp [h]
  · simp only [h, if_false]
    cases t.queue <;> simp

end Resgate.Gw
