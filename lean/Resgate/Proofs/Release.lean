import Resgate.Proofs.Close
import Resgate.Gw.Cache

namespace Resgate.Gw

theorem unregisterRes_spec (e : Entry) (rs : Nat) :
    (e.unregisterRes rs).count = e.count ∧ (e.unregisterRes rs).queue = e.queue ∧
    (e.unregisterRes rs).locks = e.locks ∧ (e.unregisterRes rs).evictPending = e.evictPending ∧
    (e.unregisterRes rs).mqSub = e.mqSub ∧ (e.unregisterRes rs).name = e.name ∧
    tget (e.unregisterRes rs).ress rs = { tget e.ress rs with links := [] } ∧
    (∀ r', r' ≠ rs → tget (e.unregisterRes rs).ress r' = tget e.ress r') := by
  unfold Entry.unregisterRes Entry.withIdx
  refine ⟨rfl, rfl, rfl, rfl, rfl, rfl, ?_, ?_⟩
  · simp only; rw [tget_tset_self]
  · intro r' h; simp only; rw [tget_tset_ne _ _ h]

/-- **The cache side of a release** (`ResourceSubscription.Unsubscribe`): exactly that subscriber
    leaves exactly that resource; the resource's content, every other resource of the entry, the
    entry's queue, locks and count are untouched (the count is given back by `removeCount 1`
    right after, C09). -/
theorem dropSub_spec (e : Entry) (rs : Nat) (sub : SubRef) :
    (e.dropSub rs sub).count = e.count ∧ (e.dropSub rs sub).queue = e.queue ∧
    (e.dropSub rs sub).locks = e.locks ∧ (e.dropSub rs sub).evictPending = e.evictPending ∧
    (e.dropSub rs sub).mqSub = e.mqSub ∧ (e.dropSub rs sub).name = e.name ∧
    (tget (e.dropSub rs sub).ress rs).subs = (tget e.ress rs).subs.filter (· != sub) ∧
    (tget (e.dropSub rs sub).ress rs).model = (tget e.ress rs).model ∧
    (tget (e.dropSub rs sub).ress rs).coll = (tget e.ress rs).coll ∧
    (tget (e.dropSub rs sub).ress rs).version = (tget e.ress rs).version ∧
    (tget (e.dropSub rs sub).ress rs).state = (tget e.ress rs).state ∧
    (∀ r', r' ≠ rs → tget (e.dropSub rs sub).ress r' = tget e.ress r') := by
  unfold Entry.dropSub
  simp only
  split
  · obtain ⟨h1, h2, h3, h4, h5, h6, h7, h8⟩ :=
      unregisterRes_spec { e with ress := tset e.ress rs { tget e.ress rs with subs := (tget e.ress rs).subs.filter (· != sub) } } rs
    refine ⟨h1, h2, h3, h4, h5, h6, ?_, ?_, ?_, ?_, ?_, ?_⟩
    · rw [h7]; simp only; rw [tget_tset_self]
    · rw [h7]; simp only; rw [tget_tset_self]
    · rw [h7]; simp only; rw [tget_tset_self]
    · rw [h7]; simp only; rw [tget_tset_self]
    · rw [h7]; simp only; rw [tget_tset_self]
    · intro r' h; rw [h8 r' h]; simp only; rw [tget_tset_ne _ _ h]
  · refine ⟨rfl, rfl, rfl, rfl, rfl, rfl, ?_, ?_, ?_, ?_, ?_, ?_⟩
    · simp only; rw [tget_tset_self]
    · simp only; rw [tget_tset_self]
    · simp only; rw [tget_tset_self]
    · simp only; rw [tget_tset_self]
    · simp only; rw [tget_tset_self]
    · intro r' h; simp only; rw [tget_tset_ne _ _ h]

/-- The count part: one use is given back. -/
theorem release_count (count : Int) (pending : Bool) : (removeCountPure count 1 pending).1 = count - 1 := by
  unfold removeCountPure; dsimp only; split <;> rfl


theorem mem_filter_ne_false (l : List SubRef) (sub : SubRef) : (l.filter (· != sub)).contains sub = false := by
  induction l with
  | nil => rfl
  | cons x xs ih =>
    by_cases h : x = sub
    · subst h; simp [List.filter_cons, ih]
    · have hb : (x != sub) = true := by simpa using h
      have hc : (sub == x) = false := by simpa using (fun e : sub = x => h e.symm)
      simp only [List.filter_cons, hb, if_true, List.contains_cons, hc, Bool.false_or, ih]

/-- **Every user releases at most once**: once a subscriber has been released from a resource, a
    second release of the same subscriber (a delete event or error answer it had not processed yet,
    followed by its own dispose; the repaired `ResourceSubscription.Unsubscribe`) finds it gone and
    gives nothing back. -/
theorem release_twice_is_once (e : Entry) (rs : Nat) (sub : SubRef) :
    (e.dropSub rs sub).release rs sub = none := by
  unfold Entry.release
  have h := (dropSub_spec e rs sub).2.2.2.2.2.2.1
  rw [h, mem_filter_ne_false]
  rfl

theorem release_some_iff (e : Entry) (rs : Nat) (sub : SubRef) :
    (e.release rs sub).isSome = (tget e.ress rs).subs.contains sub := by
  unfold Entry.release
  cases h : (tget e.ress rs).subs.contains sub <;> simp

end Resgate.Gw
