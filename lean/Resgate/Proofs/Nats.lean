import Resgate.Model.Nats

namespace Resgate.Nats

theorem run_done (is : List In) : run .done is = (.done, []) := by
  induction is with
  | nil => rfl
  | cons i is ih => simp [run, step, ih]

/-- A step either invokes no callback, or invokes one and completes the request. -/
theorem step_cases (s : St) (i : In) : (step s i).2 = none ∨ ∃ c, step s i = (.done, some c) := by
  cases s with
  | done => left; rfl
  | pending t g =>
    cases i with
    | reply => right; exact ⟨.reply, by cases t <;> rfl⟩
    | noResponders => right; exact ⟨.notFound, by cases t <;> rfl⟩
    | pre b => left; cases b <;> cases t <;> rfl
    | fireQueue => cases t with
      | queue => right; exact ⟨.timeout, rfl⟩
      | extended k => left; rfl
    | fireExtended k => cases t with
      | queue => left; rfl
      | extended k' =>
        simp only [step]
        by_cases h : k = k'
        · right; exact ⟨.timeout, by simp [h]⟩
        · left; simp [h]

/-- For every sequence of replies, pre-responses and timer fires: the completion callback is
    invoked at most once. -/
theorem at_most_once (s : St) (is : List In) : (run s is).2.length ≤ 1 := by
  induction is generalizing s with
  | nil => simp [run]
  | cons i is ih =>
    simp only [run]
    rcases step_cases s i with h | ⟨c, h⟩
    · rw [h]; simpa using ih _
    · rw [h]; simp [run_done]

/-- Once completed, nothing further is ever delivered (never both a reply and a timeout). -/
theorem done_is_final (is : List In) : (run .done is).2 = [] := by rw [run_done]

/-- A pending request always has exactly one live timer that can complete it: either its queue
    slot or the extended timer of the current generation. -/
theorem live_timer_completes (t : Timer) (g : Nat) :
    (match t with
     | .queue => step (.pending t g) .fireQueue
     | .extended k => step (.pending t g) (.fireExtended k)) = (.done, some .timeout) := by
  cases t <;> simp [step]

/-- The first actual reply wins; a no-responders status yields notFound. -/
theorem first_reply_wins (t : Timer) (g : Nat) :
    step (.pending t g) .reply = (.done, some .reply) ∧
    step (.pending t g) .noResponders = (.done, some .notFound) := by
  cases t <;> simp [step]

/-- The guard is exact: a request is refused iff its control line would not fit. -/
theorem guard_spec (n d : Nat) : requestRefused n d = true ↔ pubArgLen n d > maxControlLine := by
  simp [requestRefused]

/-- … hence whatever passes the guard fits the server's control line. -/
theorem guard_sound (n d : Nat) (h : requestRefused n d = false) : pubArgLen n d ≤ maxControlLine := by
  simp [requestRefused] at h; omega

/-- The guard before the repair did not bound what the server measures (D6, fixed): a subject of
    4066 bytes passed it although `subject SP reply SP size` has 4098 bytes. -/
theorem old_guard_counterexample : requestRefusedOld 4066 = false ∧ pubArgLen 4066 1 > maxControlLine := by
  decide

end Resgate.Nats
