import Resgate.Model.Encode

namespace Resgate.Enc

/-- Every reference value in the graph points to a node of the graph. -/
def valResolves (g : HGraph) : HVal → Prop
  | .ref rid => (lookup g rid).isSome = true
  | _ => True

def Closed (g : HGraph) : Prop :=
  ∀ rid n, lookup g rid = some n →
    match n with
    | .err _ => True
    | .model kvs => ∀ kv ∈ kvs, valResolves g kv.2
    | .coll vs => ∀ v ∈ vs, valResolves g v

theorem encVals_isSome (g : HGraph) (pref : String) (flat : Bool) (path : List String) (vs : List HVal)
    (h : ∀ v ∈ vs, (encVal g pref flat path v).isSome = true) :
    (encVals g pref flat path vs).isSome = true := by
  induction vs with
  | nil => rw [encVals]; rfl
  | cons v rest ih =>
    cases rest with
    | nil => rw [encVals]; exact h v (by simp)
    | cons v2 rest2 =>
      rw [encVals]
      have h1 := h v (by simp)
      have h2 := ih (fun x hx => h x (by simp [hx]))
      cases ha : encVal g pref flat path v with
      | none => simp [ha] at h1
      | some a =>
        cases hb : encVals g pref flat path (v2 :: rest2) with
        | none => simp [hb] at h2
        | some b => rfl

theorem encKVs_isSome (g : HGraph) (pref : String) (flat : Bool) (path : List String) (kvs : List (String × HVal))
    (h : ∀ kv ∈ kvs, (encVal g pref flat path kv.2).isSome = true) :
    (encKVs g pref flat path kvs).isSome = true := by
  induction kvs with
  | nil => rw [encKVs]; rfl
  | cons kv rest ih =>
    obtain ⟨k, v⟩ := kv
    cases rest with
    | nil =>
      rw [encKVs]
      have h1 := h (k, v) (by simp)
      cases ha : encVal g pref flat path v with
      | none => simp [ha] at h1
      | some a => rfl
    | cons kv2 rest2 =>
      rw [encKVs]
      have h1 := h (k, v) (by simp)
      have h2 := ih (fun x hx => h x (by simp [hx]))
      cases ha : encVal g pref flat path v with
      | none => simp [ha] at h1
      | some a =>
        cases hb : encKVs g pref flat path (kv2 :: rest2) with
        | none => simp [hb] at h2
        | some b => rfl

/-- Termination with a result: on a closed graph the encoder returns a body for every resource,
    whatever the cycles (by strong induction on the number of nodes not on the path). -/
theorem encSub_isSome (g : HGraph) (hc : Closed g) (pref : String) (flat : Bool) :
    ∀ (n : Nat) (path : List String), offPath g path = n → ∀ (rid : String) (wrap : Bool),
      (rid ∈ path ∨ (lookup g rid).isSome = true) →
      (encSub g pref flat path rid wrap).isSome = true := by
  intro n
  induction n using Nat.strongRecOn with
  | _ n ih =>
    intro path hn rid wrap hr
    rw [encSub]
    by_cases hp : rid ∈ path
    · simp [hp]
    · simp only [hp, dite_false]
      have hl : (lookup g rid).isSome = true := by
        rcases hr with h | h
        · exact absurd h hp
        · exact h
      have hval : ∀ v, valResolves g v → (encVal g pref flat (rid :: path) v).isSome = true := by
        intro v hv
        cases v with
        | prim raw => rw [encVal]; rfl
        | data inner => rw [encVal]; rfl
        | soft r => rw [encVal]; rfl
        | ref r =>
          rw [encVal]
          have hnode : ∃ nd, lookup g rid = some nd := by
            cases h : lookup g rid with
            | none => simp [h] at hl
            | some nd => exact ⟨nd, rfl⟩
          obtain ⟨nd, hnd⟩ := hnode
          have hlt := offPath_lt g path rid nd hnd hp
          exact ih (offPath g (rid :: path)) (by omega) (rid :: path) rfl r true (Or.inr hv)
      split
      · rename_i heq; simp [heq] at hl
      · rfl
      · rename_i kvs heq
        have hcl := hc rid _ heq
        simp only at hcl
        have := encKVs_isSome g pref flat (rid :: path) kvs (fun kv hkv => hval kv.2 (hcl kv hkv))
        cases hb : encKVs g pref flat (rid :: path) kvs with
        | none => simp [hb] at this
        | some b => rfl
      · rename_i vs heq
        have hcl := hc rid _ heq
        simp only at hcl
        have := encVals_isSome g pref flat (rid :: path) vs (fun v hv => hval v (hcl v hv))
        cases hb : encVals g pref flat (rid :: path) vs with
        | none => simp [hb] at this
        | some b => rfl

theorem encodeGET_isSome (g : HGraph) (hc : Closed g) (pref : String) (flat : Bool) (rid : String)
    (h : (lookup g rid).isSome = true) : (encodeGET g pref flat rid).isSome = true :=
  encSub_isSome g hc pref flat _ [] rfl rid false (Or.inr h)

/-- A reference that would re-enter a resource already on the expansion path is rendered as href
    only (both encoders). -/
theorem encSub_reentry (g : HGraph) (pref : String) (flat : Bool) (path : List String) (rid : String)
    (h : rid ∈ path) : encSub g pref flat path rid true = some (href rid pref ++ "}") := by
  rw [encSub]
  cases flat <;> simp [h]

/-- Soft references are href only; data values are emitted unwrapped; primitives verbatim. -/
theorem encVal_leaves (g : HGraph) (pref : String) (flat : Bool) (path : List String) (rid raw : String) :
    encVal g pref flat path (.soft rid) = some (href rid pref ++ "}") ∧
    encVal g pref flat path (.data raw) = some raw ∧
    encVal g pref flat path (.prim raw) = some raw := by
  refine ⟨?_, ?_, ?_⟩ <;> rw [encVal]

/-- A failed reference is rendered as its error (wrapped with href in the `json` encoding). -/
theorem encSub_error (g : HGraph) (pref : String) (path : List String) (rid e : String)
    (hp : rid ∉ path) (hl : lookup g rid = some (.err e)) :
    encSub g pref false path rid true = some (href rid pref ++ ",\"error\":" ++ e ++ "}") ∧
    encSub g pref true path rid true = some e := by
  constructor <;> (rw [encSub]; simp only [hp, dite_false]; split <;> simp_all)

end Resgate.Enc
