import Resgate.Gw.Collector
import Resgate.Proofs.Populate

/-
The repaired collector (`tryDelete` with its table keyed by subscription object) never meets, in
its second traversal, a subscription that the first traversal did not register — for every
connection state (any reference graph, including disposed subscriptions that are still referenced
and several subscription objects for one resource id) and every iteration order of the `refs` maps.
-/

namespace Resgate.Gw

/-! ### the map-range order is a permutation -/

theorem perm_cons_eraseIdx {α} (l : List α) (i : Nat) (x : α) (h : l[i]? = some x) :
    List.Perm l (x :: l.eraseIdx i) := by
  induction l generalizing i with
  | nil => simp at h
  | cons a r ih =>
    cases i with
    | zero => simp at h; subst h; exact List.Perm.refl _
    | succ j =>
      simp only [List.getElem?_cons_succ] at h
      simp only [List.eraseIdx_cons_succ]
      exact (List.Perm.cons a (ih j h)).trans (List.Perm.swap x a _)

theorem shuffle_go_perm {α} (fuel seed : Nat) (l acc : List α) :
    List.Perm (shuffle.go fuel seed l acc) (acc.reverse ++ l) := by
  induction fuel generalizing seed l acc with
  | zero => unfold shuffle.go; exact List.Perm.refl _
  | succ n ih =>
    unfold shuffle.go
    split
    · exact List.Perm.refl _
    · simp
    · rename_i l' f1 l2 f hf hx
      have hf' : f = n := by omega
      subst hf'
      simp only
      split
      · next x hx =>
        refine (ih _ _ _).trans ?_
        rw [List.reverse_cons, List.append_assoc]
        exact List.Perm.append_left _ (perm_cons_eraseIdx _ _ _ hx).symm
      · exact List.Perm.refl _

theorem shuffle_perm {α} (seed : Nat) (l : List α) : List.Perm (shuffle seed l) l := by
  cases l with
  | nil => unfold shuffle; exact List.Perm.refl _
  | cons a r =>
    unfold shuffle
    simpa using shuffle_go_perm (a :: r).length seed (a :: r) []


/-! ### the order of a range over `refs` -/

theorem mem_rotate {α} (l : List α) (k : Nat) (x : α) : x ∈ l.drop k ++ l.take k ↔ x ∈ l := by
  rw [List.mem_append]
  constructor
  · rintro (h | h)
    · exact List.mem_of_mem_drop h
    · exact List.mem_of_mem_take h
  · intro h
    have : x ∈ l.take k ++ l.drop k := by rw [List.take_append_drop]; exact h
    rcases List.mem_append.mp this with h | h
    · exact Or.inr h
    · exact Or.inl h

/-- Whatever the order parameter and counter, the range visits exactly the reference table. -/
theorem mem_refsOrder (ord ctr : Nat) (s : Sub) (x : String × Nat × Nat) :
    x ∈ (refsOrder ord ctr s).1 ↔ x ∈ s.refs := by
  unfold refsOrder
  by_cases h : ord < 6
  · simp only [h, if_true]
    rw [mem_rotate]
    by_cases h2 : ord % 2 == 1
    · simp only [h2, if_true, List.mem_reverse]; exact mem_sortedRefs s x
    · simp only [h2, Bool.false_eq_true, if_false]; exact mem_sortedRefs s x
  · simp only [h, if_false]
    rw [(shuffle_perm _ _).mem_iff]; exact mem_sortedRefs s x


/-! ### registration in the collector's table -/

/-- subscription object `u` has an entry in the table -/
def Reg (M : Memo) (u : Nat) : Prop := ∃ e ∈ M, e.2.1 = u

theorem find_isSome_iff (M : Memo) (u : Nat) : (M.find u).isSome = true ↔ Reg M u := by
  unfold Memo.find Reg
  rw [List.find?_isSome]
  constructor
  · rintro ⟨e, he, h⟩; exact ⟨e, he, by simpa using h⟩
  · rintro ⟨e, he, h⟩; exact ⟨e, he, by simpa using h⟩

theorem find_none_iff (M : Memo) (u : Nat) : M.find u = none ↔ ¬ Reg M u := by
  rw [← find_isSome_iff]
  cases M.find u <;> simp

theorem reg_map (M : Memo) (f : String × Nat × Int × Int × Nat → String × Nat × Int × Int × Nat)
    (hf : ∀ e, (f e).2.1 = e.2.1) (u : Nat) : Reg (M.map f) u ↔ Reg M u := by
  unfold Reg
  constructor
  · rintro ⟨e, he, h⟩
    rw [List.mem_map] at he
    obtain ⟨e0, he0, rfl⟩ := he
    exact ⟨e0, he0, by rw [← hf e0]; exact h⟩
  · rintro ⟨e, he, h⟩
    exact ⟨f e, List.mem_map.mpr ⟨e, he, rfl⟩, by rw [hf e]; exact h⟩

theorem reg_append (M : Memo) (e : String × Nat × Int × Int × Nat) (u : Nat) :
    Reg (M ++ [e]) u ↔ Reg M u ∨ e.2.1 = u := by
  unfold Reg
  constructor
  · rintro ⟨x, hx, h⟩
    rcases List.mem_append.mp hx with hx | hx
    · exact Or.inl ⟨x, hx, h⟩
    · simp at hx; subst hx; exact Or.inr h
  · rintro (⟨x, hx, h⟩ | h)
    · exact ⟨x, List.mem_append.mpr (Or.inl hx), h⟩
    · exact ⟨e, List.mem_append.mpr (Or.inr (by simp)), h⟩

/-- has a direct count: the traversals never enter it -/
def Dir (c : Conn) (u : Nat) : Prop := (st c u).direct > 0

/-- every reference of `u` is to a subscription with a direct count or to a registered one -/
def Cov (c : Conn) (M : Memo) (u : Nat) : Prop :=
  ∀ ch ∈ (st c u).refs, Dir c ch.2.1 ∨ Reg M ch.2.1

theorem cov_mono {c : Conn} {M M' : Memo} (h : ∀ u, Reg M u → Reg M' u) (u : Nat) (hc : Cov c M u) : Cov c M' u :=
  fun ch hch => (hc ch hch).imp id (h _)

/-- the fold over the children in `pass1F` -/
def p1Step (ord : Nat) (sd : Int) (fuel : Nat) (c : Conn) (st' : Nat) (acc : Memo × Nat × Bool)
    (ch : String × Nat × Nat) : Memo × Nat × Bool :=
  let r := pass1F ord sd fuel c ch.2.1 st' acc.1 acc.2.1
  (r.1, r.2.1, acc.2.2 && r.2.2)

/-- What one call of the first traversal establishes. -/
structure P1 (c : Conn) (uid state : Nat) (M M' : Memo) : Prop where
  mono : ∀ u, Reg M u → Reg M' u
  self : state ≠ 1 → Dir c uid ∨ Reg M' uid
  fresh : ∀ u, ¬ Reg M u → Reg M' u → Cov c M' u
  root : state = 1 → ¬ Dir c uid → Cov c M' uid

theorem p1_fold (ord : Nat) (sd : Int) (fuel : Nat) (c : Conn) (st' : Nat) (hst : st' ≠ 1)
    (ih : ∀ uid state M ctr, state ≠ 1 → (pass1F ord sd fuel c uid state M ctr).2.2 = true →
      P1 c uid state M (pass1F ord sd fuel c uid state M ctr).1)
    (L : List (String × Nat × Nat)) (acc : Memo × Nat × Bool)
    (hok : (L.foldl (p1Step ord sd fuel c st') acc).2.2 = true) :
    acc.2.2 = true ∧
    (∀ u, Reg acc.1 u → Reg (L.foldl (p1Step ord sd fuel c st') acc).1 u) ∧
    (∀ u, ¬ Reg acc.1 u → Reg (L.foldl (p1Step ord sd fuel c st') acc).1 u →
      Cov c (L.foldl (p1Step ord sd fuel c st') acc).1 u) ∧
    (∀ ch ∈ L, Dir c ch.2.1 ∨ Reg (L.foldl (p1Step ord sd fuel c st') acc).1 ch.2.1) := by
  induction L generalizing acc with
  | nil => exact ⟨hok, fun _ h => h, fun u h1 h2 => absurd h2 h1, fun _ h => by cases h⟩
  | cons ch rest ihL =>
    rw [List.foldl_cons] at hok ⊢
    obtain ⟨hacc1, hmono, hfresh, hrest⟩ := ihL (p1Step ord sd fuel c st' acc ch) hok
    have hand : (acc.2.2 && (pass1F ord sd fuel c ch.2.1 st' acc.1 acc.2.1).2.2) = true := hacc1
    rw [Bool.and_eq_true] at hand
    have hp := ih ch.2.1 st' acc.1 acc.2.1 hst hand.2
    have hp' : P1 c ch.2.1 st' acc.1 (p1Step ord sd fuel c st' acc ch).1 := hp
    refine ⟨hand.1, fun u h => hmono u (hp'.mono u h), ?_, ?_⟩
    · intro u hn hr
      by_cases hmid : Reg (p1Step ord sd fuel c st' acc ch).1 u
      · exact cov_mono hmono u (hp'.fresh u hn hmid)
      · exact hfresh u hmid hr
    · intro ch' hch'
      rcases List.mem_cons.mp hch' with rfl | hr
      · exact (hp'.self hst).imp id (hmono _)
      · exact hrest ch' hr


/-- the callback of the first traversal -/
def p1Callback (sd : Int) (s : Sub) (uid state : Nat) (memo : Memo) : Memo × Nat :=
  if state == 1 then (memo, 2)
  else match memo.find uid with
    | some (_, u, _, _, _) =>
      (memo.map (fun e => if e.2.1 == u then (e.1, e.2.1, e.2.2.1 - 1, e.2.2.2.1 - sd, e.2.2.2.2) else e), 0)
    | none => (memo ++ [(s.rid, uid, s.indirect - 1, s.indirectsent - sd, 2)], 2)

theorem pass1F_succ (ord : Nat) (sd : Int) (fuel : Nat) (c : Conn) (uid state : Nat) (memo : Memo) (ctr : Nat) :
    pass1F ord sd (fuel + 1) c uid state memo ctr =
      if (st c uid).direct > 0 then (memo, ctr, true)
      else
        let res := p1Callback sd (st c uid) uid state memo
        if res.2 == 0 then (res.1, ctr, true)
        else (refsOrder ord ctr (st c uid)).1.foldl (p1Step ord sd fuel c res.2)
          (res.1, (refsOrder ord ctr (st c uid)).2, true) := rfl

theorem p1Callback_spec (sd : Int) (s : Sub) (uid state : Nat) (memo : Memo) :
    (state = 1 ∧ p1Callback sd s uid state memo = (memo, 2)) ∨
    (state ≠ 1 ∧ Reg memo uid ∧ (p1Callback sd s uid state memo).2 = 0 ∧
      ∀ u, Reg (p1Callback sd s uid state memo).1 u ↔ Reg memo u) ∨
    (state ≠ 1 ∧ ¬ Reg memo uid ∧ (p1Callback sd s uid state memo).2 = 2 ∧
      ∀ u, Reg (p1Callback sd s uid state memo).1 u ↔ Reg memo u ∨ u = uid) := by
  unfold p1Callback
  by_cases h1 : state = 1
  · left; simp [h1]
  · right
    have hb : (state == 1) = false := by simpa using h1
    simp only [hb, Bool.false_eq_true, if_false]
    cases hf : memo.find uid with
    | some e =>
      left
      obtain ⟨r, u, i, is, gs⟩ := e
      refine ⟨h1, (find_isSome_iff memo uid).mp (by rw [hf]; rfl), rfl, ?_⟩
      intro v
      exact reg_map memo _ (fun e => by by_cases h : (e.2.1 == u) = true <;> simp [h]) v
    | none =>
      right
      refine ⟨h1, (find_none_iff memo uid).mp hf, rfl, ?_⟩
      intro v
      rw [reg_append]
      constructor
      · rintro (h | h); exact Or.inl h; exact Or.inr h.symm
      · rintro (h | h); exact Or.inl h; exact Or.inr h.symm

/-- **First traversal**: everything it registers has all its references registered or directly
    held — for every graph and every order of the ranges. -/
theorem pass1F_spec (ord : Nat) (sd : Int) (c : Conn) (fuel : Nat) :
    ∀ (uid state : Nat) (M : Memo) (ctr : Nat), (pass1F ord sd fuel c uid state M ctr).2.2 = true →
      P1 c uid state M (pass1F ord sd fuel c uid state M ctr).1 := by
  induction fuel with
  | zero => intro uid state M ctr h; simp [pass1F] at h
  | succ fuel ih =>
    intro uid state M ctr hok
    rw [pass1F_succ] at hok ⊢
    by_cases hd : (st c uid).direct > 0
    · simp only [hd, if_true]
      exact ⟨fun _ h => h, fun _ => Or.inl hd, fun u h1 h2 => absurd h2 h1, fun _ hnd => absurd hd hnd⟩
    · simp only [hd, if_false] at hok ⊢
      have ih' : ∀ uid state M ctr, state ≠ 1 → (pass1F ord sd fuel c uid state M ctr).2.2 = true →
          P1 c uid state M (pass1F ord sd fuel c uid state M ctr).1 := fun u s m k _ h => ih u s m k h
      rcases p1Callback_spec sd (st c uid) uid state M with ⟨h1, hcb⟩ | ⟨h1, hreg, h0, hsame⟩ | ⟨h1, hnreg, h2, hadd⟩
      · -- the root: not registered by the callback, children folded
        rw [hcb] at hok ⊢
        simp only [show ((2 : Nat) == 0) = false from rfl, Bool.false_eq_true, if_false] at hok ⊢
        obtain ⟨_, hmono, hfresh, hch⟩ := p1_fold ord sd fuel c 2 (by decide) ih' _ (M, _, true) hok
        refine ⟨hmono, fun h => absurd h1 h, hfresh, ?_⟩
        intro _ _ ch hchm
        exact hch ch ((mem_refsOrder ord ctr (st c uid) ch).mpr hchm)
      · -- already registered: counted and stopped
        have hz : ((p1Callback sd (st c uid) uid state M).2 == 0) = true := by rw [h0]; rfl
        simp only [hz, if_true]
        refine ⟨fun u h => (hsame u).mpr h, fun _ => Or.inr ((hsame uid).mpr hreg), ?_, fun h => absurd h h1⟩
        intro u hn hr; exact absurd ((hsame u).mp hr) hn
      · -- newly registered: children folded
        have hz : ((p1Callback sd (st c uid) uid state M).2 == 0) = false := by rw [h2]; rfl
        simp only [hz, Bool.false_eq_true, if_false] at hok ⊢
        rw [h2] at hok ⊢
        obtain ⟨_, hmono, hfresh, hch⟩ := p1_fold ord sd fuel c 2 (by decide) ih' _
          ((p1Callback sd (st c uid) uid state M).1, _, true) hok
        have hself1 : Reg (p1Callback sd (st c uid) uid state M).1 uid := (hadd uid).mpr (Or.inr rfl)
        refine ⟨fun u h => hmono u ((hadd u).mpr (Or.inl h)), fun _ => Or.inr (hmono uid hself1), ?_, fun h => absurd h h1⟩
        intro u hn hr
        by_cases hmid : Reg (p1Callback sd (st c uid) uid state M).1 u
        · -- then u is this very subscription
          rcases (hadd u).mp hmid with h | h
          · exact absurd h hn
          · subst h
            intro ch hchm
            exact hch ch ((mem_refsOrder ord ctr (st c u) ch).mpr hchm)
        · exact hfresh u hmid hr


/-! ### second traversal -/

/-- the table is closed: every registered subscription has all its references registered or
    directly held -/
def TableClosed (c : Conn) (M : Memo) : Prop := ∀ u, Reg M u → Cov c M u

def p2Step (ord : Nat) (sent : Bool) (fuel : Nat) (c : Conn) (st' : Nat) (acc : Memo × Nat × Bool × Bool)
    (ch : String × Nat × Nat) : Memo × Nat × Bool × Bool :=
  let r := pass2F ord sent fuel c ch.2.1 st' acc.1 acc.2.1
  (r.1, r.2.1, acc.2.2.1 && r.2.2.1, acc.2.2.2 && r.2.2.2)

/-- the callback of the second traversal on a registered subscription -/
def p2Callback (sent : Bool) (state : Nat) (memo : Memo) (e : String × Nat × Int × Int × Nat) : Memo × Nat :=
  let setSt := fun (n : Nat) =>
    memo.map (fun x => if x.2.1 == e.2.1 then (x.1, x.2.1, x.2.2.1, x.2.2.2.1, n) else x)
  if e.2.2.2.2 ≥ 4 then (memo, 0)
  else if e.2.2.1 > 0 || state == 4 then
    (if sent && e.2.2.2.1 == 0 then (setSt 5, 4) else (setSt 4, 4))
  else if e.2.2.2.2 != 2 then (memo, 0)
  else (setSt 3, 3)

theorem pass2F_succ (ord : Nat) (sent : Bool) (fuel : Nat) (c : Conn) (uid state : Nat) (memo : Memo) (ctr : Nat) :
    pass2F ord sent (fuel + 1) c uid state memo ctr =
      if (st c uid).direct > 0 then (memo, ctr, true, true)
      else match memo.find uid with
        | none => (memo, ctr, true, false)
        | some e =>
          let res := p2Callback sent state memo e
          if res.2 == 0 then (res.1, ctr, true, true)
          else (refsOrder ord ctr (st c uid)).1.foldl (p2Step ord sent fuel c res.2)
            (res.1, (refsOrder ord ctr (st c uid)).2, true, true) := by
  show pass2F ord sent (fuel + 1) c uid state memo ctr = _
  unfold pass2F
  show (if (tget c.objs uid).direct > 0 then _ else _) = _
  by_cases hd : (tget c.objs uid).direct > 0
  · have hd' : (st c uid).direct > 0 := hd
    simp only [hd, hd', if_true]
  · have hd' : ¬ (st c uid).direct > 0 := hd
    simp only [hd, hd', if_false]
    cases hf : memo.find uid with
    | none => rfl
    | some e => obtain ⟨r, u, i, is, gs⟩ := e; rfl

theorem p2Callback_reg (sent : Bool) (state : Nat) (memo : Memo) (e : String × Nat × Int × Int × Nat) (u : Nat) :
    Reg (p2Callback sent state memo e).1 u ↔ Reg memo u := by
  have hm : ∀ n : Nat, Reg (memo.map (fun x => if x.2.1 == e.2.1 then (x.1, x.2.1, x.2.2.1, x.2.2.2.1, n) else x)) u ↔ Reg memo u :=
    fun n => reg_map memo _ (fun x => by by_cases h : (x.2.1 == e.2.1) = true <;> simp [h]) u
  unfold p2Callback
  simp only
  split
  · rfl
  · split
    · split <;> exact hm _
    · split
      · rfl
      · exact hm _

/-- What one call of the second traversal establishes on a closed table. -/
structure P2 (M : Memo) (r : Memo × Nat × Bool × Bool) : Prop where
  same : ∀ u, Reg r.1 u ↔ Reg M u
  found : r.2.2.2 = true

theorem p2_fold (ord : Nat) (sent : Bool) (fuel : Nat) (c : Conn) (st' : Nat)
    (ih : ∀ uid state M ctr, TableClosed c M → (Dir c uid ∨ Reg M uid) → P2 M (pass2F ord sent fuel c uid state M ctr))
    (L : List (String × Nat × Nat)) (M0 : Memo) (acc : Memo × Nat × Bool × Bool)
    (hcl : TableClosed c M0) (hsame : ∀ u, Reg acc.1 u ↔ Reg M0 u) (hf : acc.2.2.2 = true)
    (hL : ∀ ch ∈ L, Dir c ch.2.1 ∨ Reg M0 ch.2.1) :
    P2 M0 (L.foldl (p2Step ord sent fuel c st') acc) := by
  induction L generalizing acc with
  | nil => exact ⟨hsame, hf⟩
  | cons ch rest ihL =>
    rw [List.foldl_cons]
    have hcl' : TableClosed c acc.1 := fun u hu ch' hch' =>
      ((hcl u ((hsame u).mp hu)) ch' hch').imp id (fun h => (hsame _).mpr h)
    have hch : Dir c ch.2.1 ∨ Reg acc.1 ch.2.1 :=
      (hL ch (List.mem_cons_self ..)).imp id (fun h => (hsame _).mpr h)
    have hp := ih ch.2.1 st' acc.1 acc.2.1 hcl' hch
    apply ihL (p2Step ord sent fuel c st' acc ch)
    · intro u; exact (hp.same u).trans (hsame u)
    · show (acc.2.2.2 && (pass2F ord sent fuel c ch.2.1 st' acc.1 acc.2.1).2.2.2) = true
      rw [hf, hp.found]; rfl
    · intro ch' h; exact hL ch' (List.mem_cons_of_mem _ h)

/-- **Second traversal on a closed table**: it only meets registered subscriptions, and registers
    nothing new. -/
theorem pass2F_spec (ord : Nat) (sent : Bool) (c : Conn) (fuel : Nat) :
    ∀ (uid state : Nat) (M : Memo) (ctr : Nat), TableClosed c M → (Dir c uid ∨ Reg M uid) →
      P2 M (pass2F ord sent fuel c uid state M ctr) := by
  induction fuel with
  | zero => intro uid state M ctr _ _; exact ⟨fun _ => Iff.rfl, rfl⟩
  | succ fuel ih =>
    intro uid state M ctr hcl hreg
    rw [pass2F_succ]
    by_cases hd : (st c uid).direct > 0
    · simp only [hd, if_true]; exact ⟨fun _ => Iff.rfl, rfl⟩
    · simp only [hd, if_false]
      have hr : Reg M uid := hreg.resolve_left hd
      cases hf : M.find uid with
      | none => exact absurd hr ((find_none_iff M uid).mp hf)
      | some e =>
        simp only
        by_cases hz : ((p2Callback sent state M e).2 == 0) = true
        · simp only [hz, if_true]
          exact ⟨p2Callback_reg sent state M e, rfl⟩
        · simp only [hz, Bool.false_eq_true, if_false]
          apply p2_fold ord sent fuel c _ ih _ M _ hcl (p2Callback_reg sent state M e) rfl
          intro ch hch
          exact hcl uid hr ch ((mem_refsOrder ord ctr (st c uid) ch).mp hch)

/-- **The repaired collector never meets an unregistered subscription.** For every connection
    state `c` (any reference graph among its subscription objects, disposed ones and several
    objects for one resource id included), every root without direct count, every order
    parameter and counters: if the first traversal completes, its table is closed, and the second
    traversal from the same root — in whatever order its ranges run — finds an entry for every
    subscription it meets (the situation in which the code before `fb6e752` dereferenced nil). -/
theorem collector_second_pass_total (ord ord2 : Nat) (sd : Int) (sent : Bool) (c : Conn) (root : Nat)
    (e0 : String × Nat × Int × Int × Nat) (he0 : e0.2.1 = root) (hnd : ¬ Dir c root)
    (fuel ctr fuel2 ctr2 state2 : Nat)
    (hok : (pass1F ord sd fuel c root 1 [e0] ctr).2.2 = true) :
    TableClosed c (pass1F ord sd fuel c root 1 [e0] ctr).1 ∧
    (pass2F ord2 sent fuel2 c root state2 (pass1F ord sd fuel c root 1 [e0] ctr).1 ctr2).2.2.2 = true := by
  have hp := pass1F_spec ord sd c fuel root 1 [e0] ctr hok
  have hroot0 : Reg [e0] root := ⟨e0, by simp, he0⟩
  have hcl : TableClosed c (pass1F ord sd fuel c root 1 [e0] ctr).1 := by
    intro u hu
    by_cases h0 : Reg [e0] u
    · obtain ⟨x, hx, hxu⟩ := h0
      simp at hx; subst hx
      rw [he0] at hxu; subst hxu
      exact hp.root rfl hnd
    · exact hp.fresh u h0 hu
  exact ⟨hcl, (pass2F_spec ord2 sent c fuel2 root state2 _ ctr2 hcl (Or.inr (hp.mono root hroot0))).found⟩

end Resgate.Gw
