import Resgate.Proofs.GwPure
import Resgate.Proofs.CloseRun
import Resgate.Proofs.Release

/-
C11 — Disconnect cleanup at any moment.
-/

namespace Resgate.C11
open Resgate Resgate.Gw

/-- After dispose, every item offered to the connection's mailbox (late Loaded, access / call
    answers, events, re-checks) is refused and the gateway state is unchanged by the offer — in
    any state of the gateway. -/
theorem disposed_is_silent (g : Gw) (cid : Nat) (it : KItem)
    (h : ((g.conns.find? (·.cid == cid)).getD default).disposing = true) :
    (connEnqueue cid it).run g = (false, g) :=
  Gw.connEnqueue_disposing g cid it h

/-- **Closing a connection releases exactly what it holds, in any state of the gateway** — with any
    requests, loads, access checks or queued events of that connection outstanding (they are part
    of `g` and play no role). For a live connection `c` whose subscription map has one object per
    entry, the model's `wsConn.dispose` (`disposeConn`, the definition the lockstep correspondence
    runs against the real gateway):
    * marks the connection, empties its subscription map, takes it out of the token-reset fan-out
      and emits the unsubscribe of its connection events — and nothing else is emitted;
    * leaves every one of its subscriptions disposed;
    * leaves every other connection exactly as it was;
    * changes no cache entry except for appending to its queue exactly one `unsubscribe` item per
      subscription of this connection that held one of the entry's resources (content, use count,
      locks, other subscribers untouched at this point; the count drops by one when the entry's
      worker takes the item, C09);
    * issues no request and touches no throttle and no index entry. -/
theorem disconnect_releases_exactly (g : Gw) (cid : Nat) (c : Conn)
    (hc : g.conns.find? (·.cid == cid) = some c) (hlive : c.disposing = false)
    (hnd : (c.subs.map (·.2)).Nodup) :
    let g' := ((disposeConn cid).run g).2
    (connOf g' cid).disposing = true ∧ (connOf g' cid).subs = [] ∧ cid ∉ g'.live ∧
    (∀ u ∈ c.subs.map (·.2), (subOf g' cid u).state = .disposed) ∧
    (∀ k, k ≠ cid → connOf g' k = connOf g k) ∧
    (∀ eid, ∃ items : List (Nat × CItem),
      tget g'.entries eid = { tget g.entries eid with queue := (tget g.entries eid).queue ++ items } ∧
      List.Perm (items.map (·.2)) (releasesFor g cid eid (c.subs.map (·.2)))) ∧
    g'.reqs = g.reqs ∧ g'.throttles = g.throttles ∧ g'.index = g.index ∧
    g'.out = g.out.push s!"U conn.{cname cid}" :=
  Gw.disposeConn_spec g cid c hc hlive hnd

/-- Closing twice is closing once. -/
theorem dispose_idempotent (g : Gw) (cid : Nat) (h : (connOf g cid).disposing = true) :
    ((disposeConn cid).run g).2 = g := by
  rw [Gw.disposeConn_run]; simp [h]

/-- What a subscription gives back: nothing if it is disposed already, never got a resource or saw
    its resource deleted; otherwise exactly one `unsubscribe` of itself at the entry it holds. -/
theorem release_spec (cid : Nat) (s : Sub) :
    (s.release cid = none ↔ s.state = .disposed ∨ s.res = none ∨ s.state = .deleted) ∧
    (∀ eid it, s.release cid = some (eid, it) →
      ∃ rs, s.res = some (eid, rs) ∧ it = CItem.unsubscribe rs ⟨cid, s.uid⟩) := by
  unfold Sub.release
  constructor
  · by_cases hd : s.state = .disposed
    · simp [hd]
    · cases hr : s.res with
      | none => simp [hd]
      | some p =>
        obtain ⟨e, r⟩ := p
        by_cases hx : s.state = .deleted <;> simp [hd, hx]
  · intro eid it h
    by_cases hd : s.state = .disposed
    · simp [hd] at h
    · cases hr : s.res with
      | none => simp [hd, hr] at h
      | some p =>
        obtain ⟨e, r⟩ := p
        by_cases hx : s.state = .deleted
        · simp [hd, hr, hx] at h
        · simp [hd, hr, hx] at h
          exact ⟨r, by rw [h.1], h.2.symm⟩

/-- When the entry's worker takes a release item (`CItem.unsubscribe rs sub`, run as
    `Entry.dropSub` followed by `removeCount 1`): exactly that subscriber leaves exactly that
    resource, nothing else of the entry changes, and the use count drops by exactly one — "shared
    cache entries lose exactly that connection's uses". -/
theorem release_item_gives_back_one_use (e : Entry) (rs : Nat) (sub : SubRef) :
    (tget (e.dropSub rs sub).ress rs).subs = (tget e.ress rs).subs.filter (· != sub) ∧
    (∀ r', r' ≠ rs → tget (e.dropSub rs sub).ress r' = tget e.ress r') ∧
    (tget (e.dropSub rs sub).ress rs).model = (tget e.ress rs).model ∧
    (tget (e.dropSub rs sub).ress rs).coll = (tget e.ress rs).coll ∧
    (e.dropSub rs sub).queue = e.queue ∧ (e.dropSub rs sub).locks = e.locks ∧
    (removeCountPure (e.dropSub rs sub).count 1 (e.dropSub rs sub).evictPending).1 = e.count - 1 := by
  obtain ⟨h1, h2, h3, _, _, _, h7, h8, h9, _, _, h12⟩ := Gw.dropSub_spec e rs sub
  exact ⟨h7, h12, h8, h9, h2, h3, by rw [Gw.release_count, h1]⟩

/-- Non-vacuity: a gateway with connection 0 holding subscription 1 on resource 9 of entry 5 and
    connection 1 holding subscription 2 on the same resource: closing connection 0 hands entry 5
    exactly one item and entry 6 none. -/
def g0 : Gw :=
  { conns := [{ cid := 0, subs := [("m.a", 1)], objs := [(1, { uid := 1, rid := "m.a", name := "m.a", query := "", state := .sent, res := some (5, 9) })] },
              { cid := 1, subs := [("m.a", 2)], objs := [(2, { uid := 2, rid := "m.a", name := "m.a", query := "", state := .sent, res := some (5, 9) })] }],
    entries := [(5, { name := "m.a", count := 2 }), (6, { name := "m.b" })], live := [0, 1] }

example : (releasesFor g0 0 5 [1]).length = 1 ∧ (releasesFor g0 0 6 [1]).length = 0 := by decide

end Resgate.C11
