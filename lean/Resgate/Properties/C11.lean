import Resgate.Proofs.GwPure

/-
C11 — Disconnect cleanup at any moment.
-/

namespace Resgate.C11
open Resgate Resgate.Gw

/-- After dispose, every item offered to the connection's mailbox (late Loaded, access / call
    answers, events, re-checks) is refused and the gateway state is unchanged by the offer — in
    any state of the gateway. -/
theorem disposed_is_silent (g : Gw) (cid : Nat) (it : KItem)
    (h : ((g.conns.find? (·.cid == cid)).getD default).disposing = true) :
    (connEnqueue cid it).run g = (false, g) :=
  Gw.connEnqueue_disposing g cid it h

end Resgate.C11
