import Resgate.Proofs.Version

/-
C02 — Every message is applicable.  Theorems: the kind and bounds checks that make every emitted
state event applicable to a copy equal to the cache's.  The reference-graph half (no dangling
reference) is NOT proved: it is false of the code (known findings D7, D9, D16, D18) and is carried
by the lockstep correspondence of the collector model and by the reference-client monitor.
-/

namespace Resgate.C02
open Resgate Resgate.Gw

/-- Every state event the cache emits: a change only for a model, add/remove only for a
    collection, and the index within the current bounds of the cached collection (which is what
    an in-sync client holds, C01). -/
theorem emitted_event_applicable {r r' : Res} {ev ev' : REv} (h : applyStateEvent r ev = some (r', ev')) :
    (ev.name = "change" → r.state ≠ .collection) ∧
    (ev.name = "add" → r.state ≠ .model ∧ 0 ≤ ev'.idx ∧ ev'.idx ≤ r.coll.length) ∧
    (ev.name = "remove" → r.state ≠ .model ∧ 0 ≤ ev'.idx ∧ ev'.idx < r.coll.length) :=
  Gw.applyStateEvent_checks h

end Resgate.C02
