import Resgate.Proofs.Version
import Resgate.Proofs.Populate
import Resgate.Proofs.PopulateSet

/-
C02 — Every message is applicable.  Theorems: the kind and bounds checks that make every emitted
state event applicable to a copy equal to the cache's.  The reference-graph half (no dangling
reference) is NOT proved: it is false of the code (known findings D7, D9, D16, D18) and is carried
by the lockstep correspondence of the collector model and by the reference-client monitor.
-/

namespace Resgate.C02
open Resgate Resgate.Gw

/-- Every state event the cache emits: a change only for a model, add/remove only for a
    collection, and the index within the current bounds of the cached collection (which is what
    an in-sync client holds, C01). -/
theorem emitted_event_applicable {r r' : Res} {ev ev' : REv} (h : applyStateEvent r ev = some (r', ev')) :
    (ev.name = "change" → r.state ≠ .collection) ∧
    (ev.name = "add" → r.state ≠ .model ∧ 0 ≤ ev'.idx ∧ ev'.idx ≤ r.coll.length) ∧
    (ev.name = "remove" → r.state ≠ .model ∧ 0 ≤ ev'.idx ∧ ev'.idx < r.coll.length) :=
  Gw.applyStateEvent_checks h

/-- **Every resource set is closed under references** (`populateResources`, as the pure
    `populateF` the model's connection actor runs for every response and every event that carries
    resources): for every connection state — any reference graph among its subscriptions, shared
    children, diamonds, cycles, self references, error children — and every root, whenever the
    collection completes (`ok`; the model panics otherwise, which the lockstep would show),
    * nothing already delivered is forgotten and no reference table or error state changes,
    * the root is covered, and
    * every subscription newly placed in the set has **all** its references covered: delivered
      earlier (`sent`), placed in this same set (`toSend`), or delivered in it as an error
      placeholder.
    So a dangling reference can only come from the bookkeeping of what "delivered earlier" means
    (the collector, known findings D7, D9, D16, D18), never from the collection itself. -/
theorem resource_set_closed (fuel : Nat) (c : Conn) (uid : Nat) (r : RSet) (indirect : Bool)
    (hok : (populateF fuel c uid r indirect).2.2 = true) :
    let c' := (populateF fuel c uid r indirect).1
    (∀ v, (st c v).visited = true → (st c' v).visited = true) ∧
    (∀ v, (st c' v).refs = (st c v).refs ∧ (st c' v).error = (st c v).error) ∧
    ((st c' uid).visited = true ∨ (st c' uid).error.isSome = true) ∧
    (∀ v, (st c v).visited = false → (st c' v).visited = true →
      ∀ ch ∈ (st c v).refs,
        (st c' ch.2.1).visited = true ∨ (st c' ch.2.1).error.isSome = true) := by
  obtain ⟨hg, hcov⟩ := Gw.populateF_good fuel c uid r indirect hok
  exact ⟨hg.ext.vis, fun v => ⟨hg.ext.refs v, hg.ext.err v⟩, hcov,
    fun v h1 h2 ch hch => hg.closed v h1 h2 ch ((Gw.mem_sortedRefs _ _).mpr hch)⟩

/-- **… and delivered in that same message's resource set.** With the same generality: the set
    only grows; every subscription newly placed in it that holds a model or a collection has an
    entry under its resource id; and every reference of such a subscription points to a resource
    that was delivered earlier, is placed in this set, or has an entry (its error placeholder) in
    this set. The root itself is placed, was delivered earlier, or has its error entry. -/
theorem resource_set_delivers (fuel : Nat) (c : Conn) (uid : Nat) (r : RSet) (indirect : Bool)
    (hok : (populateF fuel c uid r indirect).2.2 = true) :
    let c' := (populateF fuel c uid r indirect).1
    let r' := (populateF fuel c uid r indirect).2.1
    (∀ rid, r.has rid = true → r'.has rid = true) ∧
    (∀ v, (st c v).visited = false → (st c' v).visited = true →
      ((st c v).typ = .model ∨ (st c v).typ = .collection) → r'.has (st c v).rid = true) ∧
    (∀ v, (st c v).visited = false → (st c' v).visited = true →
      ∀ ch ∈ (st c v).refs, (st c' ch.2.1).visited = true ∨ r'.has (st c ch.2.1).rid = true) ∧
    ((st c' uid).visited = true ∨ r'.has (st c uid).rid = true) := by
  obtain ⟨hf, hroot⟩ := Gw.populateF_full fuel c uid r indirect hok
  refine ⟨hf.rmono, hf.deliv, ?_, hroot⟩
  intro v h1 h2 ch hch
  cases hv : (st (populateF fuel c uid r indirect).1 ch.2.1).visited with
  | true => exact Or.inl rfl
  | false => exact Or.inr (hf.errs v h1 h2 ch ((Gw.mem_sortedRefs _ _).mpr hch) hv)

/-- Non-vacuity: a cycle a → b → a whose second node also is the only parent of an error child
    (a → b → e would need a comparison of resource ids, which the kernel does not evaluate; one
    reference per node needs none): collecting from `a` completes with fuel 3 and marks both. -/
def cyc : Conn :=
  { cid := 0, objs := [
      (1, { uid := 1, rid := "m.a", name := "m.a", query := "", state := .ready, typ := .model, refs := [("m.b", 2, 1)] }),
      (2, { uid := 2, rid := "m.b", name := "m.b", query := "", state := .ready, typ := .model, refs := [("m.a", 1, 1)] })] }

example : (populateF 3 cyc 1 {} false).2.2 = true ∧
    (st (populateF 3 cyc 1 {} false).1 1).visited = true ∧
    (st (populateF 3 cyc 1 {} false).1 2).visited = true := by decide +kernel

/-- … and with too little fuel the function says so instead of returning a partial set. -/
example : (populateF 1 cyc 1 {} false).2.2 = false := by decide +kernel

end Resgate.C02
