import Resgate.Proofs.GwPure

/-
C09 — Cache entry lifecycle.  Theorems: the use-count / eviction-queue bookkeeping under
well-formed use.  That every subscriber releases exactly once is NOT proved (false: known finding
D4).
-/

namespace Resgate.C09
open Resgate Resgate.Gw

/-- Under well-formed use (never more releases than uses) the count stays non-negative, the entry
    waits for eviction exactly when its count reached zero, and `timerqueue.Add` is never called
    for an element already queued (no panic). -/
theorem count_step (c : Cnt) (h : c.Inv) (op : CntOp)
    (hop : match op with | .add => True | .remove n => 0 < n ∧ n ≤ c.count) :
    ∃ c', c.step op = some c' ∧ (c'.count = 0 → c'.pending = true) ∧ 0 ≤ c'.count ∧
      (c'.pending = true → c'.count = 0) :=
  Cnt.step_inv c h op hop

/-- A new user cancels a pending eviction. -/
theorem add_cancels_eviction (p : Bool) : (addCountPure 0 p).2 = false := by
  simp [addCountPure]

/-- Releasing the last user schedules the eviction. -/
theorem last_release_schedules (n : Int) (hn : 0 < n) : (removeCountPure n n false).2.1 = true := by
  have h0 : (n != 0) = true := by simp; omega
  simp [removeCountPure, h0]

example : (⟨1, false⟩ : Cnt).Inv := by simp [Cnt.Inv]

end Resgate.C09
