import Resgate.Proofs.GwPure
import Resgate.Proofs.Release

/-
C09 — Cache entry lifecycle.  Theorems: the use-count / eviction-queue bookkeeping under
well-formed use.  That every subscriber releases at most once is proved at the level of the cache entry
(released_at_most_once; the double release D4 was repaired in /repo).
-/

namespace Resgate.C09
open Resgate Resgate.Gw

/-- Under well-formed use (never more releases than uses) the count stays non-negative, the entry
    waits for eviction exactly when its count reached zero, and `timerqueue.Add` is never called
    for an element already queued (no panic). -/
theorem count_step (c : Cnt) (h : c.Inv) (op : CntOp)
    (hop : match op with | .add => True | .remove n => 0 < n ∧ n ≤ c.count) :
    ∃ c', c.step op = some c' ∧ (c'.count = 0 → c'.pending = true) ∧ 0 ≤ c'.count ∧
      (c'.pending = true → c'.count = 0) :=
  Cnt.step_inv c h op hop

/-- A new user cancels a pending eviction. -/
theorem add_cancels_eviction (p : Bool) : (addCountPure 0 p).2 = false := by
  simp [addCountPure]

/-- Releasing the last user schedules the eviction. -/
theorem last_release_schedules (n : Int) (hn : 0 < n) : (removeCountPure n n false).2.1 = true := by
  have h0 : (n != 0) = true := by simp; omega
  simp [removeCountPure, h0]

/-- Every sequence of operations under well-formed use keeps the invariant and never panics:
    the one-step theorem lifted to all histories of one cache entry. -/
def runOps : Cnt → List CntOp → Option Cnt
  | c, [] => some c
  | c, op :: ops => match c.step op with
    | some c' => runOps c' ops
    | none => none

/-- `WellUsed c ops`: no release exceeds the uses held at that moment. -/
def WellUsed : Cnt → List CntOp → Prop
  | _, [] => True
  | c, op :: ops =>
    (match op with | .add => True | .remove n => 0 < n ∧ n ≤ c.count) ∧
    ∀ c', c.step op = some c' → WellUsed c' ops

theorem count_run (c : Cnt) (h : c.Inv) (ops : List CntOp) (hw : WellUsed c ops) :
    ∃ c', runOps c ops = some c' ∧ c'.Inv := by
  induction ops generalizing c with
  | nil => exact ⟨c, rfl, h⟩
  | cons op ops ih =>
    obtain ⟨hop, hrest⟩ := hw
    obtain ⟨c1, hs, h1, h2, h3⟩ := Cnt.step_inv c h op hop
    have hinv : c1.Inv := ⟨h2, ⟨h3, h1⟩⟩
    obtain ⟨c2, hr, hi⟩ := ih c1 hinv (hrest c1 hs)
    exact ⟨c2, by simp [runOps, hs, hr], hi⟩

/-- What the eviction timer does with an entry (`Cache.mqUnsubscribe`): the entry is removed iff
    it was queued for eviction and still has no user; its event subscription is then released iff
    it had one. Together with the invariant (queued ⇒ count = 0, and a new user un-queues it) an
    entry is evicted exactly when its last user is gone for the whole delay. -/
theorem evict_iff (count : Int) (pending mqSub : Bool) (u : Bool) :
    evictDecision count pending mqSub = some u ↔ pending = true ∧ count ≤ 0 ∧ u = mqSub := by
  unfold evictDecision
  cases pending
  · simp
  · by_cases h : count > 0
    · simp only [if_true, h]
      constructor
      · intro e; cases e
      · intro e; omega
    · simp only [if_true, h, if_false, Option.some.injEq, true_and]
      constructor
      · intro e; exact ⟨by omega, e.symm⟩
      · intro e; exact e.2.symm

theorem used_entry_stays (count : Int) (pending mqSub : Bool) (h : 0 < count) :
    evictDecision count pending mqSub = none := by
  unfold evictDecision; cases pending <;> simp [h]

/-- **A subscriber is released at most once** (the repaired `ResourceSubscription.Unsubscribe`, the
    pure `Entry.release` the model's cache actor runs): a release takes effect iff the subscriber is
    still registered with the resource, and after it took effect a second release of the same
    subscriber finds nothing and gives nothing back — the double release behind the negative counts
    and gauges (defect D4, fixed by `c027952`) cannot happen at this level any more. -/
theorem released_at_most_once (e : Entry) (rs : Nat) (sub : SubRef) :
    (e.release rs sub).isSome = (tget e.ress rs).subs.contains sub ∧
    (e.dropSub rs sub).release rs sub = none :=
  ⟨Gw.release_some_iff e rs sub, Gw.release_twice_is_once e rs sub⟩

example : (⟨1, false⟩ : Cnt).Inv := by simp [Cnt.Inv]

end Resgate.C09
