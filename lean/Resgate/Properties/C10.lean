import Resgate.Proofs.Rid
import Resgate.Gw.Ops

/-
C10 — Connection isolation.
-/

namespace Resgate.C10
open Resgate

/-- A resource id without the `{cid}` tag is the same towards services and clients … -/
theorem expandCID_no_tag (cid : Bytes) (rid : Bytes) (h : ∀ c ∈ rid, c ≠ 123) :
    expandCID cid rid = rid := by
  induction rid with
  | nil => rfl
  | cons c cs ih =>
    have hc : c ≠ 123 := h c (by simp)
    have ih' := ih (fun x hx => h x (by simp [hx]))
    unfold expandCID
    split
    · rename_i heq; simp at heq; exact absurd heq.1 hc
    · rename_i heq; simp only [List.cons.injEq] at heq; obtain ⟨rfl, rfl⟩ := heq; rw [ih']
    · rename_i heq; simp at heq

/-- … and expansion with the connection's own id keeps a valid id valid (subjects stay hygienic). -/
theorem expandCID_valid (cid rid : Bytes) (aq : Bool) (hcid : cid.all okByte = true) (hne : cid ≠ []) :
    isValidRID (expandCID cid rid) aq = isValidRID rid aq :=
  Resgate.isValidRID_expandCID aq cid rid hcid hne

/-- Every access / call / auth payload the model builds starts with the requesting connection's id
    and carries exactly the token handed in (the connection's token at emission time). -/
theorem payload_names_requester (cid : Nat) (token query params : String) :
    ∃ rest, Gw.reqPayload cid token query params = ",".intercalate ([s!"cid={Gw.cname cid}"] ++ rest) ∧
      s!"token={token}" ∈ rest := by
  refine ⟨(if params == "" then [] else [s!"params={params}"]) ++
    (if query == "" then [] else [s!"query={query}"]) ++ [s!"token={token}"], ?_, ?_⟩
  · simp [Gw.reqPayload, List.append_assoc]
  · simp

/-- **Whom a token reset addresses** (`wsConn.TokenReset`, the decision the model's connection
    actor takes before it issues the auth request): exactly the connections that have a token id
    and whose token id the reset names. An empty or `null` entry in the list addresses nobody: a
    connection without token id is never addressed. -/
theorem token_reset_addresses_iff (tid : String) (tids : List String) :
    Gw.resetAddresses tid tids = true ↔ tid ≠ "" ∧ tid ∈ tids := by
  unfold Gw.resetAddresses
  simp [List.contains_iff_mem]

theorem token_reset_never_addresses_anonymous (tids : List String) : Gw.resetAddresses "" tids = false := by
  unfold Gw.resetAddresses; simp

end Resgate.C10
