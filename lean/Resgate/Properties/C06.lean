import Resgate.Proofs.GwPure

/-
C06 — Access revocation.  Theorems: no event is processed while the re-check queues them and all
are released in order afterwards (the queue discipline); what verdict unsubscribes.  That every
trigger leads to a re-check is carried by correspondence (known finding D8: a trigger deferred by a
queueing subscription keeps the cached verdict).
-/

namespace Resgate.C06
open Resgate Resgate.Gw Resgate.EvQ

/-- While a re-check is pending (queueing), arriving events are only appended; after the verdict
    they are released in arrival order, none lost or duplicated. -/
theorem no_leak_then_in_order {ε} (ops : List (Op ε)) (q : Q ε)
    (hw : q.queueing = false → q.waiting = []) :
    let q' := ops.foldl Q.step q
    q'.done ++ q'.waiting = q.done ++ q.waiting ++ received ops ∧
    (q'.queueing = false → q'.waiting = []) :=
  Resgate.EvQ.queue_preserves_order ops q hw

theorem recv_while_queueing {ε} (q : Q ε) (e : ε) (h : q.queueing = true) :
    (q.recv e).done = q.done ∧ (q.recv e).waiting = q.waiting ++ [e] := by
  simp [Q.recv, h]

/-- The verdict that revokes: anything but a get grant. -/
theorem revokes_iff (a : Access) : a.canGet ≠ none ↔ ¬ (a.err = none ∧ a.get = true) := by
  rw [Ne, (Gw.canGet_spec a).1]

example : (⟨none, false, "*"⟩ : Access).canGet = some "system.accessDenied" := by decide

end Resgate.C06
