import Resgate.Proofs.GwPure

/-
C06 — Access revocation.  Theorems: no event is processed while the re-check queues them and all
are released in order afterwards (the queue discipline); what verdict unsubscribes.  That every
trigger leads to a re-check is carried by correspondence (known finding D8: a trigger deferred by a
queueing subscription keeps the cached verdict).
-/

namespace Resgate.C06
open Resgate Resgate.Gw Resgate.EvQ

/-- While a re-check is pending (queueing), arriving events are only appended; after the verdict
    they are released in arrival order, none lost or duplicated. -/
theorem no_leak_then_in_order {ε} (ops : List (Op ε)) (q : Q ε)
    (hw : q.queueing = false → q.waiting = []) :
    let q' := ops.foldl Q.step q
    q'.done ++ q'.waiting = q.done ++ q.waiting ++ received ops ∧
    (q'.queueing = false → q'.waiting = []) :=
  Resgate.EvQ.queue_preserves_order ops q hw

theorem recv_while_queueing {ε} (q : Q ε) (e : ε) (h : q.queueing = true) :
    (q.recv e).done = q.done ∧ (q.recv e).waiting = q.waiting ++ [e] := by
  simp [Q.recv, h]

/-- The verdict that revokes: anything but a get grant. -/
theorem revokes_iff (a : Access) : a.canGet ≠ none ↔ ¬ (a.err = none ∧ a.get = true) := by
  rw [Ne, (Gw.canGet_spec a).1]

example : (⟨none, false, "*"⟩ : Access).canGet = some "system.accessDenied" := by decide

/-- Every trigger (`handleReaccess`) drops the remembered verdict, whatever it was and whatever the
    history before: the re-validation cannot be answered from memory, and an answer that is not
    stored (timeout, error other than accessDenied) leaves nothing to fall back on. -/
theorem trigger_drops_verdict (h : List Gw.VEv) (b : Gw.Access) (hb : Gw.storeVerdict b = false) :
    Gw.verdictAfter (Gw.VEv.trigger :: h) = none ∧
    Gw.verdictAfter (Gw.VEv.answer b :: Gw.VEv.trigger :: h) = none := by
  refine ⟨rfl, ?_⟩
  simp [Gw.verdictAfter, Gw.verdictStep, hb]

end Resgate.C06
