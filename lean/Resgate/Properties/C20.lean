import Resgate.Proofs.Svc

/-
C20 — Fail-stop on messaging loss or Stop.  The model is the service shell's state machine
(`Stop` split into its two locked sections); socket closure, goroutine exit and the wall-clock
bounds are runtime facts the model cannot exhibit: they are observed by the correspondence run
(every client socket closed after Stop, stop channel value, HTTP 503, restart).
-/

namespace Resgate.C20
open Resgate.Svc

/-- No connection (WebSocket or HTTP) is created while the service is stopped or stopping. -/
theorem no_connection_unless_running (s : S) (h : s.running = false ∨ s.stopping = true) :
    step s .connect = (s, .refused) :=
  connect_refused s h

/-- A Stop (or a connection loss) arriving while stopped or while another Stop is in progress does
    nothing. -/
theorem stop_idempotent (s : S) (c : Option String) (h : s.running = false ∨ s.stopping = true) :
    step s (.stopBegin c) = (s, .stopNoop) :=
  Svc.stop_idempotent s c h

/-- Completing a Stop reports the cause it was started with on the stop channel, leaves no
    connection, and Start is possible again. -/
theorem stop_reports_cause_and_restarts (s : S) (h : s.stopping = true) :
    (step s .stopEnd).2 = .stopped s.cause s.conns ∧
    (step s .stopEnd).1 = {} ∧
    (step (step s .stopEnd).1 .start).2 = .started :=
  stop_completes s h

/-- For every sequence of Start / Stop / connection-loss / connect operations, in any order:
    exactly one value on the stop channel per Stop that began and completed. -/
theorem one_value_per_stop (s : S) (ops : List Op) :
    nStopped (run s ops).2 + b2n (run s ops).1.stopping = nStopStarted (run s ops).2 + b2n s.stopping :=
  Svc.one_value_per_stop s ops

/-- Well-formedness is an invariant: stopping implies running; a stopped service has no connections. -/
theorem wf_invariant (s : S) (op : Op) (h : WF s) : WF (step s op).1 := step_wf s op h

example : WF {} := wf_init
example : (run {} [.start, .connect, .stopBegin (some "lost"), .connect, .stopEnd, .start]).2
    = [.started, .connected, .stopStarted, .refused, .stopped (some "lost") 1, .started] := by decide

end Resgate.C20
