import Resgate.Proofs.Throttle
import Resgate.Proofs.GwThrottle

/-
C19 — Throttles bound outstanding requests and never stall.  (The throttle itself.)
-/

namespace Resgate.C19
open Resgate Resgate.Throttle

/-- For every limit ≥ 1 and EVERY word of Add/Done operations that does not hit the panic:
    at most `limit` callbacks run (`0 ≤ running ≤ limit`), callbacks wait only while all slots are
    taken, they are started in the order they were added (`started ++ waiting = added`), and
    `running = started − done`. -/
theorem throttle_run (limit : Int) (hl : 0 < limit) (ops : List TOp) (t' : Resgate.Throttle)
    (out : List Nat) (h : (Resgate.Throttle.new limit).run ops = some (t', out)) :
    Inv t' ∧ out ++ t'.queue = addsOf ops ∧ t'.running + (nDone ops : Int) = out.length := by
  obtain ⟨i, _, f, c⟩ := run_spec (Resgate.Throttle.new limit) ops t' out (inv_new limit hl) h
  refine ⟨i, by simpa [Resgate.Throttle.new] using f, by simpa [Resgate.Throttle.new] using c⟩

/-- The only way to panic is a `Done` with nothing running … -/
theorem panic_iff (t : Resgate.Throttle) (op : TOp) :
    t.step op = none ↔ op = .done ∧ t.running ≤ 0 :=
  step_none_iff t op

/-- … which a `Done` matching a started callback never is. -/
theorem matched_done_ok (t : Resgate.Throttle) (hpos : 0 < t.running) : (t.step .done).isSome = true :=
  no_panic_of_matched t hpos

/-- No stall: whenever a callback waits, every answer (`Done`) starts the longest-waiting one. -/
theorem done_starts_next (t : Resgate.Throttle) (hi : Inv t) (hl : 0 < t.limit) (cb : Nat)
    (q : List Nat) (hq : t.queue = cb :: q) :
    t.step .done = some ({ t with queue := q }, [cb]) :=
  done_starts_head t hi hl cb q hq

/-- … and while one waits, `limit ≥ 1` governed requests are outstanding to provide that `Done`. -/
theorem waiting_implies_full (t : Resgate.Throttle) (hi : Inv t) (hq : t.queue ≠ []) :
    t.running = t.limit := hi.2.2 hq

/-- Every governed request is eventually sent, whatever the answer order: the throttle does not
    see which request an answer belongs to, so "every started request has been answered" is
    `#Done = #started`; then nothing waits, nothing runs and everything added was started, in the
    order it was added. -/
theorem all_governed_eventually_sent (limit : Int) (hl : 0 < limit) (ops : List TOp)
    (t' : Resgate.Throttle) (out : List Nat)
    (h : (Resgate.Throttle.new limit).run ops = some (t', out)) (hall : nDone ops = out.length) :
    t'.queue = [] ∧ t'.running = 0 ∧ out = addsOf ops :=
  all_answered_all_started limit hl ops t' out h hall

/-- … and that point is always reachable: from every state the invariant allows, the answers of
    the outstanding requests (`running + waiting` of them) start every waiting callback in order
    and leave nothing running; none of them panics. -/
theorem answers_drain_the_throttle (t : Resgate.Throttle) (hi : Inv t) (hl : 0 < t.limit) :
    t.run (dones (t.running.toNat + t.queue.length))
      = some ({ t with running := 0, queue := [] }, t.queue) :=
  drain t hi hl

/-- The throttle the gateway model runs in the lockstep (its waiting callbacks are job ids: the
    deferred get and access requests of a reset or of a reference tree) is this throttle: `Add`
    and `Done` there are `step (.add _)` and `step .done` here — same panic, same successor state,
    same callback started — so everything above holds for every throttle of the gateway model. -/
theorem gateway_throttle_is_this_throttle (t : Gw.ThrottleS) (jid : Nat) :
    t.toModel.step (.add jid) =
      some (if t.full then ((t.enqueue jid).toModel, []) else (t.start.toModel, [jid])) ∧
    t.toModel.step .done = t.done.map (fun p => (p.1.toModel, p.2.toList)) :=
  ⟨Gw.ThrottleS.add_refines t jid, Gw.ThrottleS.done_refines t⟩

-- Non-vacuity: limit 2, add 1 2 3, done → 1,2 start at once, 3 after the Done.
example : (Resgate.Throttle.new 2).run [.add 1, .add 2, .add 3, .done]
    = some (⟨2, 2, []⟩, [1, 2, 3]) := by decide
example : (Resgate.Throttle.new 2).run [.add 1, .add 2, .add 3, .done, .done, .done]
    = some (⟨2, 0, []⟩, [1, 2, 3]) := by decide
example : Inv ⟨2, 2, [7, 8]⟩ := by simp [Throttle.Inv]

end Resgate.C19
