import Resgate.Proofs.Lcs
import Resgate.Proofs.Pattern
import Resgate.Proofs.PatternSpec
import Resgate.Proofs.PatternValid
import Resgate.Proofs.ModelDiff
import Resgate.Generated.Tables
import Resgate.Proofs.Reset

/-
C12 — System reset re-fetches exactly the matching resources with a correct diff.
(Pure part: pattern parsing/matching and the collection diff.)
-/

namespace Resgate.C12
open Resgate Resgate.Lcs

/-- Tie: validity of single-byte tokens in every context is what the code computes now. -/
theorem patByteTbl_agrees :
    Generated.patByteTbl.all (fun p =>
      (parsePattern [p.1]).isValid == p.2.1 &&
      (parsePattern [97, 46, p.1]).isValid == p.2.2.1 &&
      (parsePattern [97, p.1, 98]).isValid == p.2.2.2.1 &&
      (parsePattern [97, 46, p.1, 46, 98]).isValid == p.2.2.2.2) = true := by decide +kernel

/-- `Match` never indexes out of range — for any pattern value (valid or not) and any name. -/
theorem match_total (p : Pattern) (s : Bytes) : (p.matches? s).isSome = true :=
  Resgate.match_total p s

/-- **Matching is token-wise wildcard matching**: for every pattern whose dot-separated tokens are
    valid (non-empty; `*` alone in a token; `>` alone and last; otherwise printable bytes without
    `? * > .`) and every name whose tokens are non-empty (every cached resource name is), the
    byte-level loop of `ParseResourcePattern(p).Match(s)` decides `tokMatch`: a literal token
    matches itself, `*` exactly one token, `>` one or more trailing tokens. -/
theorem match_spec (p s : Bytes) (hp : patTokensOK (splitOn cDot p) = true)
    (hs : ∀ t ∈ splitOn cDot s, t ≠ []) :
    (parsePattern p).matches s = tokMatch (splitOn cDot p) (splitOn cDot s) :=
  Resgate.match_spec p s hp hs

/-- **A pattern is valid iff its tokens are**: `ParseResourcePattern` accepts exactly the byte
    strings whose dot-separated tokens are non-empty and are `*`, a final `>`, or printable bytes
    without `? * > .`. -/
theorem parse_valid_iff (p : Bytes) :
    (parsePattern p).isValid = true ↔ patTokensOK (splitOn cDot p) = true :=
  Resgate.parse_valid_iff p

/-- … hence for **every pattern the parser accepts** and every well-formed name, `Match` is
    token-wise wildcard matching. -/
theorem match_spec_valid (p s : Bytes) (hp : (parsePattern p).isValid = true)
    (hs : ∀ t ∈ splitOn cDot s, t ≠ []) :
    (parsePattern p).matches s = tokMatch (splitOn cDot p) (splitOn cDot s) :=
  Resgate.match_spec_valid p s hp hs

/-- Invalid patterns match nothing. -/
theorem invalid_matches_nothing (s : Bytes) : Pattern.invalid.matches s = false :=
  Resgate.invalid_matches_nothing s

/-- For any old and new collection (any lengths, repeated values) and ANY table handed to the
    back-track, the derived remove/add events, applied in order with the bounds checks of the
    event handlers, are all in range and yield a collection pointwise `Equal` to the new one. -/
theorem lcs_applies {α : Type} (eq : α → α → Bool) (hrefl : ∀ x, eq x x = true)
    (tbl : List α → List α → Nat → Nat → Int) (a b : List α) :
    ∃ r, applyCEvs a (lcsWith eq tbl a b) = some r ∧ AllRel (fun x y => eq x y = true) r b :=
  Resgate.Lcs.lcs_applies eq hrefl tbl a b

/-- … in particular for the table the code computes. -/
theorem lcs_applies_code {α : Type} [Inhabited α] (eq : α → α → Bool) (hrefl : ∀ x, eq x x = true)
    (a b : List α) :
    ∃ r, applyCEvs a (lcs eq a b) = some r ∧ AllRel (fun x y => eq x y = true) r b :=
  Resgate.Lcs.lcs_applies eq hrefl (lcsTable eq) a b

/-- **The model diff applies.** For every cached model and every fetched model (keys distinct: Go
    maps) and every reflexive, symmetric `Equal`, the change event derived by `processResetModel`,
    applied by `handleEventChange`, leaves under every key a value `Equal` to the fetched one and
    removes every key the fetched model lacks. -/
theorem modelDiff_applies {κ α : Type} [DecidableEq κ] (eq : α → α → Bool) (hrefl : ∀ x, eq x x = true)
    (hsymm : ∀ x y, eq x y = eq y x) (old new : KV κ α)
    (ho : (old.map (·.1)).Nodup) (hn : (new.map (·.1)).Nodup) (k : κ) :
    match kvGet (applyChange eq old (modelDiff eq old new)).1 k, kvGet new k with
    | none, none => True
    | some r, some v => eq v r = true
    | _, _ => False :=
  Resgate.modelDiff_applies eq hrefl hsymm old new ho hn k

/-- Unchanged content yields no event. -/
theorem lcs_nil_of_equal {α : Type} (eq : α → α → Bool) (tbl : List α → List α → Nat → Nat → Int)
    {a b : List α} (h : AllRel (fun x y => eq x y = true) a b) : lcsWith eq tbl a b = [] :=
  Resgate.Lcs.lcs_nil_of_equal eq tbl h

-- Non-vacuity / sanity on a list with repeated values.
-- (`backtrack` is defined by well-founded recursion, so concrete instances are exercised through the
-- compiled driver in the correspondence check rather than by `decide`.)
example : ∀ x : Nat, (x == x) = true := by simp
example : ∀ x y : Bool, (x == y) = (y == x) := by decide
example : (([(1, 10), (2, 20)] : KV Nat Nat).map (·.1)).Nodup := by decide
-- hypotheses of `match_spec` are satisfiable: "a.*.>" and "a.b.c.d"
example : patTokensOK (splitOn cDot [97, 46, 42, 46, 62]) = true ∧
    (∀ t ∈ splitOn cDot [97, 46, 98, 46, 99, 46, 100], t ≠ []) := by decide
example : (parsePattern [97, 46, 42]).matches [97, 46, 98] = true := by decide
example : (parsePattern [97, 46, 62]).matches [97, 46, 98, 46, 99] = true := by decide
example : (parsePattern [97, 46, 42]).matches [97, 46, 98, 46, 99] = false := by decide

/-- **Which cached resources a system reset touches** (`Cache.forEachMatch`, the function the
    model's `systemEvent` iterates over): a cache entry is handed to the re-fetch (or, for the
    access list, to the access re-validation) iff its name matches at least one listed pattern
    that parses as valid. -/
theorem reset_selects_exactly (index : List (String × Nat)) (ps : List String) (eid : Nat) :
    eid ∈ Gw.resetMatches index (Gw.validPats ps) ↔
      ∃ name p, (name, eid) ∈ index ∧ p ∈ ps ∧ (parsePattern (Gw.toBytes p)).isValid = true ∧
        (parsePattern (Gw.toBytes p)).matches (Gw.toBytes name) = true := by
  rw [Gw.mem_resetMatches]
  constructor
  · rintro ⟨name, hn, pat, hp, hm⟩
    obtain ⟨p, hps, rfl, hv⟩ := (Gw.mem_validPats ps pat).mp hp
    exact ⟨name, p, hn, hps, hv, hm⟩
  · rintro ⟨name, p, hn, hps, hv, hm⟩
    exact ⟨name, hn, _, (Gw.mem_validPats ps _).mpr ⟨p, hps, rfl, hv⟩, hm⟩

/-- … and, names of cached resources having no empty token, "matches" is token-wise wildcard
    matching of a pattern whose tokens are well formed (`*` one token, `>` one or more trailing
    tokens): the selection is exactly the one the property states. -/
theorem reset_selects_tokenwise (index : List (String × Nat)) (ps : List String) (eid : Nat)
    (hnames : ∀ ne ∈ index, ∀ t ∈ splitOn cDot (Gw.toBytes ne.1), t ≠ []) :
    eid ∈ Gw.resetMatches index (Gw.validPats ps) ↔
      ∃ name p, (name, eid) ∈ index ∧ p ∈ ps ∧ patTokensOK (splitOn cDot (Gw.toBytes p)) = true ∧
        tokMatch (splitOn cDot (Gw.toBytes p)) (splitOn cDot (Gw.toBytes name)) = true := by
  rw [reset_selects_exactly]
  constructor
  · rintro ⟨name, p, hn, hps, hv, hm⟩
    refine ⟨name, p, hn, hps, (parse_valid_iff _).mp hv, ?_⟩
    rw [← match_spec_valid _ _ hv (hnames _ hn)]; exact hm
  · rintro ⟨name, p, hn, hps, hv, hm⟩
    have hv' := (parse_valid_iff _).mpr hv
    refine ⟨name, p, hn, hps, hv', ?_⟩
    rw [match_spec_valid _ _ hv' (hnames _ hn)]; exact hm

/-- A resource whose re-fetch is still outstanding is not fetched again (`resetting`). -/
theorem reset_once (r : Gw.Res) : Gw.resetStarts r = true ↔ r.resetting = false := by
  unfold Gw.resetStarts; cases r.resetting <;> simp

end Resgate.C12
