import Resgate.Proofs.Http
import Resgate.Generated.Tables

/-
C17 — HTTP status mapping, service meta limits and CORS allow-list.
Only property statements live here; helper lemmas are in `Resgate/Proofs/Http.lean`.
The `_agrees` theorems tie the model to tables regenerated from /repo on every run.
-/

namespace Resgate.C17
open Resgate

/-! ### Tie: the model's tables equal what the code computes now -/

theorem errorStatusTbl_agrees :
    Generated.errorStatusTbl.all (fun p => errorStatus p.1 == p.2) = true := by decide +kernel

theorem statusErrorTbl_agrees :
    Generated.statusErrorTbl.all (fun p => statusError p.1 == p.2) = true := by decide +kernel

theorem statusPredTbl_agrees :
    Generated.statusPredTbl.all
      (fun p => isDirectStatus p.1 == p.2.1 && isValidStatus p.1 == p.2.2) = true := by
  decide +kernel

/-- Every sampled header name: canonical form as the model computes it, and merging it leaves
    the five protected entries untouched exactly as the model predicts. -/
theorem mergeProtectedTbl_agrees :
    Generated.mergeProtectedTbls.all (fun tbl => tbl.all fun p =>
      canonicalMIME p.1 == p.2.1 &&
      (protectedNames.all fun q =>
        hdrGet (mergeHeader (protectedNames.map fun n => (n, [[111]])) [(canonicalMIME p.1, [[118]])]) q
          == some [[111]]) == p.2.2) = true := by
  decide +kernel

/-! ### The fixed status table of the property -/

/-- notFound, methodNotFound, timeout: 404; accessDenied: 401; forbidden: 403;
    methodNotAllowed: 405; subjectTooLong: 414; internalError: 500; serviceUnavailable: 503. -/
theorem errorStatus_listed :
    errorStatus "system.notFound" = 404 ∧ errorStatus "system.methodNotFound" = 404 ∧
    errorStatus "system.timeout" = 404 ∧ errorStatus "system.accessDenied" = 401 ∧
    errorStatus "system.forbidden" = 403 ∧ errorStatus "system.methodNotAllowed" = 405 ∧
    errorStatus "system.subjectTooLong" = 414 ∧ errorStatus "system.internalError" = 500 ∧
    errorStatus "system.serviceUnavailable" = 503 := by decide

/-- … anything else: 400 — for every string, not a sample. -/
theorem errorStatus_otherwise (code : String)
    (h : code ∉ ["system.notFound", "system.methodNotFound", "system.timeout", "system.accessDenied",
      "system.methodNotAllowed", "system.internalError", "system.serviceUnavailable",
      "system.forbidden", "system.subjectTooLong"]) : errorStatus code = 400 :=
  Resgate.errorStatus_default code h

/-- A meta status is honoured (ends the request) only within 300–599, for every integer. -/
theorem direct_status_range (s : Int) : isDirectStatus (some s) = true ↔ 300 ≤ s ∧ s < 600 :=
  Resgate.isDirectStatus_iff s

theorem no_status_not_direct : isDirectStatus none = false := rfl

theorem valid_status_range (s : Int) : isValidStatus (some s) = true ↔ 300 ≤ s ∧ s < 600 :=
  Resgate.isValidStatus_iff s

/-- The error reported for a status-only 4xx/5xx meta answer is a pre-defined error whose own HTTP
    status class agrees with the supplied one for the codes the table names. -/
theorem statusError_roundtrip :
    ∀ s ∈ [401, 403, 404, 405, 500, 503], (errorStatus (statusError s) : Int) = s := by decide

/-! ### Protected headers -/

/-- Meta headers can never replace Content-Type, Access-Control-Allow-Origin,
    Access-Control-Allow-Credentials or the Sec-WebSocket-* headers: for every target header, every
    meta header (any names, any values), each protected entry is unchanged by the merge. -/
theorem merge_protects (a b : Headers) (k : Bytes) (hk : k ∈ protectedNames) :
    hdrGet (mergeHeader a b) k = hdrGet a k :=
  Resgate.merge_protects a b k hk

/-- … and no spelling of a protected name escapes: every name equal to a protected one ignoring
    ASCII case is canonicalised (by `Meta.Canonicalize`, before the merge) to exactly that key. -/
theorem canon_protected (k p : Bytes) (hp : p ∈ protectedNames)
    (heq : toLowerASCII k = toLowerASCII p) : canonicalMIME k = p :=
  Resgate.canon_protected k p hp heq

/-- Set-Cookie values accumulate. -/
theorem set_cookie_accumulates (a : Headers) (v : List Bytes) :
    hdrGet (mergeHeader a [(hSetCookie, v)]) hSetCookie = some ((hdrGet a hSetCookie).getD [] ++ v) :=
  Resgate.set_cookie_accumulates a v

/-! ### Origins -/

/-- With lower-cased allow-list entries (as `Config.prepare` stores them), an origin is accepted
    iff it equals a listed origin ignoring ASCII case — for all byte strings, including invalid
    UTF-8. -/
theorem origin_spec (os : List Bytes) (o : Bytes) (hos : ∀ s ∈ os, toLowerASCII s = s) :
    matchesOrigins os o = true ↔ toLowerASCII o ∈ os :=
  Resgate.matchesOrigins_iff os o hos

/-- **Refusal.** With an allow-list (not `*`), a request whose Origin header is present — even with
    an empty value — and is neither `null` nor equal to a listed origin ignoring ASCII case is
    refused, for HTTP (403, no service request follows) and for the WebSocket upgrade alike; every
    other request is let through. -/
theorem cors_refusal_iff (os : List Bytes) (origin : Option Bytes) (hstar : os.head? ≠ some bStar)
    (hos : ∀ s ∈ os, toLowerASCII s = s) :
    ((corsDecision os origin).refused = true ↔
      ∃ o, origin = some o ∧ o ≠ bNull ∧ toLowerASCII o ∉ os) ∧
    (wsOriginOK os origin = !(corsDecision os origin).refused) := by
  have hm := fun o => Resgate.matchesOrigins_iff os o hos
  cases origin with
  | none => simp [corsDecision, wsOriginOK, hstar]
  | some o =>
    by_cases hn : o = bNull
    · simp [corsDecision, wsOriginOK, hstar, hn]
    · by_cases hmo : matchesOrigins os o = true
      · have := (hm o).mp hmo
        simp [corsDecision, wsOriginOK, hstar, hn, hmo, this]
      · have h2 : toLowerASCII o ∉ os := fun h => hmo ((hm o).mpr h)
        simp [corsDecision, wsOriginOK, hstar, hn, hmo, h2]

/-- With `*` nothing is refused. -/
theorem cors_star (os : List Bytes) (origin : Option Bytes) (hstar : os.head? = some bStar) :
    (corsDecision os origin).refused = false ∧ wsOriginOK os origin = true := by
  simp [corsDecision, wsOriginOK, hstar]

/-! ### Non-vacuity -/

-- an empty Origin header is refused
example : (corsDecision [[104, 116, 116, 112, 58, 47, 47, 97]] (some [])).refused = true := by decide

example : hContentType ∈ protectedNames := by decide
example : toLowerASCII [99, 79, 110, 84, 69, 78, 84, 45, 116, 121, 112, 101] = toLowerASCII hContentType := by
  decide
example : ∀ s ∈ [[104, 116, 116, 112, 58, 47, 47, 97]], toLowerASCII s = s := by decide
example : matchesOrigins [[104, 116, 116, 112, 58, 47, 47, 97]] [72, 84, 84, 80, 58, 47, 47, 65] = true := by
  decide
-- the pre-fix behaviour (D5) is excluded: two different invalid bytes do not match
example : matchesOrigins [[97, 255]] [97, 254] = false := by decide

end Resgate.C17
