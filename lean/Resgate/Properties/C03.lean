import Resgate.Proofs.GwPure
import Resgate.Proofs.Version
import Resgate.Proofs.Mailbox

/-
C03 — Per-resource event delivery is ordered, gap-free and duplicate-free.
-/

namespace Resgate.C03
open Resgate Resgate.EvQ

/-- For every interleaving of arriving events, starts of queueing and flushes — including flushes
    in which a processed event starts queueing again, so that the not yet processed events are put
    back in front — `processed ++ waiting = received` in order, and nothing waits unless queueing. -/
theorem queue_preserves_order {ε} (ops : List (Op ε)) (q : Q ε)
    (hw : q.queueing = false → q.waiting = []) :
    let q' := ops.foldl Q.step q
    q'.done ++ q'.waiting = q.done ++ q.waiting ++ received ops ∧
    (q'.queueing = false → q'.waiting = []) :=
  Resgate.EvQ.queue_preserves_order ops q hw

/-- A cache entry's mailbox runs normal items in enqueue order … -/
theorem mailbox_fifo (e : Gw.Entry) (st : Nat) (it : Gw.CItem) (rest : List (Nat × Gw.CItem))
    (hl : e.locks = none) (hq : e.queue = (st, it) :: rest) :
    Gw.mbNext e = .normal it { e with queue := rest } :=
  Gw.mbNext_fifo e st it rest hl hq

/-- … and never while a query-event lock is active. -/
theorem mailbox_locked (e : Gw.Entry) (h : e.locks.isSome = true) :
    ∀ it e', Gw.mbNext e ≠ .normal it e' :=
  Gw.mbNext_locked e h

/-- Over whole runs of a cache entry's mailbox — any interleaving of enqueues, query-event locks,
    arriving unlock items and worker steps: the normal items run so far, followed by those still
    waiting, are exactly the items that were there plus those enqueued, in order (none lost, none
    twice, none overtaking another). The three write operations are the functions the gateway model
    itself uses (`Entry.push`, `Entry.pushUnlock`, `Entry.lockFor`), the worker step is `mbNext`. -/
theorem mailbox_run_in_order (ops : List Gw.Mailbox.Op) (m : Gw.Mailbox.MB) :
    (ops.foldl Gw.Mailbox.step m).ran ++ Gw.Mailbox.items (ops.foldl Gw.Mailbox.step m).e.queue
      = m.ran ++ Gw.Mailbox.items m.e.queue ++ Gw.Mailbox.enqueued ops :=
  Gw.Mailbox.run_spec ops m

/-- … and a worker step under an active lock runs none of them. -/
theorem mailbox_run_locked (m : Gw.Mailbox.MB) (h : m.e.locks.isSome = true) :
    (Gw.Mailbox.step m .pop).ran = m.ran :=
  Gw.Mailbox.pop_locked m h

/-- What a subscriber delivers is a contiguous suffix of the resource's stream from the snapshot
    point, preceded only by custom events already stamped with the snapshot version (so nothing is
    skipped once the resource has been handed over, and nothing is delivered twice). -/
theorem contiguous_after_snapshot {α} (r0 : Snap.RS α) (pre mid post : List (Option α)) :
    let rp := r0.run pre
    let rq := rp.run mid
    let s := Snap.Sub.runEvs ⟨rq.1, rq.2, []⟩ (Snap.emit rp (mid ++ post))
    ∃ old, s.delivered = old ++ Snap.emit rq post ∧ ∀ e ∈ old, e.upd = none ∧ e.ver = rq.2 :=
  (Resgate.Snap.snapshot_replay r0 pre mid post).2.2

example : (Q.step (⟨[1], [], false⟩ : Q Nat) (.recv 2)).done = [1, 2] := by decide
example : (Q.step (⟨[1], [], true⟩ : Q Nat) (.recv 2)).waiting = [2] := by decide

end Resgate.C03
