import Resgate.Proofs.GwPure
import Resgate.Proofs.Version

/-
C03 — Per-resource event delivery is ordered, gap-free and duplicate-free.
-/

namespace Resgate.C03
open Resgate Resgate.EvQ

/-- For every interleaving of arriving events, starts of queueing and flushes — including flushes
    in which a processed event starts queueing again, so that the not yet processed events are put
    back in front — `processed ++ waiting = received` in order, and nothing waits unless queueing. -/
theorem queue_preserves_order {ε} (ops : List (Op ε)) (q : Q ε)
    (hw : q.queueing = false → q.waiting = []) :
    let q' := ops.foldl Q.step q
    q'.done ++ q'.waiting = q.done ++ q.waiting ++ received ops ∧
    (q'.queueing = false → q'.waiting = []) :=
  Resgate.EvQ.queue_preserves_order ops q hw

/-- A cache entry's mailbox runs normal items in enqueue order … -/
theorem mailbox_fifo (e : Gw.Entry) (st : Nat) (it : Gw.CItem) (rest : List (Nat × Gw.CItem))
    (hl : e.locks = none) (hq : e.queue = (st, it) :: rest) :
    Gw.mbNext e = .normal it { e with queue := rest } :=
  Gw.mbNext_fifo e st it rest hl hq

/-- … and never while a query-event lock is active. -/
theorem mailbox_locked (e : Gw.Entry) (h : e.locks.isSome = true) :
    ∀ it e', Gw.mbNext e ≠ .normal it e' :=
  Gw.mbNext_locked e h

/-- What a subscriber delivers is a contiguous suffix of the resource's stream from the snapshot
    point, preceded only by custom events already stamped with the snapshot version (so nothing is
    skipped once the resource has been handed over, and nothing is delivered twice). -/
theorem contiguous_after_snapshot {α} (r0 : Snap.RS α) (pre mid post : List (Option α)) :
    let rp := r0.run pre
    let rq := rp.run mid
    let s := Snap.Sub.runEvs ⟨rq.1, rq.2, []⟩ (Snap.emit rp (mid ++ post))
    ∃ old, s.delivered = old ++ Snap.emit rq post ∧ ∀ e ∈ old, e.upd = none ∧ e.ver = rq.2 :=
  (Resgate.Snap.snapshot_replay r0 pre mid post).2.2

example : (Q.step (⟨[1], [], false⟩ : Q Nat) (.recv 2)).done = [1, 2] := by decide
example : (Q.step (⟨[1], [], true⟩ : Q Nat) (.recv 2)).waiting = [2] := by decide

end Resgate.C03
