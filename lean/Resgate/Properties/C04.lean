import Resgate.Proofs.GwPure

/-
C04 — Read access gating.  Theorems: what counts as a grant, what is cached.  That data is only
handed out under a valid grant is NOT proved (false of the code: known finding D11) and is carried
by the lockstep correspondence and the grant monitor.
-/

namespace Resgate.C04
open Resgate Resgate.Gw

/-- Get access is granted iff the access answer has no error and `get` is true; any error is a
    denial with that error; a result without `get` is `system.accessDenied`. -/
theorem canGet_spec (a : Access) :
    (a.canGet = none ↔ a.err = none ∧ a.get = true) ∧
    (∀ e, a.err = some e → a.canGet = some e) ∧
    (a.err = none → a.get = false → a.canGet = some "system.accessDenied") :=
  Gw.canGet_spec a

/-- A verdict is stored on the subscription only for a result or `system.accessDenied`; a
    timeout, missing result or other error is never cached, so the next request asks again. -/
theorem verdict_stored_iff (a : Access) :
    storeVerdict a = true ↔ a.err = none ∨ a.err = some "system.accessDenied" :=
  Gw.storeVerdict_spec a

example : (⟨none, true, "*"⟩ : Access).canGet = none := by decide
example : (⟨some "system.timeout", false, ""⟩ : Access).canGet = some "system.timeout" := by decide
example : storeVerdict ⟨some "system.timeout", false, ""⟩ = false := by decide

/-- **A remembered verdict is the last one stored, and no trigger came after it.** For every
    history of access answers and invalidating triggers (token event on a connection that had a
    token, reaccess event, matching system reset — `handleReaccess` in each case), most recent
    first: the verdict a subscription remembers (`verdictAfter`, a fold of the `verdictStep` the
    model's connection actor applies) is `a` iff `a` was stored (an actual result or
    `system.accessDenied`), every later answer was one that is not stored (timeout, other errors),
    and **no trigger occurred since**. So data or a call served from the remembered verdict is
    served under an answer that is still valid (C04, C05), and after a trigger the next request
    asks the service again (C06). -/
theorem remembered_verdict_iff (h : List VEv) (a : Access) :
    verdictAfter h = some a ↔
      ∃ newer older, h = newer ++ VEv.answer a :: older ∧ storeVerdict a = true ∧
        ∀ e ∈ newer, ∃ b, e = VEv.answer b ∧ storeVerdict b = false := by
  induction h with
  | nil =>
    constructor
    · intro hh; simp [verdictAfter] at hh
    · rintro ⟨newer, older, he, _⟩
      cases newer <;> simp at he
  | cons e rest ih =>
    cases e with
    | trigger =>
      constructor
      · intro hh; simp [verdictAfter, verdictStep] at hh
      · rintro ⟨newer, older, he, hs, hn⟩
        cases newer with
        | nil => simp at he
        | cons x xs =>
          simp only [List.cons_append, List.cons.injEq] at he
          obtain ⟨b, hb, _⟩ := hn x (by simp)
          rw [← he.1] at hb; cases hb
    | answer b =>
      by_cases hsb : storeVerdict b = true
      · constructor
        · intro hh
          simp only [verdictAfter, verdictStep, hsb, if_true, Option.some.injEq] at hh
          subst hh
          exact ⟨[], rest, rfl, hsb, fun _ h => by cases h⟩
        · rintro ⟨newer, older, he, hs, hn⟩
          cases newer with
          | nil =>
            simp only [List.nil_append, List.cons.injEq, VEv.answer.injEq] at he
            obtain ⟨rfl, _⟩ := he
            simp only [verdictAfter, verdictStep, hsb, if_true]
          | cons x xs =>
            simp only [List.cons_append, List.cons.injEq] at he
            obtain ⟨c, hc, hcs⟩ := hn x (by simp)
            rw [← he.1] at hc
            cases hc
            rw [hsb] at hcs; cases hcs
      · have hsb' : storeVerdict b = false := by simpa using hsb
        constructor
        · intro hh
          simp only [verdictAfter, verdictStep, hsb', Bool.false_eq_true, if_false] at hh
          obtain ⟨newer, older, he, hs, hn⟩ := ih.mp hh
          refine ⟨VEv.answer b :: newer, older, by rw [he]; rfl, hs, ?_⟩
          intro e hm
          rcases List.mem_cons.mp hm with rfl | hm'
          · exact ⟨b, rfl, hsb'⟩
          · exact hn e hm'
        · rintro ⟨newer, older, he, hs, hn⟩
          cases newer with
          | nil =>
            simp only [List.nil_append, List.cons.injEq, VEv.answer.injEq] at he
            rw [he.1] at hsb'; rw [hsb'] at hs; cases hs
          | cons x xs =>
            simp only [List.cons_append, List.cons.injEq] at he
            simp only [verdictAfter, verdictStep, hsb', Bool.false_eq_true, if_false]
            exact ih.mpr ⟨xs, older, he.2, hs, fun e hm => hn e (List.mem_cons_of_mem _ hm)⟩

/-- After a trigger nothing is remembered, whatever came before. -/
theorem trigger_forgets (h : List VEv) : verdictAfter (VEv.trigger :: h) = none := rfl

end Resgate.C04
