import Resgate.Proofs.GwPure

/-
C04 — Read access gating.  Theorems: what counts as a grant, what is cached.  That data is only
handed out under a valid grant is NOT proved (false of the code: known finding D11) and is carried
by the lockstep correspondence and the grant monitor.
-/

namespace Resgate.C04
open Resgate Resgate.Gw

/-- Get access is granted iff the access answer has no error and `get` is true; any error is a
    denial with that error; a result without `get` is `system.accessDenied`. -/
theorem canGet_spec (a : Access) :
    (a.canGet = none ↔ a.err = none ∧ a.get = true) ∧
    (∀ e, a.err = some e → a.canGet = some e) ∧
    (a.err = none → a.get = false → a.canGet = some "system.accessDenied") :=
  Gw.canGet_spec a

/-- A verdict is stored on the subscription only for a result or `system.accessDenied`; a
    timeout, missing result or other error is never cached, so the next request asks again. -/
theorem verdict_stored_iff (a : Access) :
    storeVerdict a = true ↔ a.err = none ∨ a.err = some "system.accessDenied" :=
  Gw.storeVerdict_spec a

example : (⟨none, true, "*"⟩ : Access).canGet = none := by decide
example : (⟨some "system.timeout", false, ""⟩ : Access).canGet = some "system.timeout" := by decide
example : storeVerdict ⟨some "system.timeout", false, ""⟩ = false := by decide

end Resgate.C04
