import Resgate.Proofs.GwPure
import Resgate.Generated.Tables

/-
C08 — Direct subscription accounting.  Theorems: the unsubscribe precondition and the limit.
That `direct` counts only established subscriptions is NOT proved (false: known finding D2).
-/

namespace Resgate.C08
open Resgate Resgate.Gw

theorem limit_agrees : Generated.subscriptionCountLimit = 256 := by decide

/-- An unsubscribe succeeds exactly when its count (default 1) is positive and does not exceed the
    number of direct subscriptions held; a bad or non-positive count is `system.invalidParams`,
    otherwise `system.noSubscription`. -/
theorem unsubscribe_spec (bad : Bool) (count : Int) (direct : Option Int) :
    (unsubVerdict bad count direct = .ok ↔ bad = false ∧ 0 < count ∧ ∃ d, direct = some d ∧ count ≤ d) ∧
    (unsubVerdict bad count direct = .invalidParams ↔ bad = true ∨ count ≤ 0) :=
  Gw.unsubVerdict_spec bad count direct

/-- At 256 direct subscriptions a further one is refused; below, the count grows by one. -/
theorem limit_spec (d : Int) :
    (addDirect 256 d = none ↔ 256 ≤ d) ∧ (d < 256 → addDirect 256 d = some (d + 1)) :=
  Gw.addDirect_spec 256 d

example : unsubVerdict false 2 (some 2) = .ok := by decide
example : unsubVerdict false 3 (some 2) = .noSubscription := by decide
example : unsubVerdict false 0 (some 2) = .invalidParams := by decide
example : addDirect 256 256 = none := by decide

end Resgate.C08
