import Resgate.Proofs.GwPure
import Resgate.Proofs.Direct
import Resgate.Generated.Tables

/-
C08 — Direct subscription accounting.  Theorems: the unsubscribe precondition and the limit.
That `direct` counts only established subscriptions is NOT proved (false: known finding D2).
-/

namespace Resgate.C08
open Resgate Resgate.Gw

theorem limit_agrees : Generated.subscriptionCountLimit = 256 := by decide

/-- An unsubscribe succeeds exactly when its count (default 1) is positive and does not exceed the
    number of direct subscriptions held; a bad or non-positive count is `system.invalidParams`,
    otherwise `system.noSubscription`. -/
theorem unsubscribe_spec (bad : Bool) (count : Int) (direct : Option Int) :
    (unsubVerdict bad count direct = .ok ↔ bad = false ∧ 0 < count ∧ ∃ d, direct = some d ∧ count ≤ d) ∧
    (unsubVerdict bad count direct = .invalidParams ↔ bad = true ∨ count ≤ 0) :=
  Gw.unsubVerdict_spec bad count direct

/-- At 256 direct subscriptions a further one is refused; below, the count grows by one. -/
theorem limit_spec (d : Int) :
    (addDirect 256 d = none ↔ 256 ≤ d) ∧ (d < 256 → addDirect 256 d = some (d + 1)) :=
  Gw.addDirect_spec 256 d

example : unsubVerdict false 2 (some 2) = .ok := by decide
example : unsubVerdict false 3 (some 2) = .noSubscription := by decide
example : unsubVerdict false 0 (some 2) = .invalidParams := by decide
example : addDirect 256 256 = none := by decide

/-! ### The counter as a machine over the model's own decision functions -/

/-- Each step of the gateway's direct-count bookkeeping (`addDirect`, `unsubVerdict`, the reset by an
    unsubscribe event) is the step of a plain counter: +1 below the limit, −count for an
    unsubscribe request with `0 < count ≤ n`, 0 after an unsubscribe event; every other request is
    refused with the stated error. -/
theorem direct_count_refines_counter (limit d : Int) (op : Direct.Op) :
    Direct.step limit d op = Direct.spec limit d op :=
  Direct.step_eq_spec limit d op

/-- For every sequence of subscribes, unsubscribe requests (any count, any parameters) and
    unsubscribe events, the count stays within `0..limit`. -/
theorem direct_count_bounds (limit : Int) (hl : 0 ≤ limit) (ops : List Direct.Op) :
    0 ≤ (Direct.run limit 0 ops).1 ∧ (Direct.run limit 0 ops).1 ≤ limit :=
  Direct.bounds limit hl ops 0 (Int.le_refl 0) hl

/-- A refused request leaves the count unchanged. -/
theorem refused_request_leaves_nothing (limit d : Int) (op : Direct.Op)
    (h : (Direct.step limit d op).2 = .limitExceeded ∨ (Direct.step limit d op).2 = .invalidParams ∨
         (Direct.step limit d op).2 = .noSubscription) : (Direct.step limit d op).1 = d :=
  Direct.refused_leaves_nothing limit d op h

end Resgate.C08
