import Resgate.Proofs.Nats

/-
C18 — Messaging adapter contract.  The model is the per-request state machine of the adapter
(pending with one live timer, or done) and the control-line guard.  Timers are real time: the
theorems say what happens for every ORDER of replies, pre-responses and timer fires; that a live
timer eventually fires is a runtime fact observed by the correspondence run (partial).
-/

namespace Resgate.C18
open Resgate.Nats

/-- For every sequence of replies, pre-responses, no-responder statuses and timer fires the
    completion callback is invoked at most once — never twice, never both a reply and a timeout. -/
theorem at_most_once (s : St) (is : List In) : (run s is).2.length ≤ 1 :=
  Nats.at_most_once s is

/-- After completion nothing further is delivered. -/
theorem done_is_final (is : List In) : (run .done is).2 = [] := Nats.done_is_final is

/-- A pending request always owns exactly one live timer whose firing completes it with
    system.timeout (so it completes exactly once provided time advances). -/
theorem live_timer_completes (t : Timer) (g : Nat) :
    (match t with
     | .queue => step (.pending t g) .fireQueue
     | .extended k => step (.pending t g) (.fireExtended k)) = (.done, some .timeout) :=
  Nats.live_timer_completes t g

/-- The first reply that is not a pre-response wins; an empty 503 status yields system.notFound. -/
theorem first_reply_wins (t : Timer) (g : Nat) :
    step (.pending t g) .reply = (.done, some .reply) ∧
    step (.pending t g) .noResponders = (.done, some .notFound) :=
  Nats.first_reply_wins t g

/-- A subject is refused (system.subjectTooLong) iff its PUB control line would not fit; whatever
    passes the guard fits the server's control line. -/
theorem guard_exact (n d : Nat) : requestRefused n d = true ↔ pubArgLen n d > maxControlLine :=
  Nats.guard_spec n d

theorem guard_sound (n d : Nat) (h : requestRefused n d = false) : pubArgLen n d ≤ maxControlLine :=
  Nats.guard_sound n d h

example : (run (.pending .queue 0) [.pre true, .fireQueue, .reply, .fireExtended 1]).2 = [.reply] := by decide
example : (run (.pending .queue 0) [.pre true, .fireExtended 1, .reply]).2 = [.timeout] := by decide

end Resgate.C18
