import Resgate.Proofs.Version
import Resgate.Proofs.Pattern
import Resgate.Proofs.Throttle

/-
C15 — Crash freedom and containment of malformed input.
-/

namespace Resgate.C15
open Resgate Resgate.Gw

/-- A malformed or undecodable state event is discarded as a whole: the cached resource is
    unchanged and nothing is handed to subscribers. -/
theorem malformed_discarded (r : Res) (ev : REv) (h : ev.data = .bad) : applyStateEvent r ev = none :=
  Gw.applyStateEvent_bad r ev h

/-- Events of the wrong kind for the resource are discarded. -/
theorem wrong_kind_discarded (r : Res) (ev : REv) :
    (ev.name = "change" → r.state = .collection → applyStateEvent r ev = none) ∧
    (ev.name = "add" → r.state = .model → applyStateEvent r ev = none) ∧
    (ev.name = "remove" → r.state = .model → applyStateEvent r ev = none) :=
  Gw.applyStateEvent_wrong_kind r ev

/-- Accepted add / remove events are within bounds (out-of-range and negative indexes are discarded). -/
theorem bounds_checked {r r' : Res} {ev ev' : REv} (h : applyStateEvent r ev = some (r', ev')) :
    (ev.name = "add" → 0 ≤ ev'.idx ∧ ev'.idx ≤ r.coll.length) ∧
    (ev.name = "remove" → 0 ≤ ev'.idx ∧ ev'.idx < r.coll.length) := by
  have := Gw.applyStateEvent_checks h
  exact ⟨fun hn => (this.2.1 hn).2, fun hn => (this.2.2 hn).2⟩

/-- The wildcard matcher never indexes out of range, for any pattern value and name. -/
theorem match_never_panics (p : Pattern) (s : Bytes) : (p.matches? s).isSome = true :=
  Resgate.match_total p s

/-- The throttle panics only on a `Done` with nothing running. -/
theorem throttle_panic_iff (t : Resgate.Throttle) (op : TOp) :
    t.step op = none ↔ op = .done ∧ t.running ≤ 0 :=
  Resgate.Throttle.step_none_iff t op

end Resgate.C15
