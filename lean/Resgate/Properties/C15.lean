import Resgate.Proofs.Version
import Resgate.Proofs.Pattern
import Resgate.Proofs.Throttle
import Resgate.Proofs.Collector

/-
C15 — Crash freedom and containment of malformed input.
-/

namespace Resgate.C15
open Resgate Resgate.Gw

/-- A malformed or undecodable state event is discarded as a whole: the cached resource is
    unchanged and nothing is handed to subscribers. -/
theorem malformed_discarded (r : Res) (ev : REv) (h : ev.data = .bad) : applyStateEvent r ev = none :=
  Gw.applyStateEvent_bad r ev h

/-- Events of the wrong kind for the resource are discarded. -/
theorem wrong_kind_discarded (r : Res) (ev : REv) :
    (ev.name = "change" → r.state = .collection → applyStateEvent r ev = none) ∧
    (ev.name = "add" → r.state = .model → applyStateEvent r ev = none) ∧
    (ev.name = "remove" → r.state = .model → applyStateEvent r ev = none) :=
  Gw.applyStateEvent_wrong_kind r ev

/-- Accepted add / remove events are within bounds (out-of-range and negative indexes are discarded). -/
theorem bounds_checked {r r' : Res} {ev ev' : REv} (h : applyStateEvent r ev = some (r', ev')) :
    (ev.name = "add" → 0 ≤ ev'.idx ∧ ev'.idx ≤ r.coll.length) ∧
    (ev.name = "remove" → 0 ≤ ev'.idx ∧ ev'.idx < r.coll.length) := by
  have := Gw.applyStateEvent_checks h
  exact ⟨fun hn => (this.2.1 hn).2, fun hn => (this.2.2 hn).2⟩

/-- The wildcard matcher never indexes out of range, for any pattern value and name. -/
theorem match_never_panics (p : Pattern) (s : Bytes) : (p.matches? s).isSome = true :=
  Resgate.match_total p s

/-- The throttle panics only on a `Done` with nothing running. -/
theorem throttle_panic_iff (t : Resgate.Throttle) (op : TOp) :
    t.step op = none ↔ op = .done ∧ t.running ≤ 0 :=
  Resgate.Throttle.step_none_iff t op

/-- **The connection's collector cannot dereference a missing entry** (`wsConn.tryDelete` as repaired
    by `fb6e752`; `pass1F` / `pass2F` are the traversals the model's `tryDeleteCore` runs). For every
    connection state — any reference graph among the subscription objects, including disposed
    objects that are still referenced and several objects for one resource id, which is what the
    count defects D7/D9 leave behind — every root, every order of the ranges over the `refs` maps
    in either traversal: once the first traversal has completed, its table is closed under
    references and the second traversal finds an entry for every subscription it meets. The crash
    P4 (nil dereference at `wsConnGC.go:73`, found by the thorough tier) is therefore excluded for
    the repaired algorithm, not just for the histories that were run. -/
theorem collector_never_meets_unregistered (ord ord2 : Nat) (sd : Int) (sent : Bool) (c : Gw.Conn) (root : Nat)
    (e0 : String × Nat × Int × Int × Nat) (he0 : e0.2.1 = root) (hnd : ¬ Gw.Dir c root)
    (fuel ctr fuel2 ctr2 state2 : Nat)
    (hok : (Gw.pass1F ord sd fuel c root 1 [e0] ctr).2.2 = true) :
    (Gw.pass2F ord2 sent fuel2 c root state2 (Gw.pass1F ord sd fuel c root 1 [e0] ctr).1 ctr2).2.2.2 = true :=
  (Gw.collector_second_pass_total ord ord2 sd sent c root e0 he0 hnd fuel ctr fuel2 ctr2 state2 hok).2

/-- Non-vacuity: a chain 1 → 2 → 3 → 4 → 5 in which objects 2 and 4 carry the same resource id (4 is
    a leftover): the first traversal completes with fuel 6 and registers all five, the second meets
    only registered ones. (Keyed by resource id, object 4 would have shared the entry of object 2
    and object 5 would never have been registered.) -/
def dupChain : Gw.Conn :=
  { cid := 0, objs := [
      (1, { uid := 1, rid := "m.a", name := "m.a", query := "", state := .sent, refs := [("m.b", 2, 1)] }),
      (2, { uid := 2, rid := "m.b", name := "m.b", query := "", state := .sent, indirect := 1, refs := [("m.c", 3, 1)] }),
      (3, { uid := 3, rid := "m.c", name := "m.c", query := "", state := .sent, indirect := 1, refs := [("m.b", 4, 1)] }),
      (4, { uid := 4, rid := "m.b", name := "m.b", query := "", state := .disposed, indirect := 1, refs := [("m.d", 5, 1)] }),
      (5, { uid := 5, rid := "m.d", name := "m.d", query := "", state := .sent, indirect := 1 })] }

example : (Gw.pass1F 0 1 6 dupChain 1 1 [("m.a", 1, 0, 0, 2)] 0).2.2 = true ∧
    (Gw.pass1F 0 1 6 dupChain 1 1 [("m.a", 1, 0, 0, 2)] 0).1.length = 5 ∧
    (Gw.pass2F 0 true 6 dupChain 1 3 (Gw.pass1F 0 1 6 dupChain 1 1 [("m.a", 1, 0, 0, 2)] 0).1 0).2.2.2 = true := by
  decide +kernel

end Resgate.C15
