import Resgate.Proofs.Encode
import Resgate.Proofs.EncodeSpec
import Resgate.Proofs.Path

/-
C16 — HTTP resources are a faithful, finite rendering of the resource graph.
The encoders are modelled as written (string concatenation along the walk, `path` stack); their
definition by well-founded recursion on the number of graph nodes not on the path is accepted by
Lean, which is the proof that the expansion terminates on every finite graph, cyclic or not.
`get_is_rendered_expansion` is the full statement for GET: the bytes the encoders write are the
print-out of the recursive expansion (a JSON tree: `Model/EncodeSpec.lean`), whose printer emits
well-formed JSON by construction given well-formed leaves (service values, validated by
`encoding/json` when they enter the cache).
POST (result verbatim / 204 / Location) is not modelled yet.
-/

namespace Resgate.C16
open Resgate.Enc

/-- **GET returns the printed recursive expansion**, for every graph (cycles of any length, shared
    children, error leaves, soft references, data values), both encodings and every prefix:
    referenced resources nested in place (`wrapJ`: href plus model/collection/error in `json`, the
    bare content in `jsonflat`), soft references and path re-entries as href only, data values
    unwrapped, failed references as their error. -/
theorem get_is_rendered_expansion (g : HGraph) (pref : String) (flat : Bool) (rid : String) :
    encodeGET g pref flat rid = (expandGET g pref flat rid).map J.render :=
  encodeGET_eq_render g pref flat rid

/-- The same below the root: a reference at any depth prints the expansion of its target. -/
theorem reference_is_rendered_expansion (g : HGraph) (pref : String) (flat : Bool) (path : List String) (rid : String) :
    encSub g pref flat path rid true = (expSub g pref flat path rid true).map J.render :=
  encSub_eq_render g pref flat _ path rfl rid true (Or.inl rfl)

/-- **RID ↔ path round trip.** For every resource id — any bytes, incl. a query part, `{cid}`,
    characters needing escaping — that is non-empty and does not start with a dot, every prefix and
    every request query, the path printed by `RIDToPath` (hrefs, `Location`) is mapped back to that
    resource id by `PathToRID`. -/
theorem href_round_trip (rid pref q : Resgate.Bytes) (hne : rid ≠ []) (hhead : rid.head? ≠ some Resgate.cDot)
    (hb : ∀ b ∈ rid, b < 256) :
    pathToRID (ridToPathB rid pref) q pref = if q.isEmpty then rid else rid ++ Resgate.cQm :: q :=
  pathToRID_ridToPathB rid pref q hne hhead hb

/-- On every finite graph in which references resolve (cycles of any length, self references,
    shared children, error leaves), GET produces a body for every resource — the expansion
    terminates with a result, for both encoders and every apiPath prefix. -/
theorem get_total (g : HGraph) (hc : Closed g) (pref : String) (flat : Bool) (rid : String)
    (h : (lookup g rid).isSome = true) : (encodeGET g pref flat rid).isSome = true :=
  encodeGET_isSome g hc pref flat rid h

/-- A reference that would re-enter a resource already on the current expansion path is rendered
    as href only. -/
theorem reentry_is_href_only (g : HGraph) (pref : String) (flat : Bool) (path : List String) (rid : String)
    (h : rid ∈ path) : encSub g pref flat path rid true = some (href rid pref ++ "}") :=
  encSub_reentry g pref flat path rid h

/-- Soft references are href only, data values are unwrapped, primitives verbatim. -/
theorem leaves (g : HGraph) (pref : String) (flat : Bool) (path : List String) (rid raw : String) :
    encVal g pref flat path (.soft rid) = some (href rid pref ++ "}") ∧
    encVal g pref flat path (.data raw) = some raw ∧
    encVal g pref flat path (.prim raw) = some raw :=
  encVal_leaves g pref flat path rid raw

/-- Failed references are rendered as their error: `{"href":…,"error":…}` in json, bare in jsonflat. -/
theorem failed_reference (g : HGraph) (pref : String) (path : List String) (rid e : String)
    (hp : rid ∉ path) (hl : lookup g rid = some (.err e)) :
    encSub g pref false path rid true = some (href rid pref ++ ",\"error\":" ++ e ++ "}") ∧
    encSub g pref true path rid true = some e :=
  encSub_error g pref path rid e hp hl

/-- The termination measure strictly decreases when a resource is entered. -/
theorem measure_decreases (g : HGraph) (path : List String) (rid : String) (n : HNode)
    (hl : lookup g rid = some n) (hp : rid ∉ path) : offPath g (rid :: path) < offPath g path :=
  offPath_lt g path rid n hl hp

-- non-vacuity: a two-cycle is a closed graph
example : Closed [("a", .model [("k", .ref "b")]), ("b", .coll [.ref "a", .soft "a"])] := by
  intro rid n h
  simp only [lookup, List.find?_cons] at h
  split at h
  · simp at h; subst h; intro kv hkv; simp at hkv; subst hkv; simp [valResolves, lookup]
  · split at h
    · simp at h; subst h; intro v hv; simp at hv; rcases hv with rfl | rfl <;> simp [valResolves, lookup]
    · simp at h

-- non-vacuity of the refinement: the expansion of a self-referencing model with a soft reference
example : expandGET [("a", .model [("k", .ref "a"), ("s", .soft "b")])] "/api/" false "a"
    = some (.obj [("k", hrefJ "a" "/api/"), ("s", hrefJ "b" "/api/")]) := by
  have hl : lookup [("a", HNode.model [("k", .ref "a"), ("s", .soft "b")])] "a" = some (.model [("k", .ref "a"), ("s", .soft "b")]) := by
    simp [lookup]
  rw [expandGET, expSub_model _ _ _ _ _ _ _ (by simp) hl]
  rw [expKVs, expVal, expSub, expKVs, expVal, expKVs]
  simp [wrapJ]

-- non-vacuity of the round trip: "a.b?x" with prefix "/api/"
example : pathToRID (ridToPathB [97, 46, 98, 63, 120] [47, 97, 112, 105, 47]) [] [47, 97, 112, 105, 47] = [97, 46, 98, 63, 120] := by
  decide

end Resgate.C16
