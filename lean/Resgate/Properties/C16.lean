import Resgate.Proofs.Encode

/-
C16 — HTTP resources are a faithful, finite rendering of the resource graph.
The encoders are modelled as written (string concatenation along the walk, `path` stack); their
definition by well-founded recursion on the number of graph nodes not on the path is accepted by
Lean, which is the proof that the expansion terminates on every finite graph, cyclic or not.
POST (result verbatim / 204 / Location) is not modelled yet.
-/

namespace Resgate.C16
open Resgate.Enc

/-- On every finite graph in which references resolve (cycles of any length, self references,
    shared children, error leaves), GET produces a body for every resource — the expansion
    terminates with a result, for both encoders and every apiPath prefix. -/
theorem get_total (g : HGraph) (hc : Closed g) (pref : String) (flat : Bool) (rid : String)
    (h : (lookup g rid).isSome = true) : (encodeGET g pref flat rid).isSome = true :=
  encodeGET_isSome g hc pref flat rid h

/-- A reference that would re-enter a resource already on the current expansion path is rendered
    as href only. -/
theorem reentry_is_href_only (g : HGraph) (pref : String) (flat : Bool) (path : List String) (rid : String)
    (h : rid ∈ path) : encSub g pref flat path rid true = some (href rid pref ++ "}") :=
  encSub_reentry g pref flat path rid h

/-- Soft references are href only, data values are unwrapped, primitives verbatim. -/
theorem leaves (g : HGraph) (pref : String) (flat : Bool) (path : List String) (rid raw : String) :
    encVal g pref flat path (.soft rid) = some (href rid pref ++ "}") ∧
    encVal g pref flat path (.data raw) = some raw ∧
    encVal g pref flat path (.prim raw) = some raw :=
  encVal_leaves g pref flat path rid raw

/-- Failed references are rendered as their error: `{"href":…,"error":…}` in json, bare in jsonflat. -/
theorem failed_reference (g : HGraph) (pref : String) (path : List String) (rid e : String)
    (hp : rid ∉ path) (hl : lookup g rid = some (.err e)) :
    encSub g pref false path rid true = some (href rid pref ++ ",\"error\":" ++ e ++ "}") ∧
    encSub g pref true path rid true = some e :=
  encSub_error g pref path rid e hp hl

/-- The termination measure strictly decreases when a resource is entered. -/
theorem measure_decreases (g : HGraph) (path : List String) (rid : String) (n : HNode)
    (hl : lookup g rid = some n) (hp : rid ∉ path) : offPath g (rid :: path) < offPath g path :=
  offPath_lt g path rid n hl hp

-- non-vacuity: a two-cycle is a closed graph
example : Closed [("a", .model [("k", .ref "b")]), ("b", .coll [.ref "a", .soft "a"])] := by
  intro rid n h
  simp only [lookup, List.find?_cons] at h
  split at h
  · simp at h; subst h; intro kv hkv; simp at hkv; subst hkv; simp [valResolves, lookup]
  · split at h
    · simp at h; subst h; intro v hv; simp at hv; rcases hv with rfl | rfl <;> simp [valResolves, lookup]
    · simp at h

end Resgate.C16
