import Resgate.Proofs.Access
import Resgate.Proofs.GwPure

/-
C05 — Call gating and token currency.  (Pure part: which methods an access answer grants.)
-/

namespace Resgate.C05
open Resgate

/-- The call-list scanner grants a method iff the list is `*` or the method is an exact entry of
    the comma-separated list — for ALL byte strings (prefixes, suffixes, substrings, empty
    entries). -/
theorem canCall_spec (call action : Bytes) :
    canCall call action = true ↔
      call = [cStar] ∨ (call ≠ [] ∧ action ∈ splitOn cComma call) :=
  Resgate.canCall_spec call action

/-- An empty call list grants nothing. -/
theorem canCall_empty (action : Bytes) : canCall [] action = false := rfl

/-- `*` grants every method. -/
theorem canCall_star (action : Bytes) : canCall [cStar] action = true := rfl

/-- A method that is only a proper prefix / suffix / substring of an entry is not granted. -/
theorem canCall_not_substring (call action : Bytes) (hstar : call ≠ [cStar])
    (h : action ∉ splitOn cComma call) : canCall call action = false := by
  cases hc : canCall call action with
  | false => rfl
  | true =>
    rcases (canCall_spec call action).mp hc with h1 | ⟨_, h2⟩
    · exact absurd h1 hstar
    · exact absurd h2 h

/-- What the gateway model does with an access answer when a call is waiting for it (the decision
    taken at both call sites, WebSocket and HTTP): the call goes on to the service iff the answer
    carries no error and its call list is `*` or has the method as an exact entry; an answer with an
    error refuses the call with that very error. -/
theorem call_forwarded_iff (a : Gw.Access) (action : String) :
    (a.canCallE action = none ↔
      a.err = none ∧ (Gw.toBytes a.call = [cStar] ∨
        (Gw.toBytes a.call ≠ [] ∧ Gw.toBytes action ∈ splitOn cComma (Gw.toBytes a.call)))) ∧
    (∀ e, a.err = some e → a.canCallE action = some e) := by
  refine ⟨Gw.canCallE_spec a action, ?_⟩
  intro e h
  simp [Gw.Access.canCallE, h]

-- Non-vacuity: "set,get" grants "get", not "ge", "et" or "set,get".
example : canCall [115, 101, 116, 44, 103, 101, 116] [103, 101, 116] = true := by decide
example : canCall [115, 101, 116, 44, 103, 101, 116] [103, 101] = false := by decide
example : canCall [115, 101, 116, 44, 103, 101, 116] [101, 116] = false := by decide
example : [103, 101] ∉ splitOn cComma [115, 101, 116, 44, 103, 101, 116] := by decide

end Resgate.C05
