import Resgate.Model.Encode
import Resgate.Model.HttpDispatch
import Resgate.Proofs.Rpc
import Resgate.Generated.Tables

/-
C14 — Subject hygiene and request validation.
-/

namespace Resgate.C14
open Resgate

/-- Tie: the byte classes of `IsValidRID` / `IsValidRIDPart`, for every byte in every context,
    are what the code computes now. -/
theorem ridByteTbl_agrees :
    Generated.ridByteTbl.all (fun p =>
      isValidRID [p.1] false == p.2.1 &&
      isValidRID [97, 46, p.1] false == p.2.2.1 &&
      isValidRID [97, p.1, 98] false == p.2.2.2.1 &&
      isValidRID [97, p.1, 98] true == p.2.2.2.2.1 &&
      isValidRIDPart [p.1] == p.2.2.2.2.2.1 &&
      isValidRIDPart [97, p.1] == p.2.2.2.2.2.2) = true := by decide +kernel

theorem cidPlaceholder_agrees : Generated.cidPlaceholder = sCidTag := by decide

/-- `IsValidRID` accepts exactly: a name of non-empty dot-separated tokens of printable non-space
    ASCII without `*`, `>`, `?`, optionally (only when allowed) followed by `?` and any query. -/
theorem validRID_spec (rid : Bytes) (allowQuery : Bool) :
    isValidRID rid allowQuery =
      (nameOK (cutAt cQm rid).1 && ((cutAt cQm rid).2.isNone || allowQuery)) :=
  Resgate.isValidRID_spec rid allowQuery

theorem validPart_spec (p : Bytes) : isValidRIDPart p = (!p.isEmpty && p.all okByte) :=
  Resgate.isValidRIDPart_spec p

/-- `{cid}` expansion with the connection's (non-empty, alphanumeric) id never changes validity. -/
theorem expandCID_valid (cid rid : Bytes) (aq : Bool) (hcid : cid.all okByte = true) (hne : cid ≠ []) :
    isValidRID (expandCID cid rid) aq = isValidRID rid aq :=
  Resgate.isValidRID_expandCID aq cid rid hcid hne

/-- For EVERY method string: if the dispatcher hands a request on, every subject the gateway then
    uses (`access.`, `get.`, `event.`, `call.…`, `auth.…`) consists solely of non-empty
    dot-separated tokens of printable non-space ASCII without `*`, `>`, `?`; the query never
    reaches a subject. -/
theorem rpc_subjects_hygienic (m cid : Bytes) (hcid : cid.all okByte = true) (hne : cid ≠ [])
    (k : RpcKind) (rid method : Bytes) (h : rpcDispatch m = .req k rid method) :
    ∀ s ∈ subjectsFor cid k rid method, hygienic s = true :=
  Resgate.rpc_subjects_hygienic m cid hcid hne k rid method h

/-- … and what is handed on is a valid resource id (and method). -/
theorem rpc_dispatch_valid {m : Bytes} {k : RpcKind} {rid method : Bytes}
    (h : rpcDispatch m = .req k rid method) :
    isValidRID rid true = true ∧ ((k = .call ∨ k = .auth) → isValidRIDPart method = true) :=
  Resgate.rpcDispatch_req h

/-- **HTTP.** Whatever path, query and prefix a request carries: if the resource id that
    `PathToRID` derives from them passes `IsValidRID` (otherwise the handler answers 404 without any
    service traffic), every subject of the GET is hygienic; likewise for POST with the resource id
    and action derived by `PathToRIDAction` and the additional `IsValidRIDPart` check. -/
theorem http_subjects_hygienic (cid path query pref : Bytes) (hcid : cid.all okByte = true) (hne : cid ≠ []) :
    (isValidRID (Enc.pathToRID path query pref) true = true →
      ∀ s ∈ subjectsFor cid .get (Enc.pathToRID path query pref) [], hygienic s = true) ∧
    (isValidRID (Enc.pathToRIDAction path query pref).1 true = true →
      isValidRIDPart (Enc.pathToRIDAction path query pref).2 = true →
      ∀ s ∈ subjectsFor cid .call (Enc.pathToRIDAction path query pref).1 (Enc.pathToRIDAction path query pref).2,
        hygienic s = true) := by
  constructor
  · intro hv
    exact Resgate.subjects_hygienic_of_valid cid hcid hne .get _ [] hv (by intro h; rcases h with h | h <;> cases h)
  · intro hv hp
    exact Resgate.subjects_hygienic_of_valid cid hcid hne .call _ _ hv (fun _ => hp)

/-- **Every HTTP request, unconditionally**: whatever the method (GET, HEAD, POST, a PUT / DELETE /
    PATCH mapped to a call method by the configuration, or anything else), path, query and API
    prefix, every service subject the handler's dispatch (`Enc.httpDispatch`, compared with the real
    `apiHandler` by suite `httppath`) can cause is hygienic; a request whose derived resource id or
    method is invalid causes no service traffic at all (404 / 405). -/
theorem http_dispatch_hygienic (cid method path query pref : Bytes) (mapped : Option Bytes)
    (hcid : cid.all okByte = true) (hne : cid ≠ []) :
    ∀ s ∈ Enc.httpSubjects cid (Enc.httpDispatch method path query pref mapped), hygienic s = true := by
  unfold Enc.httpDispatch
  split
  · intro s hs; simp [Enc.httpSubjects] at hs
  · split
    · dsimp only
      split
      · next hv =>
        exact Resgate.subjects_hygienic_of_valid cid hcid hne .get _ [] hv (by intro h; rcases h with h | h <;> cases h)
      · intro s hs; simp [Enc.httpSubjects] at hs
    · split
      · dsimp only
        split
        · next hv =>
          rw [Bool.and_eq_true] at hv
          exact Resgate.subjects_hygienic_of_valid cid hcid hne .call _ _ hv.1 (fun _ => hv.2)
        · intro s hs; simp [Enc.httpSubjects] at hs
      · split
        · intro s hs; simp [Enc.httpSubjects] at hs
        · dsimp only
          split
          · next hv =>
            rw [Bool.and_eq_true] at hv
            exact Resgate.subjects_hygienic_of_valid cid hcid hne .call _ _ hv.1 (fun _ => hv.2)
          · intro s hs; simp [Enc.httpSubjects] at hs

/-- Non-vacuity: a mapped PUT of `/api/m/a` calls `put` on `m.a`; of `/api/m/%2A` it is a 404. -/
example : Enc.httpDispatch [80, 85, 84] [47, 97, 112, 105, 47, 109, 47, 97] [] [47, 97, 112, 105, 47] (some [112, 117, 116])
    = .call [109, 46, 97] [112, 117, 116] := by decide
example : Enc.httpDispatch [80, 85, 84] [47, 97, 112, 105, 47, 109, 47, 37, 50, 65] [] [47, 97, 112, 105, 47] (some [112, 117, 116])
    = .notFound := by decide

/-- A method string without a dot never causes service traffic. -/
theorem rpc_no_dot {m : Bytes} (h : cDot ∉ m) :
    rpcDispatch m = .version ∨ rpcDispatch m = .invalid :=
  Resgate.rpcDispatch_no_dot h

-- Non-vacuity: "call.a.{cid}.b" with cid "zz" is dispatched; "call.a.*.b", "get.a b", "get.a." are not.
example : rpcDispatch [99, 97, 108, 108, 46, 97, 46, 123, 99, 105, 100, 125, 46, 98]
    = .req .call [97, 46, 123, 99, 105, 100, 125] [98] := by decide
example : subjectsFor [122, 122] .call [97, 46, 123, 99, 105, 100, 125] [98]
    = [[97, 99, 99, 101, 115, 115, 46, 97, 46, 122, 122], [99, 97, 108, 108, 46, 97, 46, 122, 122, 46, 98]] := by
  decide
example : rpcDispatch [99, 97, 108, 108, 46, 97, 46, 42, 46, 98] = .invalid := by decide
example : rpcDispatch [103, 101, 116, 46, 97, 32, 98] = .invalid := by decide
example : rpcDispatch [103, 101, 116, 46, 97, 46] = .invalid := by decide

end Resgate.C14
