import Resgate.Proofs.Version
import Resgate.Proofs.GwPure

/-
C01 — Subscribed resources converge to the state announced by the service.
Theorems carry the version mechanism that makes a late-joining subscriber converge; the gateway
model that uses these very functions is tied to the code by the lockstep correspondence (`rgh gw`).
The full composition (every client copy equals the announced state at quiescence) is NOT proved:
it is false of the code (known findings D1, D17) and is carried by monitors + correspondence only.
-/

namespace Resgate.C01
open Resgate Resgate.Snap

/-- A subscriber added at any point of a resource's event stream, which reads the snapshot
    (value, version) at any later point and then processes everything emitted since it was added,
    in order, through the version filter, ends with the resource's final value and version; from
    before the snapshot it delivers only custom events that already carry the snapshot version,
    and after it everything, in order.  For every stream and every pair of points. -/
theorem snapshot_replay {α} (r0 : RS α) (pre mid post : List (Option α)) :
    let rp := r0.run pre
    let rq := rp.run mid
    let rE := rq.run post
    let s := Sub.runEvs ⟨rq.1, rq.2, []⟩ (emit rp (mid ++ post))
    s.val = rE.1 ∧ s.ver = rE.2 ∧
    ∃ old, s.delivered = old ++ emit rq post ∧ ∀ e ∈ old, e.upd = none ∧ e.ver = rq.2 :=
  Resgate.Snap.snapshot_replay r0 pre mid post

/-- Any number of clients sharing one cached resource: whatever the points of the resource's stream
    `os` at which each of them was added (`c.1`) and read its snapshot (`c.2`), every one of them
    ends with the value and version the resource ends with — hence they all agree. -/
theorem all_sharers_converge {α} (r0 : RS α) (os : List (Option α)) (cuts : List (Nat × Nat)) :
    ∀ c ∈ cuts, c.1 ≤ c.2 → c.2 ≤ os.length →
      let pre := os.take c.1
      let mid := (os.drop c.1).take (c.2 - c.1)
      let post := os.drop c.2
      let rp := r0.run pre
      let rq := rp.run mid
      let s := Sub.runEvs ⟨rq.1, rq.2, []⟩ (emit rp (mid ++ post))
      s.val = (r0.run os).1 ∧ s.ver = (r0.run os).2 := by
  intro c _ h12 _
  have hsplit : os = os.take c.1 ++ ((os.drop c.1).take (c.2 - c.1) ++ os.drop c.2) := by
    have h2 : os.drop c.2 = (os.drop c.1).drop (c.2 - c.1) := by
      rw [List.drop_drop]; congr 1; omega
    rw [h2, List.take_append_drop, List.take_append_drop]
  have hrun : ((r0.run (os.take c.1)).run ((os.drop c.1).take (c.2 - c.1))).run (os.drop c.2)
      = r0.run os := by
    conv => rhs; rw [hsplit]
    simp [RS.run, List.foldl_append]
  have := Resgate.Snap.snapshot_replay r0 (os.take c.1) ((os.drop c.1).take (c.2 - c.1)) (os.drop c.2)
  simp only [hrun] at this
  exact ⟨this.1, this.2.1⟩

/-- A subscriber that holds the resource's state follows every later stream exactly. -/
theorem insync {α} (os : List (Option α)) (r : RS α) (d : List (Ev α)) :
    (Sub.runEvs ⟨r.1, r.2, d⟩ (emit r os)).val = (r.run os).1 ∧
    (Sub.runEvs ⟨r.1, r.2, d⟩ (emit r os)).ver = (r.run os).2 ∧
    (Sub.runEvs ⟨r.1, r.2, d⟩ (emit r os)).delivered = d ++ emit r os :=
  Resgate.Snap.insync os r d

/-- The subscriber step of the lemma IS the gateway model's gate (`Gw.subGate`). -/
theorem gate_is_model (v stamp : Nat) (update : Bool) :
    (Gw.subGate v stamp update = none ↔ v ≠ stamp) ∧
    (v = stamp → Gw.subGate v stamp update = some (if update then v + 1 else v)) :=
  Gw.subGate_spec v stamp update

/-- The resource step of the lemma holds of the gateway model's event application: an accepted
    state event bumps the cached version by exactly one, is marked as an update and keeps the
    stamp it was given (the version it targets). -/
theorem cache_stamps_and_bumps {r r' : Gw.Res} {ev ev' : Gw.REv}
    (h : Gw.applyStateEvent r ev = some (r', ev')) :
    r'.version = r.version + 1 ∧ ev'.update = true ∧ ev'.version = ev.version ∧ ev'.name = ev.name :=
  Gw.applyStateEvent_some h

/-- Legacy (< 1.2.1) encoding of the four value kinds. -/
theorem legacy_encoding (n : Int) (rid : String) :
    (Gw.Val.prim n).show true = (Gw.Val.prim n).show false ∧
    (Gw.Val.ref rid).show true = (Gw.Val.ref rid).show false ∧
    (Gw.Val.soft rid).show true = s!"str:{rid}" ∧ (Gw.Val.data n).show true = "str:[Data]" := by
  simp [Gw.Val.show]

-- non-vacuity: a stream with two updates and a custom event, subscriber joins after the first.
example : (RS.run (([] : List Nat), 0) [some 1, none, some 2]) = ([1, 2], 2) := by decide

end Resgate.C01
