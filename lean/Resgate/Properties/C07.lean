import Resgate.Proofs.Rpc
import Resgate.Proofs.GwPure

/-
C07 — Exactly one response per client request.  Theorems: the dispatcher is total and every
rejected method is answered at once; the unsubscribe decision always yields a reply.  That pending
continuations are always run is NOT proved (false of the code: known findings D2, D10).
-/

namespace Resgate.C07
open Resgate Resgate.Gw

/-- Every method string is classified: version, invalid (answered at once with
    `system.invalidRequest`), or handed on with a valid resource id. -/
theorem dispatch_total (m : Bytes) :
    rpcDispatch m = .version ∨ rpcDispatch m = .invalid ∨
      ∃ k rid method, rpcDispatch m = .req k rid method ∧ isValidRID rid true = true := by
  cases h : rpcDispatch m with
  | version => exact Or.inl rfl
  | invalid => exact Or.inr (Or.inl rfl)
  | req k rid method => exact Or.inr (Or.inr ⟨k, rid, method, rfl, (rpcDispatch_req h).1⟩)

/-- An unsubscribe request is always answered immediately, with exactly one of three outcomes. -/
theorem unsubscribe_answered (bad : Bool) (count : Int) (direct : Option Int) :
    unsubVerdict bad count direct = .ok ∨ unsubVerdict bad count direct = .invalidParams ∨
      unsubVerdict bad count direct = .noSubscription := by
  cases unsubVerdict bad count direct <;> simp

example : rpcDispatch [103, 101, 116] = .invalid := by decide

end Resgate.C07
