import Resgate.Proofs.Ready
import Resgate.Proofs.Rpc
import Resgate.Proofs.GwPure

/-
C07 — Exactly one response per client request.  Theorems: the dispatcher is total and every
rejected method is answered at once; the unsubscribe decision always yields a reply.  That pending
continuations are always run is NOT proved (false of the code: known findings D2, D10).
-/

namespace Resgate.C07
open Resgate Resgate.Gw

/-- Every method string is classified: version, invalid (answered at once with
    `system.invalidRequest`), or handed on with a valid resource id. -/
theorem dispatch_total (m : Bytes) :
    rpcDispatch m = .version ∨ rpcDispatch m = .invalid ∨
      ∃ k rid method, rpcDispatch m = .req k rid method ∧ isValidRID rid true = true := by
  cases h : rpcDispatch m with
  | version => exact Or.inl rfl
  | invalid => exact Or.inr (Or.inl rfl)
  | req k rid method => exact Or.inr (Or.inr ⟨k, rid, method, rfl, (rpcDispatch_req h).1⟩)

/-- **One reply per request tree.** The ready-callback counter of a request (`loading`): under the
    discipline of `collectRefs` (references are registered while the visiting subscription still holds
    its own token), whatever the order in which the registered subscriptions load, the reply
    callback has run exactly once when the root is done and nothing is outstanding, and not at all
    before — never twice, never early. -/
theorem reply_fires_exactly_once (ops : List Ready.Op) (hd : Ready.Disciplined {} ops) :
    (Ready.run {} ops).fired =
      if (Ready.run {} ops).rootHeld = false ∧ (Ready.run {} ops).outstanding = 0 then 1 else 0 :=
  Ready.fires_exactly_once ops hd

/-- The discipline matters: giving the root's token back before registering a reference lets the
    counter pass through zero early — two replies. -/
theorem reply_twice_without_discipline :
    (Ready.run {} [.rootDone, .register, .loaded]).fired = 2 :=
  Ready.undisciplined_fires_twice

/-- An unsubscribe request is always answered immediately, with exactly one of three outcomes. -/
theorem unsubscribe_answered (bad : Bool) (count : Int) (direct : Option Int) :
    unsubVerdict bad count direct = .ok ∨ unsubVerdict bad count direct = .invalidParams ∨
      unsubVerdict bad count direct = .noSubscription := by
  cases unsubVerdict bad count direct <;> simp

example : rpcDispatch [103, 101, 116] = .invalid := by decide

-- the discipline is satisfiable: two references registered, loaded in the other order
example : Ready.Disciplined {} [.register, .register, .rootDone, .loaded, .loaded] := by
  simp [Ready.Disciplined, Ready.step]

end Resgate.C07
