import Resgate.Proofs.GwPure

/-
C13 — Query resources: atomic query-event handling (the lock).
-/

namespace Resgate.C13
open Resgate Resgate.Gw

/-- While the lock of a query event is active no later event or response item is handled. -/
theorem locked_runs_no_normal_item (e : Entry) (h : e.locks.isSome = true) :
    ∀ it e', mbNext e ≠ .normal it e' :=
  Gw.mbNext_locked e h

/-- Every answered (or failed) query request uses one slot; the lock clears when the last slot is
    used and only then. -/
theorem unlock_uses_one_slot (e : Entry) (cap st : Nat) (it : LItem) (rest : List (Nat × LItem))
    (h : e.locks = some (cap, (st, it) :: rest)) :
    mbNext e = .lock it { e with locks := if cap - 1 == 0 && rest.isEmpty then none else some (cap - 1, rest) } :=
  Gw.mbNext_unlock e cap st it rest h

theorem lock_clears_iff (cap k : Nat) (hc : 0 < cap) : lockAfter cap k = none ↔ cap ≤ k :=
  Gw.lock_clears_iff cap k hc

/-- After the lock has cleared the waiting items run in FIFO order. -/
theorem resumes_fifo (e : Entry) (st : Nat) (it : CItem) (rest : List (Nat × CItem))
    (hl : e.locks = none) (hq : e.queue = (st, it) :: rest) :
    mbNext e = .normal it { e with queue := rest } :=
  Gw.mbNext_fifo e st it rest hl hq

end Resgate.C13
