import Resgate.Proofs.GwPure
import Resgate.Proofs.Mailbox
import Resgate.Proofs.QIdx
import Resgate.Gw.Reset

/-
C13 — Query resources: atomic query-event handling (the lock).
-/

namespace Resgate.C13
open Resgate Resgate.Gw

/-- While the lock of a query event is active no later event or response item is handled. -/
theorem locked_runs_no_normal_item (e : Entry) (h : e.locks.isSome = true) :
    ∀ it e', mbNext e ≠ .normal it e' :=
  Gw.mbNext_locked e h

/-- Every answered (or failed) query request uses one slot; the lock clears when the last slot is
    used and only then. -/
theorem unlock_uses_one_slot (e : Entry) (cap st : Nat) (it : LItem) (rest : List (Nat × LItem))
    (h : e.locks = some (cap, (st, it) :: rest)) :
    mbNext e = .lock it { e with locks := if cap - 1 == 0 && rest.isEmpty then none else some (cap - 1, rest) } :=
  Gw.mbNext_unlock e cap st it rest h

theorem lock_clears_iff (cap k : Nat) (hc : 0 < cap) : lockAfter cap k = none ↔ cap ≤ k :=
  Gw.lock_clears_iff cap k hc

/-- After the lock has cleared the waiting items run in FIFO order. -/
theorem resumes_fifo (e : Entry) (st : Nat) (it : CItem) (rest : List (Nat × CItem))
    (hl : e.locks = none) (hq : e.queue = (st, it) :: rest) :
    mbNext e = .normal it { e with queue := rest } :=
  Gw.mbNext_fifo e st it rest hl hq

/-! ### Aliases share one cached resource

`Gw/QIdx.lean` is the alias index of a cache entry (`base / queries / links`) as pure functions;
`getResourceSubscription`, `processGetResponse` and `unregister` of the gateway model are built from
them (`Entry.idx / withIdx`). -/

/-- After a get response named the normalised query `nq` for the raw query `raw`, both resolve to
    the same cached resource `t` — and so does every raw query linked to `nq` earlier, since other
    queries resolve as before. -/
theorem aliases_share_one_resource (x : Gw.QIdx) (raw nq : String) (t : Nat) (hne : nq ≠ raw)
    (h : x.lookup nq = some t) :
    (x.link raw t).lookup raw = some t ∧ (x.link raw t).lookup nq = some t :=
  Gw.aliases_share x raw nq t hne h

theorem other_queries_unaffected (x : Gw.QIdx) (raw q : String) (t : Nat) (hne : q ≠ raw) :
    (x.link raw t).lookup q = x.lookup q :=
  Gw.lookup_link_other x raw q t hne

/-- A query that resolves to nothing gets its own resource, which it then resolves to. -/
theorem new_query_registered (x : Gw.QIdx) (q : String) (rs : Nat) (hnone : x.lookup q = none) :
    (x.register q rs).lookup q = some rs :=
  Gw.lookup_register x q rs hnone

-- non-vacuity: "q=a" and "q=b" both normalise to "q=n1"
example : let x := ((({} : Gw.QIdx).register "q=a" 1).link "q=a" 2 |>.register "q=n1" 2 |>.link "q=b" 2)
    x.lookup "q=a" = some 2 ∧ x.lookup "q=b" = some 2 ∧ x.lookup "q=n1" = some 2 := by decide

/-- **One request per cached normalised query** (`handleQueryEvent`, the plan the model's cache
    actor executes): a query event takes exactly one lock slot per cached query of the entry; the
    queries whose resource is loaded are asked — each once, each with its own normalised query and
    for its own resource — and the ones still being fetched get a no-op slot, so the lock opened
    with capacity `queries.length` closes after exactly that many arrivals (`lock_clears_iff`). -/
theorem query_event_plan (e : Entry) :
    (queryPlan e).length = e.queries.length ∧
    (queryPlan e).map (fun p => (p.1, p.2.1)) = e.queries ∧
    (∀ q rs asked, (q, rs, asked) ∈ queryPlan e →
      (q, rs) ∈ e.queries ∧ (asked = true ↔ (tget e.ress rs).state.toNat > 2)) := by
  unfold queryPlan
  refine ⟨by simp, ?_, ?_⟩
  · rw [List.map_map]
    conv => rhs; rw [← List.map_id e.queries]
    apply List.map_congr_left
    intro a _; rfl
  · intro q rs asked h
    rw [List.mem_map] at h
    obtain ⟨⟨q', rs'⟩, hm, he⟩ := h
    simp only [Prod.mk.injEq] at he
    obtain ⟨rfl, rfl, rfl⟩ := he
    exact ⟨hm, by simp⟩

/-- **Atomic query-event handling over whole runs.** After a query event locked the mailbox for `n`
    query requests, and for every interleaving of enqueued items (events, responses, subscribers),
    arriving answers and worker steps in which fewer than `n` answers have arrived: the lock is
    still held — with exactly the unanswered requests outstanding — and not one normal item has
    been run. (`Entry.lockFor`, `Entry.push`, `Entry.pushUnlock` and `mbNext` are the functions the
    gateway model itself runs.) -/
theorem locked_until_every_answer (n : Nat) (m : Gw.Mailbox.MB) (ops : List Gw.Mailbox.Op)
    (hop : Gw.Mailbox.noLock ops) (hr : Gw.Mailbox.arrivals ops < n) :
    let m' := ops.foldl Gw.Mailbox.step { m with e := m.e.lockFor n }
    Gw.Mailbox.Held m' (n - Gw.Mailbox.arrivals ops) ∧ m'.e.locks.isSome = true ∧ m'.ran = m.ran := by
  obtain ⟨h, e⟩ := Gw.Mailbox.run_held ops { m with e := m.e.lockFor n } n hop hr
    (Gw.Mailbox.held_lockFor m n)
  refine ⟨h, ?_, e⟩
  obtain ⟨cap, arr, hl, _⟩ := h
  simp [hl]

/-- … after which processing always resumes: when every answer has arrived (as many wait as slots
    are left), one worker step per answer ends the lock, runs no normal item and leaves the queue
    as it is — the next worker steps run the waiting items in order (`resumes_fifo`). -/
theorem all_answers_end_the_lock (arr : List (Nat × Gw.LItem)) (m : Gw.Mailbox.MB) (hne : arr ≠ [])
    (hl : m.e.locks = some (arr.length, arr)) :
    ((List.replicate arr.length Gw.Mailbox.Op.pop).foldl Gw.Mailbox.step m).e.locks = none ∧
    ((List.replicate arr.length Gw.Mailbox.Op.pop).foldl Gw.Mailbox.step m).ran = m.ran ∧
    ((List.replicate arr.length Gw.Mailbox.Op.pop).foldl Gw.Mailbox.step m).e.queue = m.e.queue :=
  Gw.Mailbox.drain_lock arr m hne hl

-- non-vacuity: two requests out, one answered and processed, an event enqueued meanwhile
example : Gw.Mailbox.noLock [.arrive 1 .noop, .enq 2 (.queryEvent "s"), .pop, .pop] ∧
    Gw.Mailbox.arrivals [.arrive 1 .noop, .enq 2 (.queryEvent "s"), .pop, .pop] < 2 := by
  simp [Gw.Mailbox.noLock, Gw.Mailbox.arrivals]

-- … and the premise of `all_answers_end_the_lock` is what `lockFor 1` + one arriving answer gives
example : ((({ name := "q" } : Gw.Entry).lockFor 1).pushUnlock 5 .noop).locks
    = some ([(5, Gw.LItem.noop)].length, [(5, Gw.LItem.noop)]) := by
  simp [Gw.Entry.lockFor, Gw.Entry.pushUnlock]

end Resgate.C13
