import Resgate.Gw.Base

/-
`Cache.forEachMatch` (server/rescache/rescache.go) as pure functions: which cache entries a system
reset hands to `handleResetResource` / `handleResetAccess`.  The monadic `systemEvent` iterates
over `resetMatches`, so the lockstep correspondence exercises these definitions.
-/

namespace Resgate.Gw

/-- The patterns of a reset that parse as valid (`ParseResourcePattern` + `IsValid`). -/
def validPats (ps : List String) : List Pattern :=
  ps.filterMap fun p =>
    let pat := parsePattern (toBytes p)
    if pat.isValid then some pat else none

/-- The entries handed to the callback, in the order of the range over the cache and once per
    matching pattern (the `resetting` flag makes the repeated call a no-op). -/
def resetMatches (index : List (String × Nat)) (pats : List Pattern) : List Nat :=
  index.flatMap fun ne => (pats.filter fun pat => pat.matches (toBytes ne.1)).map fun _ => ne.2

/-- `ResourceSubscription.handleResetResource` of one resource: skip while a re-fetch is pending. -/
def resetStarts (r : Res) : Bool := !r.resetting

/-- `EventSubscription.handleQueryEvent`: one lock slot per cached query of the entry; a query
    whose resource is loaded (state beyond `requested`) gets a query request carrying its own
    normalised query, a query still being fetched gets a no-op slot. `(query, resource, asked)`. -/
def queryPlan (e : Entry) : List (String × Nat × Bool) :=
  e.queries.map fun qr => (qr.1, qr.2, decide ((tget e.ress qr.2).state.toNat > 2))

end Resgate.Gw
