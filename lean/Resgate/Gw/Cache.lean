import Resgate.Gw.Ops
import Resgate.Gw.Reset

/-
The cache actors: one step = one queue item of one `EventSubscription`
(`server/rescache/eventSubscription.go`, `resourceSubscription.go`, `rescache.go`).
-/

namespace Resgate.Gw

/-- `Subscription.Loaded` as seen from the cache: hand the result to the connection's queue; a
    refused hand-over of a successful load releases the use again. -/
def subLoaded (sub : SubRef) (r : Option (Nat × Nat)) (err : String) : M Unit := do
  let ok ← connEnqueue sub.cid (.loaded sub.uid r err)
  if !ok then
    match r with
    | some (eid, rs) => if err == "" then cacheEnqueue eid (.unsubscribe rs sub)
    | none => pure ()

def subEvent (sub : SubRef) (ev : REv) : M Unit := do
  let _ ← connEnqueue sub.cid (.event sub.uid ev)

/-- `getResourceSubscription`: the resource a query resolves to (`QIdx.lookup`), created and
    registered if there is none. -/
def getResourceSubscription (eid : Nat) (q : String) : M Nat := do
  let e ← getEntry eid
  match e.idx.lookup q with
  | some rs => return rs
  | none =>
    let rs ← fresh
    setRes eid rs { query := q }
    modEntry eid fun e => e.withIdx (e.idx.register q rs)
    return rs

/-- `ResourceSubscription.unregister`, on the entry. -/
def Entry.unregisterRes (e : Entry) (rs : Nat) : Entry :=
  let r := tget e.ress rs
  let e1 := e.withIdx (e.idx.unregister r.query r.links)
  { e1 with ress := tset e1.ress rs { tget e1.ress rs with links := [] } }

def unregister (eid rs : Nat) : M Unit := modEntry eid fun e => e.unregisterRes rs

/-- `ResourceSubscription.Unsubscribe(sub)` without the count: the subscriber leaves the resource;
    a query resource without subscribers is unregistered. -/
def Entry.dropSub (e : Entry) (rs : Nat) (sub : SubRef) : Entry :=
  let r := tget e.ress rs
  let r1 := { r with subs := r.subs.filter (· != sub) }
  let e1 := { e with ress := tset e.ress rs r1 }
  if r1.query != "" && r1.subs.isEmpty then e1.unregisterRes rs else e1

/-- `ResourceSubscription.Unsubscribe(sub)`: `none` if the subscriber is not (or no longer) a
    subscriber of the resource — a delete event or an error answer it has not processed yet
    already released it —, otherwise the entry without it (the caller then gives back one use). -/
def Entry.release (e : Entry) (rs : Nat) (sub : SubRef) : Option Entry :=
  if (tget e.ress rs).subs.contains sub then some (e.dropSub rs sub) else none

def sendGet (eid rs : Nat) (query : String) (reset : Bool) (t : Option Nat) : M Unit := do
  match t with
  | none =>
    let e ← getEntry eid
    registerReq s!"get.{e.name}" (getPayload query) (.get eid rs reset none)
  | some th => throttleAdd th (.sendGet eid rs query reset th)

def applyChangeKvs (m : List (String × Val)) :
    List (String × Option Val) → List (String × Val) × List (String × Option Val)
  | [] => (m, [])
  | (k, none) :: ps =>
    match sget m k with
    | some _ => let (m', ch) := applyChangeKvs (sdel m k) ps; (m', (k, none) :: ch)
    | none => applyChangeKvs m ps
  | (k, some v) :: ps =>
    match sget m k with
    | some ov =>
      if ov.equal v then applyChangeKvs m ps
      else let (m', ch) := applyChangeKvs (sset m k v) ps; (m', (k, some v) :: ch)
    | none => let (m', ch) := applyChangeKvs (sset m k v) ps; (m', (k, some v) :: ch)

/-- `handleEventChange / Add / Remove`: `none` = the event is discarded. -/
def applyStateEvent (r : Res) (ev : REv) : Option (Res × REv) :=
  match ev.name, ev.data with
  | "change", .change kvs =>
    if r.state == .collection then none
    else
      let (m', ch) := applyChangeKvs r.model kvs
      if ch.isEmpty then none
      else some ({ r with model := m', version := r.version + 1 },
                 { ev with changed := ch, oldVals := r.model, update := true })
  | "add", .add idx v =>
    if r.state == .model then none
    else if idx < 0 || idx > r.coll.length then none
    else some ({ r with coll := r.coll.insertIdx idx.toNat v, version := r.version + 1 },
               { ev with idx := idx, value := some v, update := true })
  | "remove", .remove idx =>
    if r.state == .model then none
    else if idx < 0 || idx ≥ r.coll.length then none
    else some ({ r with coll := r.coll.eraseIdx idx.toNat, version := r.version + 1 },
               { ev with idx := idx, value := r.coll[idx.toNat]?, update := true })
  | _, _ => none

/-- `ResourceSubscription.handleEvent`. -/
def handleEvent (eid rs : Nat) (ev : REv) : M Unit := do
  let r ← getRes eid rs
  if r.state.toNat ≤ 2 && ev.name != "reaccess" then return
  let ev := { ev with version := r.version }
  if ev.name == "change" || ev.name == "add" || ev.name == "remove" then
    if r.resetting then return
    match applyStateEvent r ev with
    | none => return
    | some (r', ev') =>
      setRes eid rs r'
      for sub in r'.subs do subEvent sub ev'
  else if ev.name == "delete" then
    if !r.resetting then
      -- handleEventDelete
      let subs := r.subs
      setRes eid rs { r with subs := [] }
      unregister eid rs
      removeCount eid subs.length
      for sub in subs do subEvent sub ev
  else
    for sub in r.subs do subEvent sub ev

def modelDiffKvs (old new : List (String × Val)) : List (String × Option Val) :=
  let props : List (String × Option Val) :=
    new.map (fun p => (p.1, some p.2)) ++
      (old.filter (fun p => (sget new p.1).isNone)).map (fun p => (p.1, none))
  props.filter fun p =>
    match p.2, sget old p.1 with
    | some v, some ov => !v.equal ov
    | _, _ => true

/-- `processResetModel`. -/
def processResetModel (eid rs : Nat) (new : List (String × Val)) : M Unit := do
  let r ← getRes eid rs
  let props := modelDiffKvs r.model new
  if props.isEmpty then return
  handleEvent eid rs { name := "change", data := .change props }

/-- `processResetCollection`. -/
def processResetCollection (eid rs : Nat) (new : List Val) : M Unit := do
  let r ← getRes eid rs
  for ev in lcs Val.equal r.coll new do
    match ev with
    | .remove idx => handleEvent eid rs { name := "remove", data := .remove idx, raw := s!"idx={idx}" }
    | .add idx v => handleEvent eid rs { name := "add", data := .add idx v }

/-- `processGetResponse`; returns the resource the subscribers end up on and the subscribers to
    notify. -/
def processGetResponse (eid rs : Nat) (ans : GetAns) : M (Nat × List SubRef) := do
  let r ← getRes eid rs
  match ans with
  | .err code =>
    setRes eid rs { r with state := .error, err := code, subs := [] }
    unregister eid rs
    removeCount eid r.subs.length
    return (rs, r.subs)
  | .ok content query =>
    let nrs ← if query != r.query then do
        let nrs ← getResourceSubscription eid query
        modEntry eid fun e => e.withIdx (e.idx.link r.query nrs)
        modRes eid nrs fun n =>
          { n with links := n.links ++ [r.query],
                   subs := n.subs ++ r.subs.filter (fun s => !n.subs.contains s) }
        pure nrs
      else pure rs
    let n ← getRes eid nrs
    if n.state.toNat > 2 then return (nrs, r.subs)
    match content with
    | .model kvs => setRes eid nrs { n with version := 0, model := kvs, state := .model }
    | .coll vs => setRes eid nrs { n with version := 0, coll := vs, state := .collection }
    return (nrs, r.subs)

/-- `handleResetResource` of one resource. -/
def resetResource (eid rs : Nat) (t : Option Nat) : M Unit := do
  let r ← getRes eid rs
  if !resetStarts r then return
  setRes eid rs { r with resetting := true }
  sendGet eid rs r.query true t

/-- Resources a reset item visits: the base (unless it is a link to a query) and all queries. -/
def resetTargets (e : Entry) : List Nat :=
  (match e.base with
   | some b => if (tget e.ress b).query == "" then [b] else []
   | none => []) ++ e.queries.map (·.2)

/-- One queue item of a cache entry. -/
def runCItem (eid : Nat) (it : CItem) : M Unit := do
  match it with
  | .addSubscriber sub q t =>
    let rs ← getResourceSubscription eid q
    let r ← getRes eid rs
    if r.state != .error then
      if !r.subs.contains sub then setRes eid rs { r with subs := r.subs ++ [sub] }
    match r.state with
    | .subscribed =>
      modRes eid rs fun r => { r with state := .requested }
      sendGet eid rs q false t
    | .requested => pure ()
    | .error =>
      modEntry eid fun e => { e with count := e.count - 1 }
      subLoaded sub none r.err
    | _ => subLoaded sub (some (eid, rs)) ""
  | .getResponse rs ans =>
    let (nrs, subs) ← processGetResponse eid rs ans
    let n ← getRes eid nrs
    for sub in subs do
      if n.state == .error then subLoaded sub none n.err else subLoaded sub (some (eid, nrs)) ""
  | .event evn data raw =>
    let e ← getEntry eid
    match e.base with
    | none => pure ()
    | some b =>
      if (tget e.ress b).query != "" then pure ()
      else handleEvent eid b { name := evn, data := data, raw := raw }
  | .queryEvent subject =>
    let e ← getEntry eid
    let l := e.queries.length
    if l == 0 then return
    setEntry eid (e.lockFor l)
    for (q, rs, asked) in queryPlan e do
      if !asked then cacheEnqueueUnlock eid .noop
      else registerReq subject s!"query={q}" (.query eid rs)
  | .unsubscribe rs sub =>
    match (← getEntry eid).release rs sub with
    | none => pure ()                    -- already released by a delete event or an error answer
    | some e' =>
      setEntry eid e'
      removeCount eid 1
  | .accessDone sub a th =>
    let _ ← connEnqueue sub.cid (.accessAnswer sub.uid a)
    throttleDone th
    removeCount eid 1
  | .httpAccessDone sub h a ms =>
    let _ ← connEnqueue sub.cid (.httpAccess h sub.uid a ms)
    removeCount eid 1
  | .httpCallAccessDone sub h action params a ms =>
    let _ ← connEnqueue sub.cid (.httpCallAccess h sub.uid action params a ms)
    removeCount eid 1
  | .httpAuthDone cid h a ms next =>
    let _ ← connEnqueue cid (.httpAuthAnswer h a ms next)
    removeCount eid 1
  | .callDone k a =>
    let cid := match k with
      | .call cid _ _ => cid
      | .auth cid _ => cid
      | .httpCall cid _ _ _ => cid
      | .httpMapped cid _ _ _ => cid
      | .access s => s.cid
    let _ ← connEnqueue cid (.callAnswer k a)
    removeCount eid 1
  | .resetResource t =>
    let e ← getEntry eid
    for rs in resetTargets e do resetResource eid rs t
  | .resetAccess t =>
    let e ← getEntry eid
    for rs in resetTargets e do
      let r ← getRes eid rs
      for sub in r.subs do
        let _ ← connEnqueue sub.cid (.reaccess sub.uid t)
  | .resetResponse rs ans =>
    modRes eid rs fun r => { r with resetting := false }
    let r ← getRes eid rs
    match ans with
    | .err code => if code == "system.notFound" then handleEvent eid rs { name := "delete", data := .other "" }
    | .ok content _ =>
      match r.state, content with
      | .model, .model kvs => processResetModel eid rs kvs
      | .collection, .coll vs => processResetCollection eid rs vs
      | _, _ => pure ()

/-- One lock item (answer of a query request, or the no-op of a query still being fetched). -/
def runLItem (eid : Nat) (it : LItem) : M Unit := do
  match it with
  | .noop => pure ()
  | .queryAnswer rs ans =>
    match ans with
    | .err code => if code == "system.notFound" then handleEvent eid rs { name := "delete", data := .other "" }
    | .events evs =>
      for (n, d, raw) in evs do handleEvent eid rs { name := n, data := d, raw := raw }
    | .full content =>
      let r ← getRes eid rs
      match r.state, content with
      | .model, .model kvs => processResetModel eid rs kvs
      | .collection, .coll vs => processResetCollection eid rs vs
      | _, _ => pure ()

/-- `Cache.mqUnsubscribe` for every entry waiting in the unsubscribe queue (`Flush`). -/
def flushEvictions : M Unit := do
  let g ← get
  for (eid, e) in g.entries do
    if e.evictPending then
      modEntry eid fun e => { e with evictPending := false }
      match evictDecision e.count e.evictPending e.mqSub with
      | none => continue
      | some unsub =>
        if unsub then emit s!"U event.{e.name}"
        modEntry eid fun e => { e with queue := [] }
        modify fun g => { g with index := g.index.filter (fun p => p.2 != eid) }

end Resgate.Gw
