import Resgate.Gw.Conn
import Resgate.Gw.Reset

/-
Scheduler (run to quiescence in global enqueue order), stimulus parsing and snapshot printing.
One stimulus line in, one line out: observations sorted and joined by " ;; ", then " ## " and the
state snapshot lines joined by " ;; " (when snapshots are on).
-/

namespace Resgate.Gw

/-! ### parsing of abstract values -/

def parseVal (s : String) : Option Val :=
  if s.startsWith "r:" then some (.ref (s.drop 2).toString)
  else if s.startsWith "s:" then some (.soft (s.drop 2).toString)
  else if s.startsWith "p" then (s.drop 1).toString.toInt?.map .prim
  else if s.startsWith "d" then (s.drop 1).toString.toInt?.map .data
  else none

/-- `{k=v,k=v}` -/
def parseModel (s : String) : Option (List (String × Option Val)) :=
  let inner := ((s.drop 1).toString.dropEnd 1).toString
  if inner == "" then some []
  else (inner.splitOn ",").mapM fun kv =>
    match kv.splitOn "=" with
    | [k, v] => if v == "del" then some (k, none) else (parseVal v).map fun x => (k, some x)
    | _ => none

def parseColl (s : String) : Option (List Val) :=
  let inner := ((s.drop 1).toString.dropEnd 1).toString
  if inner == "" then some [] else (inner.splitOn ",").mapM parseVal

def parseContent (s : String) : Option Content :=
  if s.startsWith "m" then
    (parseModel (s.drop 1).toString).bind fun kvs =>
      (kvs.mapM fun (p : String × Option Val) => p.2.map fun x => (p.1, x)).map Content.model
  else if s.startsWith "c" then (parseColl (s.drop 1).toString).map Content.coll
  else none

/-- split at the last occurrence of `sep` -/
def cutLastStr (s sep : String) : Option (String × String) :=
  match (s.splitOn sep).reverse with
  | last :: (r :: rest) => some (sep.intercalate (r :: rest).reverse, last)
  | _ => none

def parseGetAns (label : String) : GetAns :=
  if label.startsWith "ok:" then
    match cutLastStr (label.drop 3).toString ":q=" with
    | some (c, q) =>
      match parseContent c with
      | some content => .ok content q
      | none => .err "system.internalError"
    | none => .err "system.internalError"
  else if label.startsWith "err:" then .err (label.drop 4).toString
  else if label == "timeout" then .err "system.timeout"
  else if label == "noresponders" then .err "system.notFound"
  else if label == "toolong" then .err "system.subjectTooLong"
  else .err "system.internalError"

def parseAccess (label : String) : Access :=
  if label.startsWith "access:" then
    let body := (label.drop 7).toString
    let get := body.startsWith "get=1"
    let call := match body.splitOn "call=" with
      | [_, c] => c
      | _ => ""
    { err := none, get, call }
  else if label.startsWith "err:" then { err := some (label.drop 4).toString, get := false, call := "" }
  else if label == "timeout" then { err := some "system.timeout", get := false, call := "" }
  else if label == "toolong" then { err := some "system.subjectTooLong", get := false, call := "" }
  else { err := some "system.internalError", get := false, call := "" }

def parseCallAns (label : String) : CallAns :=
  if label.startsWith "result:p" then .result (label.drop 8).toString
  else if label.startsWith "resource:" then
    let rid := (label.drop 9).toString
    if isValidRID (toBytes rid) true then .resource rid else .err "system.internalError"
  else if label.startsWith "err:" then .err (label.drop 4).toString
  else if label == "timeout" then .err "system.timeout"
  else if label == "toolong" then .err "system.subjectTooLong"
  else .err "system.internalError"

def parseQAns (label : String) : QAns :=
  if label.startsWith "qevents:" then .events []
  else if label.startsWith "qfull:" then
    match parseContent (label.drop 6).toString with
    | some c => .full c
    | none => .err "system.internalError"
  else if label.startsWith "err:" then .err (label.drop 4).toString
  else if label == "timeout" then .err "system.timeout"
  else .err "system.internalError"

/-- resource event abstraction: `change:{k=v}` | `add:idx=N,value=V` | `remove:idx=N` | `custom:<json>` | `bad` -/
def parseEvData (abs : String) : EvData × String :=
  if abs.startsWith "change:" then
    match parseModel (abs.drop 7).toString with
    | some kvs => (.change kvs, "")
    | none => (.bad, "")
  else if abs.startsWith "add:idx=" then
    match (abs.drop 8).toString.splitOn ",value=" with
    | [i, v] =>
      match i.toInt?, parseVal v with
      | some idx, some val => (.add idx val, "")
      | _, _ => (.bad, "")
    | _ => (.bad, "")
  else if abs.startsWith "remove:idx=" then
    match (abs.drop 11).toString.toInt? with
    | some idx => (.remove idx, "")
    | none => (.bad, "")
  else if abs.startsWith "custom:" then
    let raw := (abs.drop 7).toString
    (.other raw, if raw == "-" then "" else raw)
  else (.bad, "")

/-! ### scheduler -/

/-- The runnable actors with the stamp of their head item: `(stamp, isConn, actor id)`. -/
def runnable (g : Gw) : List (Nat × Bool × Nat) :=
    g.entries.filterMap (fun (eid, e) =>
      match e.locks with
      | some (_, (st, _) :: _) => some (st, false, eid)
      | some (_, []) => none
      | none => match e.queue with
        | (st, _) :: _ => some (st, false, eid)
        | [] => none) ++
    g.conns.filterMap (fun c =>
      match c.queue with
      | (st, _) :: _ => some (st, true, c.cid)
      | [] => none)

/-- The workers of the gateway (one goroutine per busy connection and cache entry) run
    concurrently; which of the runnable actors takes its next item is a parameter of the model
    (`Gw.sched`): 0 = the head item enqueued first (global FIFO), 1 = the head item enqueued last
    (a chain of consequences runs to its end before older work), ≥ 2 = a pseudo-random choice.
    Every actor still takes its own items in queue order. No property depends on the policy. -/
def nextRunnable (g : Gw) : Option (Nat × Bool × Nat) :=
  let cands := runnable g
  match g.sched with
  | 0 => cands.foldl (fun best c => match best with
      | none => some c
      | some b => if c.1 < b.1 then some c else some b) none
  | 1 => cands.foldl (fun best c => match best with
      | none => some c
      | some b => if c.1 > b.1 then some c else some b) none
  | s => if cands.isEmpty then none else
      cands[(lcg (s * 1000003 + g.schedCtr * 7919) / 65536) % cands.length]?

/-- One small step of the actor `(isConn, id)`: process its head item. -/
def stepActor (isConn : Bool) (id : Nat) : M Unit := do
  if isConn then
    let c ← getConn id
    match c.queue with
    | [] => pure ()
    | (_, it) :: rest =>
      setConn { c with queue := rest }
      runKItem id it
  else
    let e ← getEntry id
    match mbNext e with
    | .lock it e' =>
      setEntry id e'
      runLItem id it
    | .normal it e' =>
      setEntry id e'
      runCItem id it
    | .idle => pure ()

partial def drain (fuel : Nat) : M Unit := do
  if fuel == 0 then
    doPanic "stall"
    return
  let g ← get
  if g.panic.isSome then return
  match nextRunnable g with
  | none => pure ()
  | some (_, isConn, id) =>
    modify fun g => { g with schedCtr := g.schedCtr + 1 }
    stepActor isConn id
    drain (fuel - 1)

/-- Deliver an answer to an outstanding request (the closure given to `mq.SendRequest`). -/
def deliver (r : MqReq) (label : String) : M Unit := do
  match r.k with
  | .get eid rs reset th =>
    if reset then cacheEnqueue eid (.resetResponse rs (parseGetAns label))
    else cacheEnqueue eid (.getResponse rs (parseGetAns label))
    throttleDone th
  | .access eid sub th => cacheEnqueue eid (.accessDone sub (parseAccess label) th)
  | .httpAccess eid sub h =>
    -- label: <access label>[|meta=<status>]
    let (lab, ms) := match label.splitOn "|meta=" with
      | [l, m] => (l, m.toInt?)
      | _ => (label, none)
    cacheEnqueue eid (.httpAccessDone sub h (parseAccess lab) ms)
  | .httpCallAccess eid sub h action params =>
    let (lab, ms) := match label.splitOn "|meta=" with
      | [l, m] => (l, m.toInt?)
      | _ => (label, none)
    cacheEnqueue eid (.httpCallAccessDone sub h action params (parseAccess lab) ms)
  | .httpAuth eid cid h next =>
    let (lab, ms) := match label.splitOn "|meta=" with
      | [l, m] => (l, m.toInt?)
      | _ => (label, none)
    cacheEnqueue eid (.httpAuthDone cid h (parseCallAns lab) ms next)
  | .call eid k =>
    match k with
    | .httpCall cid h ams _ =>
      let (lab, ms) := match label.splitOn "|meta=" with
        | [l, m] => (l, m.toInt?)
        | _ => (label, none)
      cacheEnqueue eid (.callDone (.httpCall cid h ams ms) (parseCallAns lab))
    | .httpMapped cid h ams _ =>
      let (lab, ms) := match label.splitOn "|meta=" with
        | [l, m] => (l, m.toInt?)
        | _ => (label, none)
      cacheEnqueue eid (.callDone (.httpMapped cid h ams ms) (parseCallAns lab))
    | _ => cacheEnqueue eid (.callDone k (parseCallAns label))
  | .query eid rs => cacheEnqueueUnlock eid (.queryAnswer rs (parseQAns label))
  | .tokenAuth => pure ()

/-- Requests whose subject the adapter refuses are answered at once (as the harness does). -/
partial def settle (fuel : Nat) : M Unit := do
  drain 100000
  if fuel == 0 then return
  let g ← get
  match g.reqs.find? (fun r => r.subject.utf8ByteSize + 29 > 4096) with
  | none => pure ()
  | some r =>
    set { g with reqs := g.reqs.filter (fun x => !(x.subject == r.subject && x.payload == r.payload)) }
    deliver r "toolong"
    settle (fuel - 1)

def newConn : M Nat := do
  let g ← get
  let cid := g.conns.length
  set { g with conns := g.conns ++ [({ cid := cid } : Conn)], live := g.live ++ [cid] }
  emit s!"S conn.{cname cid}"
  return cid

def cidOf (name : String) : Nat := ((name.drop 1).toString.toNat?).getD 0

/-- Replace model connection names by ids in subjects: `conn.c0.token` → cid 0. -/
def systemEvent (subject abs : String) : M Unit := do
  if subject == "system.reset" then
    -- reset:resources=a;b|access=c;d
    let body := (abs.drop 6).toString
    let (rs, acc) := match body.splitOn "|" with
      | [r, a] => ((r.drop 10).toString, (a.drop 7).toString)
      | _ => ("", "")
    let pats := fun (s : String) => validPats (if s == "" then [] else s.splitOn ";")
    let g ← get
    let t ← if g.resetThrottle > 0 then do pure (some (← newThrottle g.resetThrottle)) else pure none
    let idx := (← get).index
    let sorted := sortKV idx
    for eid in resetMatches sorted (pats rs) do cacheEnqueue eid (.resetResource t)
    for eid in resetMatches sorted (pats acc) do cacheEnqueue eid (.resetAccess t)
  else if subject == "system.tokenReset" then
    -- tokenreset:tids=T1;T2|subject=s
    let body := (abs.drop 11).toString
    match body.splitOn "|" with
    | [t, s] =>
      let tids := (t.drop 5).toString.splitOn ";"
      let subj := (s.drop 8).toString
      if subj == "" || (t.drop 5).toString == "" then return
      for cid in (← get).live do
        let _ ← connEnqueue cid (.tokenReset tids subj)
    | _ => pure ()

/-- Apply one stimulus. -/
def stimulus (line : String) : M Unit := do
  let ws := (line.splitOn " ").filter (· ≠ "")
  match ws with
  | ["connect", _] => let _ ← newConn
  | "frame" :: c :: id :: method :: _params :: hint :: _ =>
    -- methods with bytes outside printable ASCII travel as hex; they can only be invalid
    let m := if method.startsWith "hex:" then "\x01invalid" else method
    let _ ← connEnqueue (cidOf c) (.frame (id.toNat?.getD 0) m (if hint == "-" then "" else hint))
  | ["rawframe", c, _, hint] =>
    if hint.startsWith "reply=" then
      sendFrame (cidOf c) s!"res {(hint.drop 6).toString} err system.invalidRequest"
    else pure ()
  | ["http", h, "GET", rid] =>
    -- a temporary connection (protocol latest) carrying one request
    let cid ← newConn
    modConn cid fun c => { c with protocol := 1002003 }
    let hn := (h.drop 1).toString.toNat?.getD 0
    let _ ← if (← get).hauth then connEnqueue cid (.httpAuth hn (.get rid)) else connEnqueue cid (.httpGet hn rid)
  | ["http", h, "HEAD", rid] =>
    -- HEAD is handled exactly as GET (dropping the body is left to the HTTP server)
    let cid ← newConn
    modConn cid fun c => { c with protocol := 1002003 }
    let hn := (h.drop 1).toString.toNat?.getD 0
    let _ ← if (← get).hauth then connEnqueue cid (.httpAuth hn (.get rid)) else connEnqueue cid (.httpGet hn rid)
  | ["http", h, "POST", rid, action, params] =>
    let cid ← newConn
    modConn cid fun c => { c with protocol := 1002003 }
    let hn := (h.drop 1).toString.toNat?.getD 0
    let ps := if params == "-" then "null" else params
    let _ ← if (← get).hauth then connEnqueue cid (.httpAuth hn (.call rid action ps)) else connEnqueue cid (.httpCall hn rid action ps)
    -- (handleCall passes a nil json.RawMessage for an empty body, which is marshalled as `null`)
  | ["http", h, "PUT", rid, params] =>
    -- Config.PUTMethod = "put": handled as a call of that method; `method` in the action slot marks it
    let cid ← newConn
    modConn cid fun c => { c with protocol := 1002003 }
    let hn := (h.drop 1).toString.toNat?.getD 0
    let ps := if params == "-" then "null" else params
    let _ ← if (← get).hauth then connEnqueue cid (.httpAuth hn (.call rid "PUT:put" ps)) else connEnqueue cid (.httpCall hn rid "PUT:put" ps)
  | ["http", h, "DELETE405"] => emit s!"H {h} status=405 body=err:system.methodNotAllowed"
  | ["http", h, "GET404"] => emit s!"H {h} status=404 body=err:system.notFound"
  | ["http", h, "POST404"] => emit s!"H {h} status=404 body=err:system.notFound"
  | ["disconnect", c] => let _ ← connEnqueue (cidOf c) .dispose
  | ["answer", subject, payload, label, occ] =>
    let g ← get
    let k := ((occ.drop 1).toString.toNat?).getD 0
    let ms := g.reqs.filter (fun r => r.subject == subject && r.payload == payload)
    match ms[k]? with
    | none => emit s!"MODEL-HAS-NO-REQUEST {subject} {payload}"
    | some r =>
      -- remove the k-th match only
      let rec rm : Nat → List MqReq → List MqReq
        | _, [] => []
        | n, x :: xs =>
          if x.subject == subject && x.payload == payload then
            if n == 0 then xs else x :: rm (n - 1) xs
          else x :: rm n xs
      set { g with reqs := rm k g.reqs }
      deliver r label
  | "event" :: subject :: abs :: _ =>
    if subject.startsWith "system." then systemEvent subject abs
    else if subject.startsWith "conn." then
      -- conn.cN.token   token:<json>|tid=<tid>
      match subject.splitOn "." with
      | [_, c, "token"] =>
        if abs.startsWith "token:" then
          match cutLastStr (abs.drop 6).toString "|tid=" with
          | some (tok, tid) => let _ ← connEnqueue (cidOf c) (.tokenEvent tok tid)
          | none => pure ()
      | _ => pure ()
    else if subject.startsWith "event." then
      match cutLastStr (subject.drop 6).toString "." with
      | none => pure ()
      | some (name, ev) =>
        match sget (← get).index name with
        | none => pure ()
        | some eid =>
          let e ← getEntry eid
          if !e.mqSub then return
          if ev == "query" then
            if abs.startsWith "query:subject=" then
              let subj := (abs.drop 14).toString
              if subj != "" then cacheEnqueue eid (.queryEvent subj)
          else
            let (d, raw) := parseEvData abs
            cacheEnqueue eid (.event ev d raw)
  | ["evict"] => flushEvictions
  | _ => emit s!"MODEL-BAD-STIMULUS {line}"

/-! ### snapshot -/

def showRes (tag : String) (r : Res) : String :=
  let val := match r.state with
    | .model => showModel false r.model
    | .collection => showColl false r.coll
    | _ => "-"
  s!"{tag}[q={r.query} st={r.state.toNat} v={r.version} rst={if r.resetting then 1 else 0} subs={r.subs.length} links={"+".intercalate (sortStrs r.links)} val={val}]"

def b01 (b : Bool) : String := if b then "1" else "0"

def snapshot (g : Gw) : List String :=
  let ents := (sortKV g.index).map fun (name, eid) =>
    let e := tget g.entries eid
    let parts := [s!"E {name} count={e.count} sub={b01 e.mqSub} lock={b01 e.locks.isSome}"] ++
      (match e.base with
       | some b => [showRes "base" (tget e.ress b)]
       | none => []) ++
      ((sortKV e.queries).map fun (_, rs) => showRes "query" (tget e.ress rs)) ++
      (if e.links.isEmpty then [] else
        ["links=" ++ ",".intercalate (sortStrs (e.links.map fun (q, rs) => q ++ ">" ++ (tget e.ress rs).query))])
    " ".intercalate parts
  let liveConns := ((g.conns.filter fun c => g.live.contains c.cid).toArray.qsort
    (fun a b => cname a.cid < cname b.cid)).toList
  let conns := liveConns.map fun c =>
    let head := s!"C {cname c.cid} token={if c.hasToken then c.token else "nil"} tid={c.tid} ver={c.protocol}"
    let subs := (sortKV c.subs).map fun (_, uid) =>
      let s := tget c.objs uid
      let refs := ",".intercalate (sortStrs (s.refs.map fun (r, _, n) => s!"{r}*{n}"))
      s!" | {s.rid} st={s.state.toNat} d={s.direct} i={s.indirect} is={s.indirectsent} qf={s.queueFlag} fl={s.flags} v={s.version} eq={s.eventQueue.length} acc={b01 s.access.isSome} acb={s.accessCbs.length} rcb={s.rcbs.length} res={b01 s.res.isSome} refs={refs}"
    head ++ String.join subs
  ents ++ conns

/-- Run one stimulus to quiescence; returns the output line. -/
def runStimulus (g : Gw) (line : String) (snap : Bool) : Gw × String :=
  if line.startsWith "#" then (g, "")
  else
    let ((), g1) := (do stimulus line; settle 50 : M Unit).run { g with out := #[] }
    -- frames grouped by client in emission order (stable), everything else sorted
    let frames := g1.out.toList.filter (·.startsWith "F ")
    let rest := g1.out.toList.filter (fun o => !o.startsWith "F ")
    let clientOf := fun (o : String) => ((o.splitOn " ").getD 1 "")
    let clients := sortStrs (frames.map clientOf).eraseDups
    let isBarrier := fun (f : String) =>
      ((f.splitOn " ").getD 2 "") != "ev" || (f.splitOn "R{M:").length > 1 || (f.splitOn "R{C:").length > 1 ||
        (f.splitOn "R{E:").length > 1
    let ridOf := fun (f : String) => ((f.splitOn " ").getD 3 "")
    -- runs of event frames without resource set: stable order by resource id
    let canonClient := fun (fs : List String) =>
      let rec go (acc : List String) (run : List String) : List String → List String
        | [] => acc ++ (run.toArray.insertionSort (fun a b => ridOf a < ridOf b)).toList
        | f :: rest =>
          if isBarrier f then go (acc ++ (run.toArray.insertionSort (fun a b => ridOf a < ridOf b)).toList ++ [f]) [] rest
          else go acc (run ++ [f]) rest
      go [] [] fs
    -- runs of responses to different requests: by request id (their order is a race between the
    -- cache workers of different resources; no property orders them)
    let resId := fun (f : String) => if ((f.splitOn " ").getD 2 "") == "res" then ((f.splitOn " ").getD 3 "").toNat? else none
    let canonRes := fun (fs : List String) =>
      let rec goRes (acc : List String) (run : List String) : List String → List String
        | [] => acc ++ (run.toArray.insertionSort (fun a b => (resId a).getD 0 < (resId b).getD 0)).toList
        | f :: rest =>
          if (resId f).isNone then
            goRes (acc ++ (run.toArray.insertionSort (fun a b => (resId a).getD 0 < (resId b).getD 0)).toList ++ [f]) [] rest
          else goRes acc (run ++ [f]) rest
      goRes [] [] fs
    let obs := clients.flatMap (fun c => canonRes (canonClient (frames.filter (fun o => clientOf o == c)))) ++ sortStrs rest
    let obs := match g1.panic with
      | some p => obs ++ [s!"PANIC {p}"]
      | none => obs
    let s := " ;; ".intercalate obs
    let s := if snap then s ++ " ## " ++ " ;; ".intercalate (snapshot g1) else s
    (g1, s)

end Resgate.Gw
