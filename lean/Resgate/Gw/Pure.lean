import Resgate.Gw.Types

/-
Pure decision functions of the gateway model.  The monadic actors (`Ops`, `Cache`, `Conn`, `Run`)
call these, so the lockstep correspondence exercises exactly the definitions the theorems are
about.
-/

namespace Resgate.Gw

/-- `processEvent`'s version filter: `none` = the event targets another version and is dropped;
    `some v'` = processed, the subscriber's version becomes `v'`. -/
def subGate (v stamp : Nat) (update : Bool) : Option Nat :=
  if v ≠ stamp then none else some (if update then v + 1 else v)

/-- `loadAccess` callback: a verdict is cached only for an actual result or `system.accessDenied`. -/
def storeVerdict (a : Access) : Bool :=
  match a.err with
  | none => true
  | some e => e == "system.accessDenied"

/-- What happens to the verdict a subscription remembers (`Subscription.access`). -/
inductive VEv where
  | answer (a : Access)   -- an access answer arrived (`loadAccess` callback)
  | trigger               -- `handleReaccess`: token event on a connection that had a token, reaccess
                          -- event, system reset with a matching access pattern
  deriving Repr

def verdictStep (cached : Option Access) : VEv → Option Access
  | .answer a => if storeVerdict a then some a else cached
  | .trigger => none

/-- The remembered verdict after a history of answers and triggers, most recent first. -/
def verdictAfter : List VEv → Option Access
  | [] => none
  | e :: older => verdictStep (verdictAfter older) e

/-- `wsConn.TokenReset`: a token reset addresses a connection iff the connection has a token id
    and the reset names it. A connection without token id is addressed by no reset, whatever the
    list contains. -/
def resetAddresses (tid : String) (tids : List String) : Bool := tid != "" && tids.contains tid

/-- Outcome of an unsubscribe request (`rpc.HandleRequest` + `UnsubscribeByRID`). -/
inductive UnsubVerdict | invalidParams | noSubscription | ok
  deriving DecidableEq, Repr

def unsubVerdict (badParams : Bool) (count : Int) (direct : Option Int) : UnsubVerdict :=
  if badParams then .invalidParams
  else if count ≤ 0 then .invalidParams
  else match direct with
    | none => .noSubscription
    | some d => if d < count then .noSubscription else .ok

/-- `addCount` for a direct subscription: refused at the limit. -/
def addDirect (limit : Int) (d : Int) : Option Int := if d ≥ limit then none else some (d + 1)

/-- `EventSubscription.removeCount`: new count, whether the entry enters the eviction queue, and
    whether `timerqueue.Add` would panic (element already queued). -/
def removeCountPure (count n : Int) (evictPending : Bool) : Int × Bool × Bool :=
  let c := count - n
  if c == 0 && n != 0 then (c, true, evictPending) else (c, evictPending, false)

/-- `addCount`: leaving count 0 cancels the pending eviction. -/
def addCountPure (count : Int) (evictPending : Bool) : Int × Bool :=
  (count + 1, if count == 0 then false else evictPending)

/-- `Cache.mqUnsubscribe` for an entry taken from the eviction queue: `none` = the entry stays (it is
    not queued, or got a user again); `some u` = it is removed from the cache, and `u` says whether
    its event subscription at the messaging system is released. -/
def evictDecision (count : Int) (evictPending mqSub : Bool) : Option Bool :=
  if evictPending then (if count > 0 then none else some mqSub) else none

/-- The mailbox discipline of a cache entry (`processQueue`): which item runs next.
    While a lock is active only unlock items run; normal items wait. -/
inductive Next where
  | lock (it : LItem) (e : Entry)
  | normal (it : CItem) (e : Entry)
  | idle

def mbNext (e : Entry) : Next :=
  match e.locks with
  | some (cap, (_, it) :: rest) =>
    let cap' := cap - 1
    .lock it { e with locks := if cap' == 0 && rest.isEmpty then none else some (cap', rest) }
  | some (_, []) => .idle
  | none =>
    match e.queue with
    | [] => .idle
    | (_, it) :: rest => .normal it { e with queue := rest }

/-- `EventSubscription.Enqueue`: the item joins the end of the queue. -/
def Entry.push (e : Entry) (st : Nat) (it : CItem) : Entry := { e with queue := e.queue ++ [(st, it)] }

/-- `EventSubscription.enqueueUnlock`: the answer of a query request joins the arrived unlock items. -/
def Entry.pushUnlock (e : Entry) (st : Nat) (it : LItem) : Entry :=
  match e.locks with
  | some (cap, pend) => { e with locks := some (cap, pend ++ [(st, it)]) }
  | none => { e with locks := some (0, [(st, it)]) }   -- append to a nil slice (unreachable)

/-- `lockEvents(n)`: `n` query requests are out; the normal queue is suspended. -/
def Entry.lockFor (e : Entry) (n : Nat) : Entry := { e with locks := some (n, []) }

/-! ### the throttle as the gateway model uses it (`rescache.Throttle`) -/

/-- `running >= limit`: the callback has to wait. -/
def ThrottleS.full (t : ThrottleS) : Bool := t.running ≥ t.limit

/-- `Add` while full: the callback (a job id) joins the queue. -/
def ThrottleS.enqueue (t : ThrottleS) (jid : Nat) : ThrottleS := { t with queue := t.queue ++ [jid] }

/-- `Add` with a free slot: the callback runs at once. -/
def ThrottleS.start (t : ThrottleS) : ThrottleS := { t with running := t.running + 1 }

/-- `Done`: `none` is the Go panic (nothing running); otherwise the new state and the waiting
    callback that takes over the slot, if any. -/
def ThrottleS.done (t : ThrottleS) : Option (ThrottleS × Option Nat) :=
  if t.running ≤ 0 then none
  else match t.queue with
    | [] => some ({ t with running := t.running - 1 }, none)
    | jid :: q => some ({ t with queue := q }, some jid)

end Resgate.Gw
