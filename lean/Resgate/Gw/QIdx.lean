import Resgate.Gw.Types

/-
The alias index of a cache entry (`EventSubscription.base / queries / links`) as pure functions:
which cached resource a (raw) query of a subscriber resolves to, how a get response that carries a
normalised query re-links the raw one, and what unregistering removes.  `Gw/Cache.lean` is built
from these; `Proofs/QIdx.lean` proves that aliases share one resource.
-/

namespace Resgate.Gw

def qget {β} (t : List (String × β)) (k : String) : Option β := t.lookup k
def qset {β} (t : List (String × β)) (k : String) (v : β) : List (String × β) :=
  if t.any (·.1 == k) then t.map (fun p => if p.1 == k then (k, v) else p) else t ++ [(k, v)]
def qdel {β} (t : List (String × β)) (k : String) : List (String × β) := t.filter (·.1 != k)

structure QIdx where
  base : Option Nat := none
  queries : List (String × Nat) := []
  links : List (String × Nat) := []
  deriving Repr, Inhabited

/-- `getResourceSubscription`'s lookup: the base for the empty query, else `queries`, else `links`. -/
def QIdx.lookup (x : QIdx) (q : String) : Option Nat :=
  if q == "" then x.base
  else match qget x.queries q with
    | some rs => some rs
    | none => qget x.links q

/-- A new resource subscription is registered under its own query. -/
def QIdx.register (x : QIdx) (q : String) (rs : Nat) : QIdx :=
  if q == "" then { x with base := some rs } else { x with queries := x.queries ++ [(q, rs)] }

/-- `processGetResponse` when the response names another (normalised) query: the raw query now
    leads to the target resource. -/
def QIdx.link (x : QIdx) (raw : String) (target : Nat) : QIdx :=
  if raw == "" then { x with base := some target }
  else { x with links := qset x.links raw target, queries := qdel x.queries raw }

/-- `ResourceSubscription.unregister`: its own query and every query linked to it. -/
def QIdx.unregister (x : QIdx) (q : String) (linked : List String) : QIdx :=
  let x := if q == "" then { x with base := none } else { x with queries := qdel x.queries q }
  linked.foldl (fun x l => if l == "" then { x with base := none } else { x with links := qdel x.links l }) x

end Resgate.Gw
