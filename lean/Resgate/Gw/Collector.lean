import Resgate.Gw.Populate

/-
The two traversals of `wsConn.tryDelete` (server/wsConnGC.go, as repaired by fb6e752: the table is
keyed by subscription object) as pure, structurally recursive functions of the connection.  The
model's `tryDeleteCore` runs these, so the lockstep correspondence exercises the definitions the
C15 theorem "the second pass only meets registered subscriptions" is about.
-/

namespace Resgate.Gw

/-- The collector's table: resource id, subscription object, remaining indirect / indirectsent
    counts, gc state (0 stop, 1 root, 2 none, 3 delete, 4 keep, 5 unsend). -/
abbrev Memo := List (String × Nat × Int × Int × Nat)

def Memo.find (m : Memo) (uid : Nat) : Option (String × Nat × Int × Int × Nat) := m.find? (·.2.1 == uid)

def lcg (x : Nat) : Nat := (x * 6364136223846793005 + 1442695040888963407) % 18446744073709551616

/-- A permutation of `l` determined by `seed`. -/
def shuffle {α} (seed : Nat) : List α → List α
  | [] => []
  | l@(_ :: _) =>
    let rec go (fuel : Nat) (seed : Nat) (l : List α) (acc : List α) : List α :=
      match fuel, l with
      | 0, _ => acc.reverse ++ l
      | _, [] => acc.reverse
      | fuel + 1, l =>
        let s := lcg seed
        let i := (s / 65536) % l.length
        match l[i]? with
        | some x => go fuel s (l.eraseIdx i) (x :: acc)
        | none => acc.reverse ++ l
    go l.length seed l []

/-- The order of a range over a `refs` map as a pure function of the order parameter and a
    counter of ranges (same policies as `orderedList`): returns the order and the next counter. -/
def refsOrder (ord ctr : Nat) (s : Sub) : List (String × Nat × Nat) × Nat :=
  let sorted := sortedRefs s
  if ord < 6 then
    let l := if ord % 2 == 1 then sorted.reverse else sorted
    let k := if l.isEmpty then 0 else (ord / 2) % l.length
    (l.drop k ++ l.take k, ctr)
  else (shuffle (lcg (ord * 1000003 + ctr * 7919)) sorted, ctr + 1)

/-- First traversal (`traverse(gcStateRoot, …)`): registers every subscription reachable through
    subscriptions without direct count and counts the edges. Result: table, range counter, and
    whether the fuel sufficed. -/
def pass1F (ord : Nat) (sentDiff : Int) : Nat → Conn → Nat → Nat → Memo → Nat → Memo × Nat × Bool
  | 0, _, _, _, memo, ctr => (memo, ctr, false)
  | fuel + 1, c, uid, state, memo, ctr =>
    let s := tget c.objs uid
    if s.direct > 0 then (memo, ctr, true)
    else
      let res : Memo × Nat :=
        if state == 1 then (memo, 2)
        else match memo.find uid with
          | some (_, u, _, _, _) =>
            (memo.map (fun e => if e.2.1 == u then (e.1, e.2.1, e.2.2.1 - 1, e.2.2.2.1 - sentDiff, e.2.2.2.2) else e), 0)
          | none => (memo ++ [(s.rid, uid, s.indirect - 1, s.indirectsent - sentDiff, 2)], 2)
      if res.2 == 0 then (res.1, ctr, true)
      else
        let oc := refsOrder ord ctr s
        oc.1.foldl
          (fun acc ch =>
            let r := pass1F ord sentDiff fuel c ch.2.1 res.2 acc.1 acc.2.1
            (r.1, r.2.1, acc.2.2 && r.2.2))
          (res.1, oc.2, true)

/-- Second traversal (`traverse(gcStateDelete, …)`): marks delete / keep / unsend. The last two
    results: the fuel sufficed; **no subscription was met that the first traversal had not
    registered** (where the Go code before fb6e752 dereferenced nil). -/
def pass2F (ord : Nat) (sent : Bool) : Nat → Conn → Nat → Nat → Memo → Nat → Memo × Nat × Bool × Bool
  | 0, _, _, _, memo, ctr => (memo, ctr, false, true)
  | fuel + 1, c, uid, state, memo, ctr =>
    let s := tget c.objs uid
    if s.direct > 0 then (memo, ctr, true, true)
    else match memo.find uid with
      | none => (memo, ctr, true, false)
      | some (_, u, i, is, gs) =>
        let setSt := fun (n : Nat) =>
          memo.map (fun e => if e.2.1 == u then (e.1, e.2.1, e.2.2.1, e.2.2.2.1, n) else e)
        let res : Memo × Nat :=
          if gs ≥ 4 then (memo, 0)
          else if i > 0 || state == 4 then
            (if sent && is == 0 then (setSt 5, 4) else (setSt 4, 4))
          else if gs != 2 then (memo, 0)
          else (setSt 3, 3)
        if res.2 == 0 then (res.1, ctr, true, true)
        else
          let oc := refsOrder ord ctr s
          oc.1.foldl
            (fun acc ch =>
              let r := pass2F ord sent fuel c ch.2.1 res.2 acc.1 acc.2.1
              (r.1, r.2.1, acc.2.2.1 && r.2.2.1, acc.2.2.2 && r.2.2.2))
            (res.1, oc.2, true, true)

end Resgate.Gw
