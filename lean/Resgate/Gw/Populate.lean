import Resgate.Gw.Base

/-
`Subscription.populateResources` (server/subscription.go) as a pure function of the connection:
the depth-first collection of everything a response or event has to deliver — the resources
reachable from the root that the client has not been sent yet.  The monadic `populate` of the
connection actor runs this function, so the lockstep correspondence exercises the definition the
C02 closure theorem is about.
-/

namespace Resgate.Gw

def Sub.isReady (s : Sub) : Bool := s.state.toNat ≥ 3
def Sub.isSent (s : Sub) : Bool := s.state == .sent

/-- `Subscription.Error`. -/
def Sub.error (s : Sub) : Option String :=
  if s.state == .disposed then some "system.disposedSubscription" else s.err

/-- Insertion into a list sorted by resource id. -/
def insertRef (x : String × Nat × Nat) : List (String × Nat × Nat) → List (String × Nat × Nat)
  | [] => [x]
  | y :: ys => if x.1 < y.1 then x :: y :: ys else y :: insertRef x ys

/-- The reference table in the order of the resource ids (the model's canonical order for a range
    over the `refs` map; the map has one entry per resource id). -/
def sortedRefs (s : Sub) : List (String × Nat × Nat) := s.refs.foldr insertRef []

/-- Already delivered to the client (`sent`) or already placed in the set being built (`toSend`). -/
def Sub.visited (s : Sub) : Bool := s.state == .sent || s.state == .toSend

/-- The recursion is bounded by the number of subscriptions of the connection (every descent marks
    a fresh one); `fuel` makes that structural. The Boolean result is `false` iff the fuel ran out
    (the caller turns that into a panic of the model, which the lockstep would show). -/
def populateF : Nat → Conn → Nat → RSet → Bool → Conn × RSet × Bool
  | 0, c, _, r, _ => (c, r, false)
  | fuel + 1, c, uid, r, indirect =>
    let s0 := tget c.objs uid
    let c1 : Conn := if indirect then
        { c with objs := tset c.objs uid { s0 with indirectsent := s0.indirectsent + 1 } }
      else c
    let s := tget c1.objs uid
    if s.visited then (c1, r, true)
    else match s.error with
      | some e => (c1, { r with errors := sset r.errors s.rid e }, true)
      | none =>
        let r1 : RSet := match s.typ with
          | .collection => { r with colls := sset r.colls s.rid s.coll }
          | .model => { r with models := sset r.models s.rid s.model }
          | _ => r
        let c2 : Conn := { c1 with objs := tset c1.objs uid { s with state := .toSend } }
        (sortedRefs s).foldl
          (fun acc ch =>
            let res := populateF fuel acc.1 ch.2.1 acc.2.1 true
            (res.1, res.2.1, acc.2.2 && res.2.2))
          (c2, r1, true)

end Resgate.Gw
