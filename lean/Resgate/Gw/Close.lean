import Resgate.Gw.Ops

/-
What a closing connection gives back (`wsConn.dispose`, `Subscription.Dispose`), as pure functions
of the gateway state: the monadic `disposeConn` is a fold of `closeSub`, so the lockstep
correspondence exercises exactly the definitions the C11 theorems are about.
-/

namespace Resgate.Gw

/-- `Subscription.Dispose` on a closing connection. Its reference clean-up (`unsubscribeRefs`) is a
    no-op there: `wsConn.Unsubscribe` returns at once once the connection is disposing. -/
def Sub.closed (s : Sub) : Sub :=
  match s.res with
  | none => { s with state := .disposed, rcbs := [], eventQueue := [], throttle := none }
  | some _ => { s with state := .disposed, rcbs := [], eventQueue := [], throttle := none, refs := [], res := none }

/-- The cache item by which a subscription gives back its use of a cached resource
    (`resourceSub.Unsubscribe(s)`); a subscription that is already disposed, never got a resource or
    saw its resource deleted holds nothing. -/
def Sub.release (cid : Nat) (s : Sub) : Option (Nat × CItem) :=
  if s.state == .disposed then none else
  match s.res with
  | none => none
  | some (eid, rs) => if s.state != .deleted then some (eid, .unsubscribe rs ⟨cid, s.uid⟩) else none

/-- Append an item to a cache entry's queue with the next stamp (`cacheEnqueue`, pure). -/
def enqueuePure (g : Gw) (eid : Nat) (it : CItem) : Gw :=
  { g with stamp := g.stamp + 1,
           entries := tset g.entries eid
             (let e := tget g.entries eid; { e with queue := e.queue ++ [(g.stamp, it)] }) }

/-- Replace subscription object `uid` of connection `cid`. -/
def setSubPure (g : Gw) (cid uid : Nat) (s : Sub) : Gw :=
  { g with conns := g.conns.map fun d => if d.cid == cid then { d with objs := tset d.objs uid s } else d }

/-- One subscription of the closing connection `cid`. -/
def closeSub (cid : Nat) (g : Gw) (uid : Nat) : Gw :=
  let c := (g.conns.find? (·.cid == cid)).getD default
  let s := tget c.objs uid
  if s.state == .disposed then g else
  let g1 := setSubPure g cid uid s.closed
  match s.release cid with
  | none => g1
  | some (eid, it) => enqueuePure g1 eid it

/-- All subscriptions of the closing connection, in the order the map range produced. -/
def closeSubs (cid : Nat) (g : Gw) (order : List Nat) : Gw := order.foldl (closeSub cid) g

/-- The first half of `wsConn.dispose`: the connection is marked, its subscription map is taken
    away, it leaves the token-reset fan-out (`Service.conns`) and gives up its connection-event
    subscription. -/
def closingStart (g : Gw) (cid : Nat) : Gw :=
  { g with conns := g.conns.map (fun d => if d.cid == cid then { d with disposing := true, subs := [] } else d),
           live := g.live.filter (· != cid),
           out := g.out.push s!"U conn.{cname cid}" }

end Resgate.Gw
