import Resgate.Gw.Close
import Resgate.Gw.Populate
import Resgate.Gw.Collector
import Resgate.Gw.Cache
import Resgate.Model.Encode
import Resgate.Model.Http

/-
The connection actors: one step = one queue item of one `wsConn`
(`server/wsConn.go`, `server/subscription.go`, `server/wsConnGC.go`, `server/rpc/rpc.go`).
Map iterations use sorted key order; the properties do not depend on the order.
-/

namespace Resgate.Gw

def vLatestSoft : Nat := 1002001
def vCallRes : Nat := 1002000

def sendFrame (cid : Nat) (txt : String) : M Unit := emit s!"F {cname cid} {txt}"

def replyErr (cid req : Nat) (code : String) : M Unit := sendFrame cid s!"res {req} err {code}"

def isLegacy (c : Conn) : Bool := c.protocol < vLatestSoft

/-- `Access.CanGet`: `none` = granted. -/
def Access.canGet (a : Access) : Option String :=
  match a.err with
  | some e => some e
  | none => if a.get then none else some "system.accessDenied"

def Access.canCallE (a : Access) (action : String) : Option String :=
  match a.err with
  | some e => some e
  | none => if canCall (toBytes a.call) (toBytes action) then none else some "system.accessDenied"

def newSubObj (cid : Nat) (rid : String) (throttle : Option Nat) : M Nat := do
  let uid ← fresh
  let (name, query) := splitRid (expandCid cid rid)
  setSub cid { uid, rid, name, query, throttle }
  return uid

def getRcb (cid id : Nat) : M Rcb := return tget (← getConn cid).rcbs id
def setRcb (cid id : Nat) (r : Rcb) : M Unit := modConn cid fun c => { c with rcbs := tset c.rcbs id r }

/-- Go ranges over maps in an unspecified order; the model's order is a parameter (`Gw.ord`):
    0..5 = sorted, optionally reversed, rotated (one policy for every range); from 6 on every
    range gets its own pseudo-random permutation. No property depends on it. -/
def orderedList {α} (sorted : List α) (refsPolicy : Bool) : M (List α) := do
  let g ← get
  if g.ord < 6 then
    if !refsPolicy then return sorted
    let l := if g.ord % 2 == 1 then sorted.reverse else sorted
    let k := if l.isEmpty then 0 else (g.ord / 2) % l.length
    return l.drop k ++ l.take k
  else
    set { g with ordCtr := g.ordCtr + 1 }
    return shuffle (lcg (g.ord * 1000003 + g.ordCtr * 7919)) sorted

def orderedRefs (s : Sub) : M (List (String × Nat × Nat)) := orderedList (sortedRefs s) true

/-- `wsConn.Access` → `Cache.Access`. -/
def connAccess (cid uid : Nat) (t : Option Nat) : M Unit := do
  match t with
  | some th => throttleAdd th (.sendAccess ⟨cid, uid⟩ th)
  | none =>
    let c ← getConn cid
    let s ← getSub cid uid
    sendRequest s.name s!"access.{s.name}" (reqPayload cid c.token s.query "")
      (fun eid => .access eid ⟨cid, uid⟩ none)

/-- `Cache.Subscribe`. -/
def cacheSubscribe (cid uid : Nat) (t : Option Nat) : M Unit := do
  let s ← getSub cid uid
  match ← getSubscription s.name true with
  | none => subLoaded ⟨cid, uid⟩ none "system.subjectTooLong"
  | some eid => cacheEnqueue eid (.addSubscriber ⟨cid, uid⟩ s.query t)

/-- `wsConn.Subscribe` / `subscribe` / `addCount`; `Except` = error code. -/
def connSubscribe (cid : Nat) (rid : String) (direct : Bool) (t : Option Nat) : M (Except String Nat) := do
  let c ← getConn cid
  if c.disposing then return .error "system.internalError"
  match sget c.subs rid with
  | some uid =>
    let s ← getSub cid uid
    if direct then
      match addDirect 256 s.direct with
      | none => return .error "system.subscriptionLimitExceeded"
      | some d => setSub cid { s with direct := d }
    else
      setSub cid { s with indirect := s.indirect + 1 }
    return .ok uid
  | none =>
    let g ← get
    let t ← match t with
      | some t => pure (some t)
      | none => if g.refThrottle > 0 then do pure (some (← newThrottle g.refThrottle)) else pure none
    let uid ← newSubObj cid rid t
    modSub cid uid fun s => if direct then { s with direct := 1 } else { s with indirect := 1 }
    cacheSubscribe cid uid t
    modConn cid fun c => { c with subs := c.subs ++ [(rid, uid)] }
    return .ok uid

mutual

/-- `Subscription.Dispose`. -/
partial def disposeSub (cid uid : Nat) : M Unit := do
  let s ← getSub cid uid
  if s.state == .disposed then return
  let state0 := s.state
  setSub cid { s with state := .disposed, rcbs := [], eventQueue := [], throttle := none }
  match s.res with
  | none => pure ()
  | some (eid, rs) =>
    -- unsubscribeRefs: IsSent() is read after the state became disposed
    let s1 ← getSub cid uid
    let sent := s1.isSent
    for (_, child, _) in (← orderedRefs s) do
      connUnsubscribe cid child false sent 1 false
    modSub cid uid fun s => { s with refs := [] }
    if state0 != .deleted then cacheEnqueue eid (.unsubscribe rs ⟨cid, uid⟩)
    modSub cid uid fun s => { s with res := none }

/-- `Subscription.Unsend`. -/
partial def unsendSub (cid uid : Nat) : M Unit := do
  modSub cid uid fun s => { s with state := .ready, indirectsent := 0 }
  let s ← getSub cid uid
  for (_, child, _) in (← orderedRefs s) do
    modSub cid child fun cs =>
      if cs.state == .sent && cs.indirectsent > 0 then { cs with indirectsent := cs.indirectsent - 1 } else cs

/-- `Subscription.traverse` (depth first over `refs`, sorted). The callback result decides. -/
partial def traverse (cid uid : Nat) (state : Nat)
    (cb : Nat → Nat → M Nat) : M Unit := do
  let s ← getSub cid uid
  if s.direct > 0 then return
  let st ← cb uid state
  if st == 0 then return
  for (_, child, _) in (← orderedRefs s) do
    traverse cid child st cb

/- `wsConn.tryDelete` (gc states: 0 stop, 1 root, 2 none, 3 delete, 4 keep, 5 unsend). -/

/-- `wsConn.tryDelete`: the two pure traversals `pass1F` / `pass2F` over the connection, then the
    dispose / unsend loop. Fuel: two descents per subscription object. -/
partial def tryDeleteCore (cid uid : Nat) (sent : Bool) (sentDiff : Int) : M Unit := do
  let s ← getSub cid uid
  if s.direct > 0 then return
  let g ← get
  let c ← getConn cid
  -- a subscription can be on a path twice in the second traversal (first as delete, then as keep)
  let fuel := 2 * c.objs.length + 3
  let memo0 : Memo := [(s.rid, uid, s.indirect, s.indirectsent, 2)]
  let (memo1, ctr1, ok1) := pass1F g.ord sentDiff fuel c uid 1 memo0 g.ordCtr
  modify fun g => { g with ordCtr := ctr1 }
  if !ok1 then doPanic "tryDelete: recursion bound exceeded"
  let rr := (memo1.find uid).getD default
  let (_, _, rind, rsent, _) := rr
  if rind > 0 && !(sent && rsent == 0) then return
  let (memo2, ctr2, ok2, found) := pass2F g.ord sent fuel c uid 3 memo1 ctr1
  modify fun g => { g with ordCtr := ctr2 }
  if !ok2 then doPanic "tryDelete: recursion bound exceeded"
  if !found then doPanic "tryDelete: subscription not registered by the first pass"
  for (rid, u, _, _, st) in memo2 do
    if st == 3 then
      disposeSub cid u
      -- only the table entry of this very subscription object is removed
      modConn cid fun c => if sget c.subs rid == some u then { c with subs := sdel c.subs rid } else c
    else if st == 5 then
      unsendSub cid u

/-- `wsConn.Unsubscribe` / `removeCount`. -/
partial def connUnsubscribe (cid uid : Nat) (direct sent : Bool) (count : Int) (tryDel : Bool) : M Unit := do
  let c ← getConn cid
  if c.disposing then return
  let s ← getSub cid uid
  if s.direct + s.indirect + s.indirectsent == 0 then return
  if direct then setSub cid { s with direct := s.direct - count }
  else setSub cid { s with indirect := s.indirect - count,
                           indirectsent := if sent then s.indirectsent - count else s.indirectsent }
  if tryDel then
    let s ← getSub cid uid
    tryDeleteCore cid uid s.isSent (if s.isSent then 1 else 0)

end

/-- `wsConn.dispose`. -/
def disposeConn (cid : Nat) : M Unit := do
  let c ← getConn cid
  if c.disposing then return
  modify fun g => closingStart g cid
  let order ← orderedList (c.subs.mergeSort fun a b => !(b.1 < a.1)) false
  modify fun g => closeSubs cid g (order.map (·.2))

/-- The resource graph an HTTP GET renders: the connection's subscriptions with their load-time
    snapshots (`Subscription.model / collection / Error()`), references resolved by resource id. -/
def httpGraph (c : Conn) : Enc.HGraph :=
  let hv : Val → Enc.HVal := fun v => match v with
    | .prim n => .prim (toString n)
    | .data n => .data ("{\"a\":" ++ toString n ++ "}")
    | .soft r => .soft r
    | .ref r => .ref r
  c.subs.map fun (rid, uid) =>
    let s := tget c.objs uid
    match s.error with
    | some e => (rid, Enc.HNode.err ("{\"code\":\"" ++ e ++ "\"}"))
    | none => match s.typ with
      | .collection => (rid, .coll (s.coll.map hv))
      | _ => (rid, .model ((sortKV s.model).map fun (k, v) => (k, hv v)))

/-- `httpError` / `httpStatusResponse`: status line and error body of an HTTP answer. -/
def httpRespondErr (cid h : Nat) (code : String) : M Unit := do
  emit s!"H h{h} status={errorStatus code} body=err:{code}"
  disposeConn cid

/-- `addReference`. -/
def addReference (cid uid : Nat) (rid : String) : M (Except String Nat) := do
  let s ← getSub cid uid
  match s.refs.find? (·.1 == rid) with
  | some (_, child, _) =>
    setSub cid { s with refs := s.refs.map fun r => if r.1 == rid then (r.1, r.2.1, r.2.2 + 1) else r }
    return .ok child
  | none =>
    match ← connSubscribe cid rid false s.throttle with
    | .error e => return .error e
    | .ok child =>
      modSub cid uid fun s => { s with refs := s.refs ++ [(rid, child, 1)] }
      return .ok child

/-- `removeReference`. -/
def removeReference (cid uid : Nat) (rid : String) : M Unit := do
  let s ← getSub cid uid
  match s.refs.find? (·.1 == rid) with
  | none => pure ()      -- a reference the subscription does not hold: ignored
  | some (_, child, n) =>
    if n == 1 then
      connUnsubscribe cid child false s.isSent 1 true
      modSub cid uid fun s => { s with refs := s.refs.filter (·.1 != rid) }
    else
      setSub cid { s with refs := s.refs.map fun r => if r.1 == rid then (r.1, r.2.1, r.2.2 - 1) else r }

/-- `populateResources` (both encodings populate alike; rendering differs): the pure `populateF`
    with fuel for one descent per subscription object of the connection. -/
def populate (cid uid : Nat) (r : RSet) (indirect : Bool) : M RSet := do
  let c ← getConn cid
  let res := populateF (c.objs.length + 2) c uid r indirect
  setConn res.1
  if !res.2.2 then doPanic "populate: recursion bound exceeded"
  return res.2.1

mutual

/-- `doneLoading`. -/
partial def doneLoading (cid uid : Nat) : M Unit := do
  let s ← getSub cid uid
  setSub cid { s with state := .ready, rcbs := [], throttle := none }
  for id in s.rcbs do
    let rcb ← getRcb cid id
    setRcb cid id { rcb with loading := rcb.loading - 1 }
    testReady cid id

partial def testReady (cid id : Nat) : M Unit := do
  let rcb ← getRcb cid id
  if rcb.loading == 0 then runRCont cid rcb.cb

/-- `onLoaded`. -/
partial def onLoaded (cid uid id : Nat) : M Unit := do
  let rcb ← getRcb cid id
  let s ← getSub cid uid
  setRcb cid id { rcb with refMap := rcb.refMap ++ [s.rid], loading := rcb.loading + 1 }
  if s.state.toNat ≥ 2 then collectRefs cid uid id
  else setSub cid { s with rcbs := s.rcbs ++ [id] }

/-- `collectRefs`. -/
partial def collectRefs (cid uid id : Nat) : M Unit := do
  let s ← getSub cid uid
  for (rid, child, _) in (← orderedRefs s) do
    let cs ← getSub cid child
    let rcb ← getRcb cid id
    if cs.isReady || rcb.refMap.contains rid then continue
    onLoaded cid child id
  let rcb ← getRcb cid id
  setRcb cid id { rcb with loading := rcb.loading - 1 }
  testReady cid id

/-- `OnReady`. -/
partial def onReady (cid uid : Nat) (k : RCont) : M Unit := do
  let s ← getSub cid uid
  if s.isReady then runRCont cid k
  else
    let id ← fresh
    setRcb cid id { refMap := [], loading := 0, cb := k }
    onLoaded cid uid id

/-- `ReleaseRPCResources`. -/
partial def releaseRPC (cid uid : Nat) : M Unit := do
  let s ← getSub cid uid
  if s.state == .disposed || s.state == .sent || s.err.isSome then return
  setSub cid { s with state := .sent }
  for (_, child, _) in (← orderedRefs s) do
    releaseRPC cid child
  unqueueEvents cid uid 1

/-- `unqueueEvents`. -/
partial def unqueueEvents (cid uid : Nat) (reason : Nat) : M Unit := do
  modSub cid uid fun s => { s with queueFlag := s.queueFlag &&& (3 - reason) }
  let s ← getSub cid uid
  if s.queueFlag != 0 then return
  if s.flags &&& 2 != 0 then
    handleReaccess cid uid none
    let s ← getSub cid uid
    if s.queueFlag != 0 then return
  let s ← getSub cid uid
  let eq := s.eventQueue
  setSub cid { s with eventQueue := [] }
  let rec go (l : List REv) : M Unit := do
    match l with
    | [] => pure ()
    | ev :: rest =>
      processEvent cid uid ev
      let s ← getSub cid uid
      if s.queueFlag != 0 then
        setSub cid { s with eventQueue := rest ++ s.eventQueue }
      else go rest
  go eq

/-- `handleReaccess`. -/
partial def handleReaccess (cid uid : Nat) (t : Option Nat) : M Unit := do
  modSub cid uid fun s => { s with access := verdictStep s.access .trigger, flags := s.flags &&& 1 }
  let s ← getSub cid uid
  if s.direct == 0 then return
  modSub cid uid fun s => { s with queueFlag := s.queueFlag ||| 2 }
  loadAccess cid uid .reaccess t

/-- `reaccess`. -/
partial def reaccess (cid uid : Nat) (t : Option Nat) : M Unit := do
  let s ← getSub cid uid
  if s.state == .disposed then return
  if s.queueFlag != 0 then
    setSub cid { s with flags := s.flags ||| 2 }
    return
  handleReaccess cid uid t

/-- `loadAccess`. -/
partial def loadAccess (cid uid : Nat) (k : ACont) (t : Option Nat) : M Unit := do
  let s ← getSub cid uid
  match s.access with
  | some a => runACont cid uid k a
  | none =>
    setSub cid { s with accessCbs := s.accessCbs ++ [k] }
    if s.flags &&& 1 != 0 then return
    modSub cid uid fun s => { s with flags := s.flags ||| 1 }
    connAccess cid uid t

/-- `unsubscribeDirect`. -/
partial def unsubscribeDirect (cid uid : Nat) (reason : String) : M Unit := do
  let s ← getSub cid uid
  if s.direct > 0 then
    connUnsubscribe cid uid true false s.direct true
    sendFrame cid s!"ev {s.rid} unsubscribe reason={reason}"

/-- Run an access callback with the verdict. -/
partial def runACont (cid uid : Nat) (k : ACont) (a : Access) : M Unit := do
  let s ← getSub cid uid
  match k with
  | .canGet gk =>
    match a.canGet, gk with
    | some e, .get req => replyErr cid req e; connUnsubscribe cid uid true false 1 true
    | some e, .subscribe req => replyErr cid req e; connUnsubscribe cid uid true false 1 true
    | some e, .resource req =>
      sendFrame cid s!"res {req} ok rid={s.rid} {({ errors := [(s.rid, e)] } : RSet).show false}"
      connUnsubscribe cid uid true false 1 true
    | none, .get req => onReady cid uid (.get req uid)
    | none, .subscribe req => onReady cid uid (.subscribe req uid)
    | none, .resource req => onReady cid uid (.resource req uid)
  | .canCall action req kind params =>
    match a.canCallE action with
    | some e => replyErr cid req e
    | none =>
      let c ← getConn cid
      sendRequest s.name s!"call.{s.name}.{action}" (reqPayload cid c.token s.query params)
        (fun eid => .call eid (.call cid req kind))
  | .reaccess =>
    match a.canGet with
    | some e => unsubscribeDirect cid uid e
    | none => pure ()
    unqueueEvents cid uid 2

/-- Run a ready callback. -/
partial def runRCont (cid : Nat) (k : RCont) : M Unit := do
  let c ← getConn cid
  let legacy := isLegacy c
  match k with
  | .get req uid =>
    let s ← getSub cid uid
    match s.error with
    | some e => replyErr cid req e; connUnsubscribe cid uid true false 1 true
    | none =>
      let r ← populate cid uid {} false
      sendFrame cid s!"res {req} ok {r.show legacy}"
      releaseRPC cid uid
      connUnsubscribe cid uid true false 1 true
  | .subscribe req uid =>
    let s ← getSub cid uid
    match s.error with
    | some e => replyErr cid req e; connUnsubscribe cid uid true false 1 true
    | none =>
      let r ← populate cid uid {} false
      sendFrame cid s!"res {req} ok {r.show legacy}"
      releaseRPC cid uid
  | .resource req uid =>
    let s ← getSub cid uid
    let r ← populate cid uid {} false
    sendFrame cid s!"res {req} ok rid={s.rid} {r.show legacy}"
    releaseRPC cid uid
  | .httpGet h uid _ =>
    let s ← getSub cid uid
    match s.error with
    | some e => httpRespondErr cid h e
    | none =>
      let g ← get
      let c ← getConn cid
      match Enc.encodeGET (httpGraph c) "/api/" g.flat s.rid with
      | none => doPanic "encoder: nil subscription reference"
      | some body =>
        emit s!"H h{h} status=200 body={body}"
        disposeConn cid
  | .addEvent parent idx v child =>
    let p ← getSub cid parent
    if p.state == .disposed then return
    let r ← populate cid child {} true
    sendFrame cid s!"ev {p.rid} add idx={idx} value={v.show legacy} {r.show legacy}"
    releaseRPC cid child
    unqueueEvents cid parent 1
  | .changeEvent parent counter subs changed =>
    let p ← getSub cid parent
    if p.state == .disposed then return
    let n := (tget c.counters counter) - 1
    modConn cid fun c => { c with counters := tset c.counters counter n }
    if n > 0 then return
    let mut r : RSet := {}
    for u in subs do
      r ← populate cid u r true
    sendFrame cid s!"ev {p.rid} change values={showChanged legacy changed} {r.show legacy}"
    for u in subs do releaseRPC cid u
    unqueueEvents cid parent 1

/-- `processEvent`. -/
partial def processEvent (cid uid : Nat) (ev : REv) : M Unit := do
  let s ← getSub cid uid
  -- queued events of a subscription disposed by an earlier event of the batch are discarded
  if s.res.isNone then return
  match subGate s.version ev.version ev.update with
  | none => return
  | some v' => setSub cid { s with version := v' }
  let c ← getConn cid
  let legacy := isLegacy c
  let typ ← match s.res with
    | some (eid, rs) => do pure (← getRes eid rs).state
    | none => pure RState.subscribed
  let genericSend : M Unit :=
    if ev.raw == "" then sendFrame cid s!"ev {s.rid} {ev.name}"
    else sendFrame cid s!"ev {s.rid} {ev.name} data={ev.raw}"
  let onDelete : M Unit := do
    modSub cid uid fun s => { s with state := .deleted }
    sendFrame cid s!"ev {s.rid} delete"
    unsubscribeDirect cid uid "system.deleted"
  match typ with
  | .collection =>
    match ev.name with
    | "add" =>
      let v := ev.value.getD default
      match v with
      | .ref rid =>
        match ← addReference cid uid rid with
        | .error _ => pure ()
        | .ok child =>
          let cs ← getSub cid child
          if cs.isSent then
            setSub cid { cs with indirectsent := cs.indirectsent + 1 }
            sendFrame cid s!"ev {s.rid} add idx={ev.idx} value={v.show legacy} R\{}"
          else
            modSub cid uid fun s => { s with queueFlag := s.queueFlag ||| 1 }
            onReady cid child (.addEvent uid ev.idx v child)
      | _ => sendFrame cid s!"ev {s.rid} add idx={ev.idx} value={v.show legacy} R\{}"
    | "remove" =>
      match ev.value with
      | some (.ref rid) => removeReference cid uid rid
      | _ => pure ()
      sendFrame cid s!"ev {s.rid} remove idx={ev.idx}"
    | "delete" => onDelete
    | _ => genericSend
  | .model =>
    match ev.name with
    | "change" =>
      let ch ← orderedList (sortKV ev.changed) false
      let mut subs : List Nat := []
      let mut hasUnsent := false
      let mut failed := false
      for (_, v) in ch do
        match v with
        | some (.ref rid) =>
          match ← addReference cid uid rid with
          | .error _ => failed := true
          | .ok child =>
            let cs ← getSub cid child
            hasUnsent := hasUnsent || !cs.isSent
            subs := subs ++ [child]
        | _ => pure ()
      if failed then return
      for (k, _) in ch do
        match sget ev.oldVals k with
        | some (.ref rid) => removeReference cid uid rid
        | _ => pure ()
      if !hasUnsent then
        for u in subs do modSub cid u fun cs => { cs with indirectsent := cs.indirectsent + 1 }
        sendFrame cid s!"ev {s.rid} change values={showChanged legacy ev.changed} R\{}"
      else
        modSub cid uid fun s => { s with queueFlag := s.queueFlag ||| 1 }
        let counter ← fresh
        modConn cid fun c => { c with counters := tset c.counters counter subs.length }
        for u in subs do
          onReady cid u (.changeEvent uid counter subs ev.changed)
    | "delete" => onDelete
    | _ => genericSend
  | _ => pure ()

end

/-- `setModel` / `setCollection` with `subscribeRef`. -/
def setResource (cid uid : Nat) : M Unit := do
  let s ← getSub cid uid
  let some (eid, rs) := s.res | return
  let r ← getRes eid rs
  modSub cid uid fun s => { s with queueFlag := s.queueFlag ||| 1 }
  let mvals ← orderedList (sortKV r.model) false
  let vals : List Val := match s.typ with
    | .model => mvals.map (·.2)
    | .collection => r.coll
    | _ => []
  if s.typ != .model && s.typ != .collection then
    modSub cid uid fun s => { s with err := some "system.internalError" }
    return
  for v in vals do
    match v with
    | .ref rid =>
      match ← addReference cid uid rid with
      | .ok _ => pure ()
      | .error e =>
        let s ← getSub cid uid
        for (_, child, _) in (← orderedRefs s) do connUnsubscribe cid child false false 1 true
        modSub cid uid fun s => { s with refs := [], err := some e }
        doneLoading cid uid
        return
    | _ => pure ()
  modSub cid uid fun s => { s with model := r.model, coll := r.coll, version := r.version }

/-- `SetVersion`; `none` = ok. -/
def setVersion (cid : Nat) (proto : String) : M (Option String) := do
  if proto == "" then return none
  let parts := proto.splitOn "."
  if parts.length != 3 then return some "system.invalidParams"
  let mut v := 0
  for p in parts do
    match p.toInt? with
    | some n => if n ≥ 1000 then return some "system.invalidParams" else v := v * 1000 + n
    | none => return some "system.invalidParams"
  if v < 1000000 || v ≥ 2000000 then return some "system.unsupportedProtocol"
  modConn cid fun c => { c with protocol := v.toNat }
  return none

/-- `handleResourceResult`. -/
def handleResourceResult (cid req : Nat) (rid : String) : M Unit := do
  match ← connSubscribe cid rid true none with
  | .error e => replyErr cid req e
  | .ok uid => loadAccess cid uid (.canGet (.resource req)) none

/-- `handleCallAuthResponse`. -/
def handleCallAuthResponse (cid req : Nat) (a : CallAns) : M Unit := do
  let c ← getConn cid
  match a with
  | .err e => replyErr cid req e
  | .result p =>
    if c.protocol < vCallRes then sendFrame cid s!"res {req} ok raw:{p}"
    else sendFrame cid s!"res {req} ok payload=p{p}"
  | .resource rid =>
    if c.protocol < vCallRes then sendFrame cid s!"res {req} ok rid={rid} R\{}"
    else handleResourceResult cid req rid

/-- `GetHTTPSubscription`: subscribe, then a separate access request flagged isHttp. -/
def startHttpGet (cid h : Nat) (rid : String) : M Unit := do
  match ← connSubscribe cid rid true none with
  | .error e => httpRespondErr cid h e
  | .ok uid =>
    let c ← getConn cid
    let s ← getSub cid uid
    sendRequest s.name s!"access.{s.name}" (reqPayloadH cid c.token s.query "" true)
      (fun eid => .httpAccess eid ⟨cid, uid⟩ h)

/-- `CallHTTPResource`: a subscription object that is not registered, one access request flagged isHttp. -/
def startHttpCall (cid h : Nat) (rid action params : String) : M Unit := do
  let uid ← newSubObj cid rid none
  let c ← getConn cid
  let s ← getSub cid uid
  sendRequest s.name s!"access.{s.name}" (reqPayloadH cid c.token s.query "" true)
    (fun eid => .httpCallAccess eid ⟨cid, uid⟩ h action params)

/-- A mapped method travels as `PUT:<action>`. -/
def mappedAction (action : String) : Bool × String :=
  if action.startsWith "PUT:" then (true, (action.drop 4).toString) else (false, action)

/-- The write callback of `temporaryConn` for a call: meta (access meta merged with the call's),
    error, href, content — in that order of priority. For PUT/DELETE/PATCH mappings
    `system.methodNotFound` becomes `system.methodNotAllowed`. -/
def httpCallAnswer (cid h : Nat) (ams cms : Option Int) (a : CallAns) (mapped : Bool) : M Unit := do
    -- the write callback of temporaryConn: meta (access meta merged with the call's), error,
    -- href, content — in that order of priority
    let ms := match cms with
      | some st => some st
      | none => ams
    let direct := match ms with
      | some st => 300 ≤ st && st < 600
      | none => false
    if direct then
      let st := ms.getD 0
      if st < 400 then
        match a with
        | .resource rid => emit s!"H h{h} status={st} body=- loc={Enc.ridToPath rid "/api/"}"
        | _ => emit s!"H h{h} status={st} body=-"
      else
        let code := match a with
          | .err e => e
          | _ => statusError st
        emit s!"H h{h} status={st} body=err:{code}"
      disposeConn cid
    else
      match a with
      | .err e => httpRespondErr cid h (if mapped && e == "system.methodNotFound" then "system.methodNotAllowed" else e)
      | .resource rid =>
        emit s!"H h{h} status=200 body=- loc={Enc.ridToPath rid "/api/"}"
        disposeConn cid
      | .result p =>
        if p == "null" then emit s!"H h{h} status=204 body=-"
        else emit s!"H h{h} status=200 body={p}"
        disposeConn cid

/-- One queue item of a connection. -/
def runKItem (cid : Nat) (it : KItem) : M Unit := do
  match it with
  | .badFrame => pure ()
  | .frame req method params =>
    match rpcDispatch (toBytes method) with
    | .version =>
      if params == "proto=bad" then replyErr cid req "system.invalidParams"
      else
        let proto := if params.startsWith "proto=" then (params.drop 6).toString else ""
        match ← setVersion cid proto with
        | some e => replyErr cid req e
        | none => sendFrame cid s!"res {req} ok protocol"
    | .invalid => replyErr cid req "system.invalidRequest"
    | .req kind ridB methodB =>
      let rid := ofBytes ridB
      let action := ofBytes methodB
      match kind with
      | .get =>
        match ← connSubscribe cid rid true none with
        | .error e => replyErr cid req e
        | .ok uid => loadAccess cid uid (.canGet (.get req)) none
      | .subscribe =>
        match ← connSubscribe cid rid true none with
        | .error e => replyErr cid req e
        | .ok uid => loadAccess cid uid (.canGet (.subscribe req)) none
      | .unsubscribe =>
        let count : Int := if params.startsWith "count=" then ((params.drop 6).toString.toInt?).getD 1 else 1
        let c ← getConn cid
        let direct ← (do
          if c.disposing then return none
          match sget c.subs rid with
          | none => return none
          | some uid => return some (← getSub cid uid).direct : M (Option Int))
        match unsubVerdict (params == "count=bad") count direct with
        | .invalidParams => replyErr cid req "system.invalidParams"
        | .noSubscription => replyErr cid req "system.noSubscription"
        | .ok =>
          match sget c.subs rid with
          | some uid =>
            connUnsubscribe cid uid true false count true
            sendFrame cid s!"res {req} ok null"
          | none => pure ()
      | .call | .new =>
        let c ← getConn cid
        let uid ← match sget c.subs rid with
          | some uid => pure uid
          | none => newSubObj cid rid none
        let act := if kind == .new then "new" else action
        loadAccess cid uid (.canCall act req (if kind == .new then "new" else "call") params) none
      | .auth =>
        let c ← getConn cid
        let (name, query) := splitRid (expandCid cid rid)
        sendRequest name s!"auth.{name}.{action}" (reqPayload cid c.token query params)
          (fun eid => .call eid (.auth cid req))
  | .loaded uid r err =>
    if err != "" then
      modSub cid uid fun s => { s with err := some err }
      doneLoading cid uid
    else
      let s ← getSub cid uid
      let some (eid, rs) := r | return
      if s.state == .disposed then
        cacheEnqueue eid (.unsubscribe rs ⟨cid, uid⟩)
        return
      let rr ← getRes eid rs
      setSub cid { s with res := some (eid, rs), typ := rr.state, state := .loaded }
      setResource cid uid
      let s ← getSub cid uid
      if s.err.isSome then
        doneLoading cid uid
        return
      setSub cid { s with rcbs := [] }
      for id in s.rcbs do collectRefs cid uid id
  | .event uid ev =>
    if ev.name == "reaccess" then
      reaccess cid uid none
    else
      let s ← getSub cid uid
      if s.res.isNone then return
      if s.queueFlag != 0 then setSub cid { s with eventQueue := s.eventQueue ++ [ev] }
      else processEvent cid uid ev
  | .reaccess uid t => reaccess cid uid t
  | .accessAnswer uid a =>
    let s ← getSub cid uid
    if s.state == .disposed then return
    setSub cid { s with flags := s.flags &&& 2, accessCbs := [],
                        access := verdictStep s.access (.answer a) }
    for k in s.accessCbs do runACont cid uid k a
  | .callAnswer k a =>
    match k with
    | .auth _ req => handleCallAuthResponse cid req a
    | .call _ req kind =>
      if kind == "new" then
        match a with
        | .err e => replyErr cid req e
        | .result _ => replyErr cid req "system.internalError"
        | .resource rid => handleResourceResult cid req rid
      else handleCallAuthResponse cid req a
    | .httpCall _ h ams cms => httpCallAnswer cid h ams cms a false
    | .httpMapped _ h ams cms => httpCallAnswer cid h ams cms a true
    | .access _ => pure ()
  | .tokenEvent token tid =>
    let c ← getConn cid
    setConn { c with tid := tid, token := token, hasToken := true }
    if c.hasToken then
      for (_, uid) in (← orderedList (sortKV c.subs) false) do reaccess cid uid none
  | .httpGet h rid => startHttpGet cid h rid
  | .httpAuth h next =>
    -- temporaryConn with Config.HeaderAuth: the auth request comes first
    let c ← getConn cid
    sendRequest "hauth.svc" "auth.hauth.svc.login" (reqPayloadH cid c.token "" "" true)
      (fun eid => .httpAuth eid cid h next)
  | .httpAuthAnswer h a ms next =>
    let direct := match ms with
      | some st => 300 ≤ st && st < 600
      | none => false
    if direct then
      -- a direct status of the auth answer ends the request: nothing else is asked
      let st := ms.getD 0
      if st < 400 then
        match a with
        | .resource rid => emit s!"H h{h} status={st} body=- loc={Enc.ridToPath rid "/api/"}"
        | _ => emit s!"H h{h} status={st} body=-"
      else
        let code := match a with
          | .err e => e
          | _ => statusError st
        emit s!"H h{h} status={st} body=err:{code}"
      disposeConn cid
    else
      -- the auth result and error are otherwise ignored
      match next with
      | .get rid => startHttpGet cid h rid
      | .call rid action params => startHttpCall cid h rid action params
  | .httpAccess h uid a ms =>
    let direct := match ms with
      | some st => 300 ≤ st && st < 600
      | none => false
    if direct then
      let st := ms.getD 0
      if st < 400 then emit s!"H h{h} status={st} body=-"
      else
        let code := match a.err with
          | some e => e
          | none => statusError st
        emit s!"H h{h} status={st} body=err:{code}"
      disposeConn cid
    else
      match a.canGet with
      | some e => httpRespondErr cid h e
      | none => onReady cid uid (.httpGet h uid ms)
  | .httpCall h rid action params => startHttpCall cid h rid action params
  | .httpCallAccess h uid action params a ms =>
    let direct := match ms with
      | some st => 300 ≤ st && st < 600
      | none => false
    if direct then
      let st := ms.getD 0
      if st < 400 then emit s!"H h{h} status={st} body=-"
      else
        let code := match a.err with
          | some e => e
          | none => statusError st
        emit s!"H h{h} status={st} body=err:{code}"
      disposeConn cid
    else
      let (mapped, act) := mappedAction action
      match a.canCallE act with
      | some e => httpRespondErr cid h e
      | none =>
        let c ← getConn cid
        let s ← getSub cid uid
        sendRequest s.name s!"call.{s.name}.{act}" (reqPayloadH cid c.token s.query params true)
          (fun eid => .call eid (if mapped then .httpMapped cid h ms none else .httpCall cid h ms none))
  | .tokenReset tids subject =>
    let c ← getConn cid
    if !resetAddresses c.tid tids then return
    registerReq subject (reqPayload cid c.token "" "") .tokenAuth
  | .dispose => disposeConn cid

end Resgate.Gw
