/-
The small-step model of the gateway (cache actors + connection actors), types.

Closures of the Go code are data here (defunctionalised): every function value that the code puts
into a queue, a callback list or a pending request is one constructor.  Objects that closures keep
referring to after they have been removed from their maps (disposed subscriptions, unregistered
resource subscriptions, evicted cache entries) live in tables indexed by a unique id.
-/

namespace Resgate.Gw

/-- A RES value as the gateway classifies it (`codec.Value`). -/
inductive Val where
  | prim (n : Int) | ref (rid : String) | soft (rid : String) | data (n : Int)
  deriving DecidableEq, Repr, Inhabited

/-- `Value.Equal`. -/
def Val.equal : Val → Val → Bool
  | .prim a, .prim b => a == b
  | .data a, .data b => a == b
  | .ref a, .ref b => a == b
  | .soft a, .soft b => a == b
  | _, _ => false

inductive RState | subscribed | error | requested | collection | model
  deriving DecidableEq, Repr, Inhabited

def RState.toNat : RState → Nat
  | .subscribed => 0 | .error => 1 | .requested => 2 | .collection => 3 | .model => 4

/-- Reference to a `Subscription` object of a connection. -/
structure SubRef where
  cid : Nat
  uid : Nat
  deriving DecidableEq, Repr, Inhabited

/-- Content of a get / query response after decoding. -/
inductive Content where
  | model (kvs : List (String × Val))
  | coll (vs : List Val)
  deriving Repr, Inhabited

/-- A decoded answer of a get request (`codec.DecodeGetResponse` + transport errors). -/
inductive GetAns where
  | ok (c : Content) (query : String)
  | err (code : String)
  deriving Repr, Inhabited

/-- A decoded event payload. `bad` = undecodable or not a proper value (discarded). -/
inductive EvData where
  | change (kvs : List (String × Option Val))       -- none = delete action
  | add (idx : Int) (v : Val)
  | remove (idx : Int)
  | other (raw : String)                            -- custom / delete / reaccess: payload verbatim
  | bad
  deriving Repr, Inhabited

/-- An event as handed to subscribers (`rescache.ResourceEvent`). -/
structure REv where
  name : String
  data : EvData
  raw : String := ""            -- payload text for verbatim forwarding (remove / custom)
  version : Nat := 0
  update : Bool := false
  changed : List (String × Option Val) := []
  oldVals : List (String × Val) := []
  idx : Int := 0
  value : Option Val := none
  deriving Repr, Inhabited

structure Access where
  err : Option String      -- error code
  get : Bool
  call : String
  deriving Repr, Inhabited

/-- Answer of a query request on a query-event subject. -/
inductive QAns where
  | events (evs : List (String × EvData × String))
  | full (c : Content)
  | err (code : String)
  deriving Repr, Inhabited

/-- Answer of a call / auth request. -/
inductive CallAns where
  | result (payload : String)
  | resource (rid : String)
  | err (code : String)
  deriving Repr, Inhabited

/-- What to do when an access / call / auth answer comes back (`sendRequest` callbacks). -/
inductive ReqK where
  | access (sub : SubRef)                                 -- wsConn.Access → loadAccess continuation
  | call (cid : Nat) (req : Nat) (kind : String)          -- kind: call | new
  | auth (cid : Nat) (req : Nat)
  | httpCall (cid : Nat) (h : Nat) (accessStatus callStatus : Option Int)   -- CallHTTPResource
  | httpMapped (cid : Nat) (h : Nat) (accessStatus callStatus : Option Int) -- the same for a mapped PUT/DELETE/PATCH
  deriving Repr, Inhabited

/-- What an HTTP request goes on to do once header authentication has answered. -/
inductive HttpNext where
  | get (rid : String)
  | call (rid action params : String)
  deriving Repr, Inhabited

/-- Items of a cache entry's queue (`EventSubscription.queue`). -/
inductive CItem where
  | addSubscriber (sub : SubRef) (query : String) (throttle : Option Nat)
  | getResponse (rs : Nat) (ans : GetAns)
  | event (ev : String) (data : EvData) (raw : String)
  | queryEvent (subject : String)
  | unsubscribe (rs : Nat) (sub : SubRef)
  | accessDone (sub : SubRef) (a : Access) (throttle : Option Nat)
  | httpAccessDone (sub : SubRef) (h : Nat) (a : Access) (mstatus : Option Int)
  | httpCallAccessDone (sub : SubRef) (h : Nat) (action params : String) (a : Access) (mstatus : Option Int)
  | httpAuthDone (cid : Nat) (h : Nat) (a : CallAns) (mstatus : Option Int) (next : HttpNext)
  | callDone (k : ReqK) (a : CallAns)
  | resetResource (throttle : Option Nat)
  | resetAccess (throttle : Option Nat)
  | resetResponse (rs : Nat) (ans : GetAns)
  deriving Repr, Inhabited

inductive LItem where
  | queryAnswer (rs : Nat) (ans : QAns)
  | noop
  deriving Repr, Inhabited

/-- `rescache.ResourceSubscription`. -/
structure Res where
  query : String
  state : RState := .subscribed
  subs : List SubRef := []
  resetting : Bool := false
  links : List String := []
  version : Nat := 0
  model : List (String × Val) := []
  coll : List Val := []
  err : String := ""
  deriving Repr, Inhabited

/-- `rescache.EventSubscription`. Items carry the global enqueue stamp. -/
structure Entry where
  name : String
  count : Int := 1
  mqSub : Bool := false
  queue : List (Nat × CItem) := []
  locks : Option (Nat × List (Nat × LItem)) := none    -- (remaining capacity, arrived unlock items)
  base : Option Nat := none
  queries : List (String × Nat) := []
  links : List (String × Nat) := []
  ress : List (Nat × Res) := []
  evictPending : Bool := false
  deriving Repr, Inhabited

/-! ### connection side -/

inductive SState | disposed | loading | loaded | ready | toSend | sent | deleted
  deriving DecidableEq, Repr, Inhabited

def SState.toNat : SState → Nat
  | .disposed => 0 | .loading => 1 | .loaded => 2 | .ready => 3 | .toSend => 4 | .sent => 5 | .deleted => 6

/-- What a read request does once access is known (`CanGet` continuations). -/
inductive GetK where
  | get (req : Nat) | subscribe (req : Nat) | resource (req : Nat)
  deriving Repr, Inhabited

/-- Access callbacks (`accessCallbacks`). -/
inductive ACont where
  | canGet (k : GetK)
  | canCall (action : String) (req : Nat) (kind : String) (params : String)
  | reaccess
  deriving Repr, Inhabited

/-- Ready callbacks (`OnReady` closures). -/
inductive RCont where
  | get (req : Nat) (sub : Nat)
  | subscribe (req : Nat) (sub : Nat)
  | resource (req : Nat) (sub : Nat)
  | addEvent (parent : Nat) (idx : Int) (v : Val) (child : Nat)
  | changeEvent (parent : Nat) (counter : Nat) (subs : List Nat) (changed : List (String × Option Val))
  | httpGet (h : Nat) (sub : Nat) (mstatus : Option Int)
  deriving Repr, Inhabited

structure Rcb where
  refMap : List String
  loading : Int
  cb : RCont
  deriving Repr, Inhabited

structure Sub where
  uid : Nat
  rid : String
  name : String
  query : String
  state : SState := .loading
  rcbs : List Nat := []
  res : Option (Nat × Nat) := none          -- (entry id, resource id)
  typ : RState := .subscribed
  model : List (String × Val) := []
  coll : List Val := []
  version : Nat := 0
  refs : List (String × Nat × Nat) := []    -- child rid, child uid, count
  err : Option String := none
  queueFlag : Nat := 1
  eventQueue : List REv := []
  access : Option Access := none
  accessCbs : List ACont := []
  flags : Nat := 0
  throttle : Option Nat := none
  direct : Int := 0
  indirect : Int := 0
  indirectsent : Int := 0
  deriving Repr, Inhabited

/-- Items of a connection's queue. -/
inductive KItem where
  | frame (id : Nat) (method : String) (params : String)
  | badFrame
  | loaded (uid : Nat) (r : Option (Nat × Nat)) (err : String)
  | event (uid : Nat) (ev : REv)
  | reaccess (uid : Nat) (throttle : Option Nat)
  | accessAnswer (uid : Nat) (a : Access)
  | callAnswer (k : ReqK) (a : CallAns)
  | tokenEvent (token : String) (tid : String)
  | httpGet (h : Nat) (rid : String)
  | httpAccess (h : Nat) (uid : Nat) (a : Access) (mstatus : Option Int)
  | httpCall (h : Nat) (rid action params : String)
  | httpAuth (h : Nat) (next : HttpNext)
  | httpAuthAnswer (h : Nat) (a : CallAns) (mstatus : Option Int) (next : HttpNext)
  | httpCallAccess (h : Nat) (uid : Nat) (action params : String) (a : Access) (mstatus : Option Int)
  | tokenReset (tids : List String) (subject : String)
  | dispose
  deriving Repr, Inhabited

structure Conn where
  cid : Nat
  token : String := "null"      -- JSON text; "null" with hasToken=false is Go's nil
  hasToken : Bool := false
  tid : String := ""
  protocol : Nat := 1001001
  disposing : Bool := false
  queue : List (Nat × KItem) := []
  subs : List (String × Nat) := []
  objs : List (Nat × Sub) := []
  rcbs : List (Nat × Rcb) := []
  counters : List (Nat × Int) := []
  deriving Repr, Inhabited

structure ThrottleS where
  limit : Int
  running : Int := 0
  queue : List Nat := []             -- waiting job ids (see `Job`)
  deriving Repr, Inhabited

/-- Deferred jobs of throttles (`t.Add(func(){…})`). -/
inductive Job where
  | sendGet (entry : Nat) (rs : Nat) (query : String) (reset : Bool) (th : Nat)
  | sendAccess (sub : SubRef) (th : Nat)
  deriving Repr, Inhabited

/-- Outstanding request at the messaging boundary. -/
inductive MqK where
  | get (entry : Nat) (rs : Nat) (reset : Bool) (th : Option Nat)
  | access (entry : Nat) (sub : SubRef) (th : Option Nat)
  | httpAccess (entry : Nat) (sub : SubRef) (h : Nat)
  | httpCallAccess (entry : Nat) (sub : SubRef) (h : Nat) (action params : String)
  | httpAuth (entry : Nat) (cid : Nat) (h : Nat) (next : HttpNext)
  | call (entry : Nat) (k : ReqK)
  | query (entry : Nat) (rs : Nat)
  | tokenAuth
  deriving Repr, Inhabited

structure MqReq where
  subject : String
  payload : String
  k : MqK
  deriving Repr, Inhabited

structure Gw where
  entries : List (Nat × Entry) := []          -- all EventSubscription objects ever created
  index : List (String × Nat) := []           -- Cache.eventSubs
  conns : List Conn := []
  live : List Nat := []                       -- Service.conns / Cache.conns
  throttles : List (Nat × ThrottleS) := []
  jobs : List (Nat × Job) := []
  reqs : List MqReq := []
  stamp : Nat := 0
  nextId : Nat := 0
  refThrottle : Int := 0
  resetThrottle : Int := 0
  ord : Nat := 0                              -- iteration order parameter for map ranges
  ordCtr : Nat := 0                           -- number of randomised map ranges so far (ord ≥ 6)
  sched : Nat := 0                            -- scheduler policy: 0 oldest head first, 1 newest head first, ≥ 2 pseudo-random
  schedCtr : Nat := 0                         -- number of scheduling decisions so far
  flat : Bool := false                        -- apiEncoding jsonflat
  hauth : Bool := false                       -- Config.HeaderAuth set (hauth.svc.login)
  out : Array String := #[]
  panic : Option String := none
  deriving Inhabited

end Resgate.Gw
