import Resgate.Gw.Base

/-
Primitives shared by the cache and connection actors: mailboxes, the messaging boundary,
throttles, use counts.
-/

namespace Resgate.Gw

/-- `wsConn.Enqueue`: refused once the connection is disposing. -/
def connEnqueue (cid : Nat) (it : KItem) : M Bool := do
  let c ← getConn cid
  if c.disposing then return false
  let st ← nextStamp
  setConn { c with queue := c.queue ++ [(st, it)] }
  return true

/-- `EventSubscription.Enqueue`. -/
def cacheEnqueue (eid : Nat) (it : CItem) : M Unit := do
  let st ← nextStamp
  modEntry eid fun e => e.push st it

/-- `EventSubscription.enqueueUnlock`. -/
def cacheEnqueueUnlock (eid : Nat) (it : LItem) : M Unit := do
  let st ← nextStamp
  modEntry eid fun e => e.pushUnlock st it

/-- `EventSubscription.removeCount` (+ gauge, not modelled). -/
def removeCount (eid : Nat) (n : Int) : M Unit := do
  let e ← getEntry eid
  let (cnt, pend, pnc) := removeCountPure e.count n e.evictPending
  if pnc then doPanic "timerqueue: Value already in queue"
  setEntry eid { e with count := cnt, evictPending := pend }

/-- `Cache.getSubscription`; `none` = the subscribe at the messaging system failed
    (subject too long), after the count has been given back. -/
def getSubscription (name : String) (subscribe : Bool) : M (Option Nat) := do
  let g ← get
  let eid ← match sget g.index name with
    | some eid => do
      -- addCount
      let e ← getEntry eid
      let (cnt, pend) := addCountPure e.count e.evictPending
      setEntry eid { e with count := cnt, evictPending := pend }
      pure eid
    | none => do
      let eid ← fresh
      modify fun g => { g with entries := g.entries ++ [(eid, { name := name })],
                               index := g.index ++ [(name, eid)] }
      pure eid
  let e ← getEntry eid
  if subscribe && !e.mqSub then
    if ("event." ++ name).utf8ByteSize > 4094 then
      removeCount eid 1
      return none
    emit s!"S event.{name}"
    setEntry eid { e with mqSub := true }
  return some eid

def registerReq (subject payload : String) (k : MqK) : M Unit := do
  emit s!"Q {subject} {payload}"
  modify fun g => { g with reqs := g.reqs ++ [{ subject, payload, k }] }

def getThrottle (id : Nat) : M ThrottleS := return tget (← get).throttles id
def setThrottle (id : Nat) (t : ThrottleS) : M Unit :=
  modify fun g => { g with throttles := tset g.throttles id t }

def newThrottle (limit : Int) : M Nat := do
  let id ← fresh
  setThrottle id { limit := limit }
  return id

def getPayload (query : String) : String := if query == "" then "{}" else s!"query={query}"

def reqPayloadH (cid : Nat) (token : String) (query : String) (params : String) (isHttp : Bool) : String :=
  let parts := [s!"cid={cname cid}"] ++ (if isHttp then ["isHttp=true"] else []) ++
    (if params == "" then [] else [s!"params={params}"]) ++
    (if query == "" then [] else [s!"query={query}"]) ++ [s!"token={token}"]
  ",".intercalate parts

def reqPayload (cid : Nat) (token : String) (query : String) (params : String) : String :=
  let parts := [s!"cid={cname cid}"] ++ (if params == "" then [] else [s!"params={params}"]) ++
    (if query == "" then [] else [s!"query={query}"]) ++ [s!"token={token}"]
  ",".intercalate parts

/-- `Cache.sendRequest`: take a use of the entry, then hand the request to the messaging system.
    A subject the adapter refuses is answered with `system.subjectTooLong` at once. -/
def sendRequest (rname subject payload : String) (mk : Nat → MqK) : M Unit := do
  let some eid ← getSubscription rname false | return ()
  registerReq subject payload (mk eid)

/-- Run a throttle job (the closure handed to `t.Add`). -/
def runJob (job : Job) : M Unit := do
  match job with
  | .sendGet eid rs query reset th =>
    let e ← getEntry eid
    registerReq s!"get.{e.name}" (getPayload query) (.get eid rs reset (some th))
  | .sendAccess sub th =>
    let c ← getConn sub.cid
    let s ← getSub sub.cid sub.uid
    sendRequest s.name s!"access.{s.name}" (reqPayload sub.cid c.token s.query "")
      (fun eid => .access eid sub (some th))

/-- `Throttle.Add`. -/
def throttleAdd (th : Nat) (job : Job) : M Unit := do
  let t ← getThrottle th
  if t.full then
    let jid ← fresh
    modify fun g => { g with jobs := g.jobs ++ [(jid, job)] }
    setThrottle th (t.enqueue jid)
  else
    setThrottle th t.start
    runJob job

/-- `Throttle.Done`. -/
def throttleDone (th : Option Nat) : M Unit := do
  let some th := th | return ()
  let t ← getThrottle th
  match t.done with
  | none => doPanic "throttle: negative running counter"
  | some (t', none) => setThrottle th t'
  | some (t', some jid) =>
    setThrottle th t'
    let job := tget (← get).jobs jid
    runJob job

end Resgate.Gw
