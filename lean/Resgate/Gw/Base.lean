import Resgate.Gw.Types
import Resgate.Gw.QIdx
import Resgate.Gw.Pure
import Resgate.Model.Rid
import Resgate.Model.Pattern
import Resgate.Model.Diff

/-
State monad, table helpers and printing for the gateway model.
-/

namespace Resgate.Gw

abbrev M := StateM Gw

def emit (s : String) : M Unit := modify fun g => { g with out := g.out.push s }

def fresh : M Nat := do
  let g ← get
  set { g with nextId := g.nextId + 1 }
  return g.nextId

def nextStamp : M Nat := do
  let g ← get
  set { g with stamp := g.stamp + 1 }
  return g.stamp

def doPanic (msg : String) : M Unit := modify fun g => { g with panic := some msg }

/-! ### association-list tables -/

def tget {β} [Inhabited β] (t : List (Nat × β)) (k : Nat) : β := (t.lookup k).getD default
def tset {β} (t : List (Nat × β)) (k : Nat) (v : β) : List (Nat × β) :=
  if t.any (·.1 == k) then t.map (fun p => if p.1 == k then (k, v) else p) else t ++ [(k, v)]

abbrev sget {β} (t : List (String × β)) (k : String) : Option β := qget t k
abbrev sset {β} (t : List (String × β)) (k : String) (v : β) : List (String × β) := qset t k v
abbrev sdel {β} (t : List (String × β)) (k : String) : List (String × β) := qdel t k

/-- The alias index of an entry and its write-back. -/
def Entry.idx (e : Entry) : QIdx := { base := e.base, queries := e.queries, links := e.links }
def Entry.withIdx (e : Entry) (x : QIdx) : Entry := { e with base := x.base, queries := x.queries, links := x.links }

def getEntry (id : Nat) : M Entry := return tget (← get).entries id
def setEntry (id : Nat) (e : Entry) : M Unit := modify fun g => { g with entries := tset g.entries id e }
def modEntry (id : Nat) (f : Entry → Entry) : M Unit := do setEntry id (f (← getEntry id))

def getRes (eid rid : Nat) : M Res := return tget (← getEntry eid).ress rid
def setRes (eid rid : Nat) (r : Res) : M Unit := modEntry eid fun e => { e with ress := tset e.ress rid r }
def modRes (eid rid : Nat) (f : Res → Res) : M Unit := do setRes eid rid (f (← getRes eid rid))

def getConn (cid : Nat) : M Conn := return ((← get).conns.find? (·.cid == cid)).getD default
def setConn (c : Conn) : M Unit :=
  modify fun g => { g with conns := g.conns.map fun d => if d.cid == c.cid then c else d }
def modConn (cid : Nat) (f : Conn → Conn) : M Unit := do setConn (f (← getConn cid))

def getSub (cid uid : Nat) : M Sub := return tget (← getConn cid).objs uid
def setSub (cid : Nat) (s : Sub) : M Unit := modConn cid fun c => { c with objs := tset c.objs s.uid s }
def modSub (cid uid : Nat) (f : Sub → Sub) : M Unit := do setSub cid (f (← getSub cid uid))

/-! ### strings -/

def toBytes (s : String) : Bytes := s.toUTF8.toList.map UInt8.toNat
def ofBytes (b : Bytes) : String :=
  String.fromUTF8! (ByteArray.mk (b.map (fun n => UInt8.ofNat n)).toArray)

def cname (cid : Nat) : String := s!"c{cid}"

/-- `ExpandCID`: the model's connection ids are `c<n>`. -/
def expandCid (cid : Nat) (rid : String) : String := rid.replace "{cid}" (cname cid)

def splitRid (rid : String) : String × String :=
  match rid.splitOn "?" with
  | [] => (rid, "")
  | [n] => (n, "")
  | n :: rest => (n, "?".intercalate rest)

def sortStrs (l : List String) : List String := (l.toArray.qsort (· < ·)).toList

def sortKV {β} (l : List (String × β)) : List (String × β) := (l.toArray.qsort (fun a b => a.1 < b.1)).toList

/-! ### rendering (must agree with `gw_abs.go`) -/

def Val.show (legacy : Bool) : Val → String
  | .prim n => s!"p{n}"
  | .ref r => s!"r:{r}"
  | .soft r => if legacy then s!"str:{r}" else s!"s:{r}"
  | .data n => if legacy then "str:[Data]" else s!"d{n}"

def showOptVal (legacy : Bool) : Option Val → String
  | none => "del"
  | some v => v.show legacy

def showModel (legacy : Bool) (m : List (String × Val)) : String :=
  "{" ++ ",".intercalate ((sortKV m).map fun (k, v) => k ++ "=" ++ v.show legacy) ++ "}"

def showChanged (legacy : Bool) (m : List (String × Option Val)) : String :=
  "{" ++ ",".intercalate ((sortKV m).map fun (k, v) => k ++ "=" ++ showOptVal legacy v) ++ "}"

def showColl (legacy : Bool) (c : List Val) : String :=
  "[" ++ ",".intercalate (c.map (Val.show legacy)) ++ "]"

/-- A resource set under construction (`rpc.Resources`). -/
structure RSet where
  models : List (String × List (String × Val)) := []
  colls : List (String × List Val) := []
  errors : List (String × String) := []
  deriving Inhabited

def RSet.show (legacy : Bool) (r : RSet) : String :=
  let secs : List String :=
    (if r.models.isEmpty then [] else
      ["M:" ++ ";".intercalate ((sortKV r.models).map fun (k, m) => k ++ "=" ++ showModel legacy m)]) ++
    (if r.colls.isEmpty then [] else
      ["C:" ++ ";".intercalate ((sortKV r.colls).map fun (k, c) => k ++ "=" ++ showColl legacy c)]) ++
    (if r.errors.isEmpty then [] else
      ["E:" ++ ";".intercalate ((sortKV r.errors).map fun (k, e) => k ++ "=" ++ e)])
  "R{" ++ "|".intercalate secs ++ "}"

def kvGetS {β} (m : List (String × β)) (k : String) : Option β := m.lookup k

end Resgate.Gw
