package main

import (
	"context"
	"encoding/json"
	"fmt"
	"net/http"
	"sync"
	"time"

	"github.com/gorilla/websocket"
	"github.com/posener/wstest"
	"github.com/resgateio/resgate/server"
)

// suiteFrames (C07): hand-written client frames — every one a JSON object with an unsigned integer
// id, in shapes the test client of the repository never produces (extra members such as
// "jsonrpc", member order, whitespace, escapes in the method, ids 0 and 2^53-1, params of every
// JSON kind) — sent over a real WebSocket to the real Service. Each must get exactly one response
// frame carrying its id. None needs a service answer (version, unknown methods, unsubscribe of a
// resource not held), so the outcome depends on the gateway alone.
func suiteFrames(tier string, r *rng) func(emit func(pureCase)) {
	type fr struct {
		id   uint64
		text string
	}
	frames := []fr{
		{1, `{"id":1,"method":"version","params":{"protocol":"1.2.3"}}`},
		{2, `{"jsonrpc":"2.0","id":2,"method":"version"}`},
		{3, `{"method":"version","id":3,"params":null}`},
		{4, ` { "id" : 4 , "method" : "unsubscribe.m.a" } `},
		{5, `{"id":5,"method":"unsubscribe.m.a","meta":{"trace":"x"}}`},
		{6, `{"id":6,"method":"foo","extra":null}`},
		{7, `{"id":7,"method":"version"}`},
		{0, `{"id":0,"method":"version"}`},
		{9007199254740991, `{"id":9007199254740991,"method":"version"}`},
		{10, `{"id":10,"method":"unsubscribe.m.a","params":[1,2]}`},
		{11, `{"id":11,"method":"unsubscribe.m.a","params":"text"}`},
		{12, `{"id":12,"method":"unsubscribe.m.a","params":{"count":1,"other":{"deep":[1,{"a":null}]}}}`},
		{13, `{"params":{},"method":"get.m..a","id":13}`},
		{14, `{"id":14,"method":""}`},
		{15, `{"id":15}`},
		{16, `{"id":16,"method":"version","params":{"protocol":"1.2.3"},"id2":17}`},
		{17, "{\"id\":17,\n\t\"method\":\"version\"}"},
	}
	attempt := func() []pureCase {
		var out []pureCase
		emit := func(pc pureCase) { out = append(out, pc) }
		m := newMockMQ()
		cfg := server.Config{NoHTTP: true}
		cfg.SetDefault()
		serv, err := server.NewService(m, cfg)
		if err != nil {
			emit(pureCase{line: "frames-setup", impl: "newservice-failed", specErr: err.Error(), noModel: true, class: "error"})
			return out
		}
		serv.SetLogger(&memLogger{})
		if err := serv.Start(); err != nil {
			emit(pureCase{line: "frames-setup", impl: "start-failed", specErr: err.Error(), noModel: true, class: "error"})
			return out
		}
		defer serv.Stop(nil)
		d := wstest.NewDialer(serv.GetWSHandlerFunc())
		ctx, cancel := context.WithTimeout(context.Background(), 2*time.Second)
		ws, _, err := d.DialContext(ctx, "ws://example.org/", http.Header{})
		cancel()
		if err != nil {
			emit(pureCase{line: "frames-setup", impl: "dial-failed", specErr: err.Error(), noModel: true, class: "error"})
			return out
		}
		defer ws.Close()
		var mu sync.Mutex
		got := map[uint64]int{}
		other := 0
		go func() {
			for {
				_, b, err := ws.ReadMessage()
				if err != nil {
					return
				}
				var resp struct {
					ID *uint64 `json:"id"`
				}
				mu.Lock()
				if json.Unmarshal(b, &resp) == nil && resp.ID != nil {
					got[*resp.ID]++
				} else {
					other++
				}
				mu.Unlock()
			}
		}()
		for _, f := range frames {
			ws.WriteMessage(websocket.TextMessage, []byte(f.text))
			n := 0
			deadline := time.Now().Add(4 * time.Second)
			for time.Now().Before(deadline) {
				mu.Lock()
				n = got[f.id]
				mu.Unlock()
				if n > 0 {
					break
				}
				time.Sleep(200 * time.Microsecond)
			}
			time.Sleep(2 * time.Millisecond) // a second response would follow at once
			mu.Lock()
			n = got[f.id]
			mu.Unlock()
			pc := pureCase{line: "frame " + hx(f.text), impl: fmt.Sprintf("responses=%d", n), noModel: true, class: fmt.Sprintf("responses=%d", n)}
			if n != 1 {
				pc.specErr = fmt.Sprintf("client frame %s got %d response frames carrying its id %d", f.text, n, f.id)
			}
			emit(pc)
		}
		mu.Lock()
		if other > 0 {
			emit(pureCase{line: "frames-other", impl: fmt.Sprintf("%d", other), noModel: true, class: "other",
				specErr: fmt.Sprintf("%d frames without a usable id were sent to the client although every request carried one", other)})
		}
		mu.Unlock()
		return out
	}
	return func(emit func(pureCase)) {
		cases := attempt()
		failed := false
		for _, c := range cases {
			failed = failed || c.specErr != ""
		}
		if failed {
			// a response that takes longer than the deadline on a starved machine is not a missing
			// response: only what a second, fresh attempt shows again is reported
			second := attempt()
			bad := map[string]bool{}
			for _, c := range second {
				if c.specErr != "" {
					bad[c.line] = true
				}
			}
			for i := range cases {
				if cases[i].specErr != "" && !bad[cases[i].line] {
					cases[i].specErr = ""
					cases[i].impl += " (only in the first of two attempts)"
				}
			}
		}
		for _, c := range cases {
			emit(c)
		}
	}
}
