package main

import (
	"fmt"
	"sort"
	"sync"

	"github.com/resgateio/resgate/server/mq"
)

// mockMQ is a deterministic in-process mq.Client: requests are recorded and answered only when the
// harness says so, events are delivered by calling the subscription callback on the harness
// goroutine. It applies the same subject-length guards as nats/nats.go (inbox length 29).

const maxControlLine = 4096
const inboxLen = 29

type mockReq struct {
	id      int
	subject string
	payload []byte
	cb      mq.Response
	tooLong bool
}

type mockSub struct {
	m  *mockMQ
	ns string
	cb mq.Response
}

func (s *mockSub) Unsubscribe() error {
	s.m.mu.Lock()
	defer s.m.mu.Unlock()
	if s.m.subs[s.ns] == s {
		delete(s.m.subs, s.ns)
	}
	s.m.log = append(s.m.log, mqLog{kind: "unsub", subject: s.ns})
	return nil
}

type mqLog struct {
	kind    string // "req", "sub", "unsub"
	subject string
	payload []byte
	id      int
}

type mockMQ struct {
	allReqs      []mqLog // all requests of the history
	mu           sync.Mutex
	subs         map[string]*mockSub
	reqs         []*mockReq
	log          []mqLog
	nextID       int
	connected    bool
	closedH      func(error)
	closeGate    chan struct{} // non-nil: Close blocks until it is closed
	closeHang    chan struct{} // non-nil: Close closes the connection and then blocks until this is closed
	closeEntered chan struct{}
	dupSub       string
}

func newMockMQ() *mockMQ { return &mockMQ{subs: map[string]*mockSub{}} }

func (m *mockMQ) Connect() error {
	m.mu.Lock()
	defer m.mu.Unlock()
	m.connected = true
	return nil
}
func (m *mockMQ) IsClosed() bool {
	m.mu.Lock()
	defer m.mu.Unlock()
	return !m.connected
}
func (m *mockMQ) Close() {
	m.mu.Lock()
	hang := m.closeHang
	if hang != nil {
		m.connected = false
	}
	m.mu.Unlock()
	if hang != nil {
		// the connection is closed, but Close does not return (the real client waits for its
		// listener goroutine here): Stop has to bound this with its own timeout
		<-hang
		return
	}
	if g := m.closeGate; g != nil {
		// the harness holds Stop between its two locked sections
		m.closeEntered <- struct{}{}
		<-g
	}
	m.mu.Lock()
	defer m.mu.Unlock()
	m.connected = false
}
func (m *mockMQ) SetClosedHandler(cb func(error)) { m.closedH = cb }

// lose simulates a lost messaging connection the way the NATS client reports it: the client is
// already in its closed state when the closed handler runs.
func (m *mockMQ) lose(err error) {
	m.mu.Lock()
	m.connected = false
	m.mu.Unlock()
	m.closedH(err)
}

func (m *mockMQ) SendRequest(subj string, payload []byte, cb mq.Response) {
	m.mu.Lock()
	defer m.mu.Unlock()
	m.nextID++
	r := &mockReq{id: m.nextID, subject: subj, payload: append([]byte(nil), payload...), cb: cb,
		tooLong: len(subj)+inboxLen > maxControlLine}
	m.reqs = append(m.reqs, r)
	m.log = append(m.log, mqLog{kind: "req", subject: subj, payload: r.payload, id: r.id})
	m.allReqs = append(m.allReqs, mqLog{kind: "req", subject: subj, payload: r.payload, id: r.id})
}

func (m *mockMQ) Subscribe(namespace string, cb mq.Response) (mq.Unsubscriber, error) {
	if len(namespace) > maxControlLine-2 {
		return nil, mq.ErrSubjectTooLong
	}
	m.mu.Lock()
	defer m.mu.Unlock()
	if _, ok := m.subs[namespace]; ok {
		m.dupSub = namespace
	}
	s := &mockSub{m: m, ns: namespace, cb: cb}
	m.subs[namespace] = s
	m.log = append(m.log, mqLog{kind: "sub", subject: namespace})
	return s, nil
}

// drainLog returns and clears the log of mq-boundary effects.
func (m *mockMQ) drainLog() []mqLog {
	m.mu.Lock()
	defer m.mu.Unlock()
	l := m.log
	m.log = nil
	return l
}

// fullLog: every request ever sent (the step log is drained after each stimulus).
func (m *mockMQ) fullLog() []mqLog {
	m.mu.Lock()
	defer m.mu.Unlock()
	return append([]mqLog(nil), m.allReqs...)
}

func (m *mockMQ) logLen() int {
	m.mu.Lock()
	defer m.mu.Unlock()
	return len(m.log)
}

// logHasReq: a request was handed to the messaging system since the log was last drained.
func (m *mockMQ) logHasReq() bool {
	m.mu.Lock()
	defer m.mu.Unlock()
	for _, l := range m.log {
		if l.kind == "req" {
			return true
		}
	}
	return false
}

func (m *mockMQ) lastID() int {
	m.mu.Lock()
	defer m.mu.Unlock()
	return m.nextID
}

// outstanding returns the unanswered requests in emission order.
func (m *mockMQ) outstanding() []*mockReq {
	m.mu.Lock()
	defer m.mu.Unlock()
	return append([]*mockReq(nil), m.reqs...)
}

// take removes and returns the request with the given id.
func (m *mockMQ) take(id int) *mockReq {
	m.mu.Lock()
	defer m.mu.Unlock()
	for i, r := range m.reqs {
		if r.id == id {
			m.reqs = append(m.reqs[:i], m.reqs[i+1:]...)
			return r
		}
	}
	return nil
}

// publish delivers an event to the subscription covering subject (namespace + ".*").
func (m *mockMQ) publish(subject string, payload []byte) bool {
	m.mu.Lock()
	var target *mockSub
	for ns, s := range m.subs {
		if len(subject) > len(ns)+1 && subject[:len(ns)] == ns && subject[len(ns)] == '.' {
			rest := subject[len(ns)+1:]
			dot := false
			for i := 0; i < len(rest); i++ {
				if rest[i] == '.' {
					dot = true
				}
			}
			if !dot {
				target = s
			}
		}
	}
	m.mu.Unlock()
	if target == nil {
		return false
	}
	target.cb(subject, payload, nil)
	return true
}

func (m *mockMQ) subjects() []string {
	m.mu.Lock()
	defer m.mu.Unlock()
	out := make([]string, 0, len(m.subs))
	for ns := range m.subs {
		out = append(out, ns)
	}
	sort.Strings(out)
	return out
}

func (r *mockReq) String() string { return fmt.Sprintf("#%d %s %s", r.id, r.subject, r.payload) }
