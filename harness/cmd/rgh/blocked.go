package main

import (
	"fmt"
	"net/http/httptest"
	"strings"
	"time"

	"github.com/resgateio/resgate/server"
	"github.com/resgateio/resgate/server/reserr"
)

// blockWriter is an HTTP ResponseWriter whose WriteHeader blocks until released: the connection's
// worker is then busy inside the response callback while further answers arrive.
type blockWriter struct {
	*httptest.ResponseRecorder
	gate    chan struct{}
	entered chan struct{}
}

func (b *blockWriter) WriteHeader(code int) {
	select {
	case b.entered <- struct{}{}:
	default:
	}
	<-b.gate
	b.ResponseRecorder.WriteHeader(code)
}

// suiteBlocked: C11 at a moment the quiescent histories never reach — the connection goes away
// while its worker is busy and an answer for it arrives in that window. Whatever the connection
// held must be released: after the eviction flush the cache is empty again.
func suiteBlocked(tier string, r *rng) func(emit func(pureCase)) {
	return func(emit func(pureCase)) {
		for _, first := range []string{"access-denied-then-get", "get-then-access-denied", "access-error-then-get-error"} {
			emit(blockedHTTP(first))
		}
	}
}

func blockedHTTP(order string) pureCase {
	pc := pureCase{line: "blocked-http " + order, noModel: true, class: "http " + order}
	m := newMockMQ()
	cfg := server.Config{NoHTTP: true}
	cfg.SetDefault()
	serv, err := server.NewService(m, cfg)
	if err != nil {
		pc.specErr = err.Error()
		return pc
	}
	serv.SetLogger(&memLogger{})
	if err := serv.Start(); err != nil {
		pc.specErr = err.Error()
		return pc
	}
	defer serv.Stop(nil)
	bw := &blockWriter{ResponseRecorder: httptest.NewRecorder(), gate: make(chan struct{}), entered: make(chan struct{}, 1)}
	req := httptest.NewRequest("GET", "http://example.org/api/m/a", nil)
	done := make(chan struct{})
	go func() { serv.ServeHTTP(bw, req); close(done) }()
	find := func(prefix string) *mockReq {
		deadline := time.Now().Add(2 * time.Second)
		for time.Now().Before(deadline) {
			for _, rq := range m.outstanding() {
				if strings.HasPrefix(rq.subject, prefix) {
					m.take(rq.id)
					return rq
				}
			}
			time.Sleep(50 * time.Microsecond)
		}
		return nil
	}
	acc, get := find("access.m.a"), find("get.m.a")
	if acc == nil || get == nil {
		pc.impl = "no-requests"
		pc.specErr = "the HTTP GET did not produce an access and a get request"
		close(bw.gate)
		return pc
	}
	denied := []byte(errJSON(reserr.CodeAccessDenied))
	model := []byte(`{"result":{"model":{"k":1}}}`)
	waitEntered := func() bool {
		select {
		case <-bw.entered:
			return true
		case <-time.After(2 * time.Second):
			return false
		}
	}
	switch order {
	case "access-denied-then-get":
		acc.cb(acc.subject, denied, nil)
		if !waitEntered() {
			pc.specErr = "response not started after the access answer"
		}
		get.cb(get.subject, model, nil) // arrives while the worker is busy writing the response
	case "get-then-access-denied":
		get.cb(get.subject, model, nil)
		time.Sleep(2 * time.Millisecond)
		acc.cb(acc.subject, denied, nil)
		waitEntered()
	default:
		acc.cb(acc.subject, []byte(errJSON(reserr.CodeInternalError)), nil)
		if !waitEntered() {
			pc.specErr = "response not started after the access answer"
		}
		get.cb(get.subject, []byte(errJSON(reserr.CodeNotFound)), nil)
	}
	time.Sleep(3 * time.Millisecond)
	close(bw.gate)
	select {
	case <-done:
	case <-time.After(3 * time.Second):
		pc.impl = "http-hang"
		pc.specErr = "HTTP request did not complete after the writer was released"
		return pc
	}
	// let the worker drain what was queued behind the response and flush the evictions; the
	// release may take a moment under load, a leak never goes away
	left, stillSub := 0, false
	deadline := time.Now().Add(3 * time.Second)
	for {
		serv.VerifCache().VerifFlushEvictions()
		left, stillSub = 0, false
		for _, e := range serv.VerifCache().VerifSnapshot() {
			if e.Count != 0 || e.MQSub {
				left++
			}
		}
		for _, s := range m.subjects() {
			if s == "event.m.a" {
				stillSub = true
			}
		}
		if (left == 0 && !stillSub) || time.Now().After(deadline) {
			break
		}
		time.Sleep(time.Millisecond)
	}
	pc.impl = fmt.Sprintf("status=%d entries-left=%d event-subscription-left=%v", bw.Code, left, stillSub)
	if left != 0 || stillSub {
		pc.specErr = "after the HTTP request ended, with every service request answered and evictions flushed, the cache still holds what the vanished connection used (" + pc.impl + ")"
	}
	return pc
}
