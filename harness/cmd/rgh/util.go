package main

import (
	"bytes"
	"encoding/hex"
	"encoding/json"
	"fmt"
	"hash/fnv"
	"os"
	"os/exec"
	"strings"
)

// splitmix64 PRNG: every random choice derives from one state.
type rng struct{ s uint64 }

func newRng(seed uint64) *rng { return &rng{s: seed*0x9E3779B97F4A7C15 + 0x1234567} }
func (r *rng) next() uint64 {
	r.s += 0x9E3779B97F4A7C15
	z := r.s
	z = (z ^ (z >> 30)) * 0xBF58476D1CE4E5B9
	z = (z ^ (z >> 27)) * 0x94D049BB133111EB
	return z ^ (z >> 31)
}
func (r *rng) intn(n int) int {
	if n <= 0 {
		return 0
	}
	return int(r.next() % uint64(n))
}
func (r *rng) chance(num, den int) bool { return r.intn(den) < num }

func hx(s string) string {
	if s == "" {
		return "-"
	}
	return hex.EncodeToString([]byte(s))
}

func b2s(b bool) string {
	if b {
		return "1"
	}
	return "0"
}

// A pureCase is one input for a pure-function correspondence: the driver line, the
// implementation's canonical output, an optional spec verdict about the implementation's
// output, and a key used to count distinct non-trivial cases.
type pureCase struct {
	line    string
	impl    string
	specErr string // non-empty: the implementation's output violates the property's spec
	class   string // coarse class for the distribution table
	trivial bool
	jsonOut bool   // the model's output is JSON text: compare as canonical JSON trees
	key     string // key of the spec violation (for known findings)
	noModel bool   // only the spec monitor applies to this case
	prop    string // property the spec violation belongs to (empty: the property whose check runs the suite)
}

type mismatch struct {
	Line  string    `json:"line"`
	Impl  string    `json:"impl"`
	Model string    `json:"model"`
	Prop  string    `json:"property,omitempty"`
	Key   string    `json:"key,omitempty"`
	Trace []stepRec `json:"trace,omitempty"`
}

type suiteResult struct {
	Suite              string         `json:"suite"`
	Evaluations        int            `json:"evaluations"`
	DistinctNontrivial int            `json:"distinct_nontrivial"`
	Exhaustive         bool           `json:"exhaustive"`
	Rule               string         `json:"rule"`
	Distribution       map[string]int `json:"distribution"`
	Samples            []string       `json:"samples"`
	Mismatches         []mismatch     `json:"mismatches"`
	MismatchCount      int            `json:"mismatch_count"`
	SpecViolations     []mismatch     `json:"spec_violations"`
	SpecViolationCount int            `json:"spec_violation_count"`
}

// runAgainstDriver feeds all case lines to the Lean driver (in batches, one driver process per
// batch, input and output through buffers so that no pipe can deadlock) and compares line by line.
func runAgainstDriver(driver string, suite string, rule string, exhaustive bool, gen func(emit func(pureCase))) (*suiteResult, error) {
	res := &suiteResult{Suite: suite, Rule: rule, Exhaustive: exhaustive, Distribution: map[string]int{}}
	seen := map[uint64]struct{}{}
	const batchSize = 200000
	batch := make([]pureCase, 0, batchSize)
	var ferr error
	flush := func() {
		if len(batch) == 0 || ferr != nil {
			batch = batch[:0]
			return
		}
		var in bytes.Buffer
		for _, c := range batch {
			in.WriteString(c.line)
			in.WriteByte('\n')
		}
		cmd := exec.Command(driver)
		cmd.Stdin = &in
		var out bytes.Buffer
		cmd.Stdout = &out
		cmd.Stderr = os.Stderr
		if err := cmd.Run(); err != nil {
			ferr = fmt.Errorf("driver: %v", err)
			return
		}
		lines := strings.Split(strings.TrimRight(out.String(), "\n"), "\n")
		if len(lines) != len(batch) {
			ferr = fmt.Errorf("driver returned %d lines for %d inputs", len(lines), len(batch))
			return
		}
		for i, c := range batch {
			res.Evaluations++
			res.Distribution[c.class]++
			if !c.trivial {
				h := fnv.New64a()
				h.Write([]byte(c.line))
				seen[h.Sum64()] = struct{}{}
			}
			if len(res.Samples) < 6 && !c.trivial && res.Evaluations%97 == 1 {
				res.Samples = append(res.Samples, c.line+" => "+c.impl)
			}
			got := lines[i]
			if c.jsonOut {
				got = canonJSONText(got)
			}
			if got != c.impl && !c.noModel {
				res.MismatchCount++
				if len(res.Mismatches) < 20 {
					res.Mismatches = append(res.Mismatches, mismatch{Line: c.line, Impl: c.impl, Model: got})
				}
			}
			if c.specErr != "" {
				res.SpecViolationCount++
				if len(res.SpecViolations) < 20 {
					res.SpecViolations = append(res.SpecViolations, mismatch{Line: c.line, Impl: c.impl, Model: c.specErr, Key: c.key, Prop: c.prop})
				}
			}
		}
		batch = batch[:0]
	}
	gen(func(c pureCase) {
		batch = append(batch, c)
		if len(batch) >= batchSize {
			flush()
		}
	})
	flush()
	if ferr != nil {
		return nil, ferr
	}
	res.DistinctNontrivial = len(seen)
	if len(res.Samples) == 0 {
		res.Samples = []string{"(no non-trivial sample drawn)"}
	}
	return res, nil
}

func writeJSON(path string, v interface{}) error {
	b, err := json.MarshalIndent(v, "", " ")
	if err != nil {
		return err
	}
	if path == "" || path == "-" {
		_, err = os.Stdout.Write(append(b, '\n'))
		return err
	}
	return os.WriteFile(path, append(b, '\n'), 0o644)
}

// allStrings enumerates every string over alphabet with length <= maxLen.
func allStrings(alphabet []string, maxLen int, f func(string)) {
	var rec func(prefix string, n int)
	rec = func(prefix string, n int) {
		f(prefix)
		if n == 0 {
			return
		}
		for _, a := range alphabet {
			rec(prefix+a, n-1)
		}
	}
	rec("", maxLen)
}

func randString(r *rng, alphabet []string, maxLen int) string {
	n := r.intn(maxLen + 1)
	var sb strings.Builder
	for i := 0; i < n; i++ {
		sb.WriteString(alphabet[r.intn(len(alphabet))])
	}
	return sb.String()
}

// canonJSONText parses JSON text and re-serialises it with sorted keys (or returns it unchanged).
func canonJSONText(s string) string {
	var v interface{}
	d := json.NewDecoder(strings.NewReader(s))
	d.UseNumber()
	if d.Decode(&v) != nil {
		return "unparsable:" + s
	}
	if d.More() {
		return "trailing-garbage:" + s
	}
	b, _ := json.Marshal(v)
	return string(b)
}
