package main

import (
	"context"
	"encoding/json"
	"fmt"
	"net/http"
	"strings"
	"time"

	"github.com/posener/wstest"
	"github.com/resgateio/resgate/server"
	"github.com/resgateio/resgate/server/mq"
	"github.com/resgateio/resgate/server/reserr"
)

// suiteWSAuth: WebSocket upgrades with header authentication configured (Config.WSHeaderAuth). The
// auth request precedes the upgrade; only a meta status within 300..599 refuses it (with that
// status and no further service request), every other answer — result, error, timeout, ignored
// status — lets the upgrade proceed; service headers are merged into the handshake response but
// never replace the protected ones (C17).
func suiteWSAuth(tier string, r *rng) func(emit func(pureCase)) {
	type ans struct {
		name string
		data string // "" = timeout
	}
	answers := []ans{
		{"result", `{"result":null}`}, {"error", errJSON(reserr.CodeAccessDenied)}, {"timeout", ""},
		{"resource", `{"resource":{"rid":"m.a"}}`},
	}
	statuses := []string{"-", "200", "299", "600", "0", "-1", "300", "301", "302", "399", "400", "401", "403", "404", "500", "503", "599"}
	return func(emit func(pureCase)) {
		for _, a := range answers {
			for _, st := range statuses {
				if a.data == "" && st != "-" {
					continue
				}
				m := newMockMQ()
				cfg := server.Config{NoHTTP: true}
				cfg.SetDefault()
				ha := "hauth.svc.wslogin"
				cfg.WSHeaderAuth = &ha
				serv, err := server.NewService(m, cfg)
				if err != nil {
					emit(pureCase{line: "wsauth-setup", impl: "newservice-failed", specErr: err.Error(), noModel: true, class: "error"})
					return
				}
				serv.SetLogger(&memLogger{})
				if err := serv.Start(); err != nil {
					emit(pureCase{line: "wsauth-setup", impl: "start-failed", specErr: err.Error(), noModel: true, class: "error"})
					return
				}
				type dialRes struct {
					ok   bool
					code int
					hdr  http.Header
				}
				resCh := make(chan dialRes, 1)
				go func() {
					d := wstest.NewDialer(serv.GetWSHandlerFunc())
					ctx, cancel := context.WithTimeout(context.Background(), 3*time.Second)
					defer cancel()
					ws, resp, err := d.DialContext(ctx, "ws://example.org/", http.Header{})
					dr := dialRes{ok: err == nil}
					if resp != nil {
						dr.code = resp.StatusCode
						dr.hdr = resp.Header
					}
					if ws != nil {
						ws.Close()
					}
					resCh <- dr
				}()
				// answer the auth request
				nreq, extra := 0, 0
				deadline := time.Now().Add(2 * time.Second)
				answered := false
				var dr dialRes
				got := false
				for time.Now().Before(deadline) && !got {
					for _, rq := range m.outstanding() {
						if strings.HasPrefix(rq.subject, "conn.") {
							continue
						}
						m.take(rq.id)
						nreq++
						if rq.subject != "auth.hauth.svc.wslogin" || answered {
							extra++
							go rq.cb(rq.subject, []byte(errJSON(reserr.CodeNotFound)), nil)
							continue
						}
						answered = true
						if a.data == "" {
							go rq.cb(rq.subject, nil, mq.ErrRequestTimeout)
							continue
						}
						data := a.data
						if st != "-" {
							data = data[:len(data)-1] + fmt.Sprintf(`,"meta":{"status":%s,"header":{"X-Custom":["v"],"sec-websocket-protocol":["evil"],"Set-Cookie":["a=1"]}}}`, st)
						} else {
							data = data[:len(data)-1] + `,"meta":{"header":{"X-Custom":["v"],"sec-websocket-extensions":["evil"]}}}`
						}
						go rq.cb(rq.subject, []byte(data), nil)
					}
					select {
					case dr = <-resCh:
						got = true
					case <-time.After(200 * time.Microsecond):
					}
				}
				if !got {
					select {
					case dr = <-resCh:
					case <-time.After(4 * time.Second):
					}
				}
				impl := "upgrade"
				if !dr.ok {
					impl = fmt.Sprintf("refused %d", dr.code)
				}
				pc := pureCase{line: "wsauth " + st, impl: impl, class: a.name + " " + impl, prop: "C17"}
				// independent statement of the property
				var n int
				direct := false
				if _, e := fmt.Sscanf(st, "%d", &n); e == nil && n >= 300 && n < 600 {
					direct = true
				}
				switch {
				case !answered:
					pc.specErr = "no auth request was made before the upgrade"
				case direct && dr.ok:
					pc.specErr = fmt.Sprintf("auth answer with meta status %s did not refuse the upgrade", st)
				case direct && dr.code != n:
					pc.specErr = fmt.Sprintf("auth answer with meta status %s refused the upgrade with status %d", st, dr.code)
				case !direct && !dr.ok:
					pc.specErr = fmt.Sprintf("upgrade refused (status %d) although the auth answer (%s) carried no direct status (%s)", dr.code, a.name, st)
				case extra > 0:
					pc.specErr = fmt.Sprintf("%d further service request(s) for a connection that sent nothing", extra)
				}
				if pc.specErr == "" && a.data != "" && dr.hdr != nil {
					if v := dr.hdr.Get("X-Custom"); v != "v" && (dr.ok || direct) {
						pc.specErr = fmt.Sprintf("service header X-Custom not merged into the handshake response (got %q)", v)
					}
					for _, k := range []string{"Sec-Websocket-Protocol", "Sec-Websocket-Extensions"} {
						for hk, hv := range dr.hdr {
							if http.CanonicalHeaderKey(hk) == k && strings.Contains(strings.Join(hv, ","), "evil") {
								pc.specErr = "protected handshake header " + k + " taken from the service's meta"
							}
						}
					}
				}
				emit(pc)
				serv.Stop(nil)
			}
		}
		// Origin allow-list together with header authentication: a non-listed origin is refused
		// with 403 before any service request (C17); and a header-auth resource id carrying the
		// {cid} tag is requested under the connecting connection's own id (C10).
		for _, oc := range []struct {
			rid, origin string
			refused     bool
		}{
			{"hauth.svc.wslogin", "http://evil.example", true}, {"hauth.svc.wslogin", "http://a.example.evil", true},
			{"hauth.svc.wslogin", "https://a.example", true}, {"hauth.svc.wslogin", "http://A.example", false},
			{"hauth.svc.wslogin", "-", false}, {"hauth.{cid}.wslogin", "-", false}, {"hauth.{cid}.wslogin", "http://a.example", false},
		} {
			m := newMockMQ()
			cfg := server.Config{NoHTTP: true}
			cfg.SetDefault()
			ha, al := oc.rid, "http://a.example"
			cfg.WSHeaderAuth, cfg.AllowOrigin = &ha, &al
			serv, err := server.NewService(m, cfg)
			if err != nil {
				emit(pureCase{line: "wsauth-setup", impl: "newservice-failed", specErr: err.Error(), noModel: true, class: "error"})
				continue
			}
			serv.SetLogger(&memLogger{})
			if err := serv.Start(); err != nil {
				emit(pureCase{line: "wsauth-setup", impl: "start-failed", specErr: err.Error(), noModel: true, class: "error"})
				continue
			}
			type dialRes struct {
				ok   bool
				code int
			}
			resCh := make(chan dialRes, 1)
			go func() {
				hdr := http.Header{}
				if oc.origin != "-" {
					hdr["Origin"] = []string{oc.origin}
				}
				d := wstest.NewDialer(serv.GetWSHandlerFunc())
				ctx, cancel := context.WithTimeout(context.Background(), 3*time.Second)
				defer cancel()
				ws, resp, err := d.DialContext(ctx, "ws://example.org/", hdr)
				dr := dialRes{ok: err == nil}
				if resp != nil {
					dr.code = resp.StatusCode
				}
				if ws != nil {
					ws.Close()
				}
				resCh <- dr
			}()
			var subjects []string
			cidOK := true
			var dr dialRes
			got := false
			deadline := time.Now().Add(2 * time.Second)
			for time.Now().Before(deadline) && !got {
				for _, rq := range m.outstanding() {
					if strings.HasPrefix(rq.subject, "conn.") {
						continue
					}
					m.take(rq.id)
					subjects = append(subjects, rq.subject)
					var pl struct {
						CID string `json:"cid"`
					}
					json.Unmarshal(rq.payload, &pl)
					if want := "auth." + strings.ReplaceAll(oc.rid[:strings.LastIndexByte(oc.rid, '.')], "{cid}", pl.CID) + ".wslogin"; rq.subject != want || pl.CID == "" {
						cidOK = false
					}
					go rq.cb(rq.subject, []byte(`{"result":null}`), nil)
				}
				select {
				case dr = <-resCh:
					got = true
				case <-time.After(200 * time.Microsecond):
				}
			}
			if !got {
				select {
				case dr = <-resCh:
				case <-time.After(4 * time.Second):
				}
			}
			serv.Stop(nil)
			impl := "upgrade"
			if !dr.ok {
				impl = fmt.Sprintf("refused %d", dr.code)
			}
			pc := pureCase{line: "wsauth-origin " + hx(oc.rid) + " " + hx(oc.origin), impl: fmt.Sprintf("%s requests=%d", impl, len(subjects)), noModel: true, class: "origin " + impl, prop: "C17"}
			switch {
			case oc.refused && (dr.ok || dr.code != http.StatusForbidden):
				pc.specErr = fmt.Sprintf("upgrade from the non-listed origin %q was not refused with 403 (%s)", oc.origin, impl)
			case oc.refused && len(subjects) > 0:
				pc.specErr = fmt.Sprintf("the non-listed origin %q caused service request(s) %v before it was refused", oc.origin, subjects)
			case !oc.refused && !dr.ok:
				pc.specErr = fmt.Sprintf("upgrade from the allowed origin %q refused (%s)", oc.origin, impl)
			case !oc.refused && len(subjects) != 1:
				pc.specErr = fmt.Sprintf("expected exactly one header-auth request, saw %v", subjects)
			}
			emit(pc)
			if !oc.refused && strings.Contains(oc.rid, "{cid}") {
				c10 := pureCase{line: "wsauth-cid " + hx(oc.rid) + " " + hx(oc.origin), impl: strings.Join(subjects, " "), noModel: true, class: "cid", prop: "C10"}
				if !cidOK {
					c10.specErr = fmt.Sprintf("header-auth resource %q was requested on %v: the {cid} tag must be the connecting connection's own id towards the service", oc.rid, subjects)
				}
				emit(c10)
			}
		}
	}
}
