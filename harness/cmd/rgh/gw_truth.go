package main

import (
	"encoding/json"
	"fmt"
	"sort"
	"strings"

	"github.com/resgateio/resgate/server/mq"
	"github.com/resgateio/resgate/server/rescache"
	"github.com/resgateio/resgate/server/reserr"
)

type rsSnap rescache.VerifResSnap

var errSubjectTooLong = mq.ErrSubjectTooLong

// ---------------------------------------------------------------------------------------------
// The simulated service: owns the true state of every resource and answers from it at the
// moment the harness lets it handle a request (so an answer reflects every event published
// before it — the service contract of DESIGN.md section 3/L3).
// ---------------------------------------------------------------------------------------------

type resDef struct {
	name   string // may contain {cid}
	kind   byte   // 'm' model, 'c' collection
	query  bool   // query resource
	getErr string // non-empty: get answers with this error code
	// defQuery: a query resource that also answers a request without query, as this (normalised)
	// query — the resource id without query is then one more alias of it
	defQuery string
}

type universe struct {
	defs []resDef
	norm map[string]string // raw query -> normalised query
	rids []string          // resource ids clients may use (incl. queries, invalid ones)
	init map[string]string // initial content per "name?nq": model "k=v,k=v" / collection "v,v"
}

type truthRes struct {
	def     *resDef
	model   map[string]aval
	coll    []aval
	deleted bool
	seq     int
}

type truth struct {
	u  *universe
	st map[string]*truthRes // key: real name + "?" + normalised query
}

func newTruth(u *universe) *truth { return &truth{u: u, st: map[string]*truthRes{}} }

// defFor finds the definition for a real resource name ({cid} matches one token).
func (t *truth) defFor(name string) *resDef {
	for i := range t.u.defs {
		d := &t.u.defs[i]
		if d.name == name {
			return d
		}
		if strings.Contains(d.name, "{cid}") {
			pre, post, _ := strings.Cut(d.name, "{cid}")
			if strings.HasPrefix(name, pre) && strings.HasSuffix(name, post) && len(name) > len(pre)+len(post) {
				mid := name[len(pre) : len(name)-len(post)]
				if !strings.Contains(mid, ".") {
					return d
				}
			}
		}
	}
	return nil
}

func (t *truth) normQuery(q string) string {
	if n, ok := t.u.norm[q]; ok {
		return n
	}
	return q
}

func parseInit(kind byte, s string) (map[string]aval, []aval) {
	if kind == 'm' {
		m := map[string]aval{}
		if s != "" {
			for _, kv := range strings.Split(s, ",") {
				k, v, _ := strings.Cut(kv, "=")
				m[k] = aval(v)
			}
		}
		return m, nil
	}
	c := []aval{}
	if s != "" {
		for _, v := range strings.Split(s, ",") {
			c = append(c, aval(v))
		}
	}
	return nil, c
}

// get returns the state for (real name, normalised query), creating it from the initial content.
func (t *truth) get(name, nq string) *truthRes {
	key := name + "?" + nq
	if r, ok := t.st[key]; ok {
		return r
	}
	d := t.defFor(name)
	if d == nil {
		return nil
	}
	initKey := d.name
	if nq != "" {
		initKey += "?" + nq
	}
	m, c := parseInit(d.kind, t.u.init[initKey])
	r := &truthRes{def: d, model: m, coll: c}
	t.st[key] = r
	return r
}

func modelJSON(m map[string]aval) string {
	keys := make([]string, 0, len(m))
	for k := range m {
		keys = append(keys, k)
	}
	sort.Strings(keys)
	parts := make([]string, len(keys))
	for i, k := range keys {
		kb, _ := json.Marshal(k) // (%q is Go quoting, not JSON quoting)
		parts[i] = string(kb) + ":" + m[k].json()
	}
	return "{" + strings.Join(parts, ",") + "}"
}

func collJSON(c []aval) string {
	parts := make([]string, len(c))
	for i, v := range c {
		parts[i] = v.json()
	}
	return "[" + strings.Join(parts, ",") + "]"
}

func (r *truthRes) contentJSON() string {
	if r.def.kind == 'm' {
		return `"model":` + modelJSON(r.model)
	}
	return `"collection":` + collJSON(r.coll)
}

func (r *truthRes) contentAbs() string {
	if r.def.kind == 'm' {
		keys := make([]string, 0, len(r.model))
		for k := range r.model {
			keys = append(keys, k)
		}
		sort.Strings(keys)
		parts := make([]string, len(keys))
		for i, k := range keys {
			parts[i] = k + "=" + string(r.model[k])
		}
		return "{" + strings.Join(parts, ",") + "}"
	}
	parts := make([]string, len(r.coll))
	for i, v := range r.coll {
		parts[i] = string(v)
	}
	return "[" + strings.Join(parts, ",") + "]"
}

func errJSON(code string) string {
	return fmt.Sprintf(`{"error":{"code":%q,"message":%q}}`, code, "err "+code)
}

// getResponse computes the answer to a get request now; label describes it for the model.
func (t *truth) getResponse(subject string, payload []byte) (label string, data []byte, err error) {
	name := strings.TrimPrefix(subject, "get.")
	var p struct {
		Query string `json:"query"`
	}
	json.Unmarshal(payload, &p)
	d := t.defFor(name)
	if d == nil {
		return "err:system.notFound", []byte(errJSON(reserr.CodeNotFound)), nil
	}
	if d.getErr != "" {
		return "err:" + d.getErr, []byte(errJSON(d.getErr)), nil
	}
	if d.query && p.Query == "" && d.defQuery != "" {
		p.Query = d.defQuery
	}
	if d.query != (p.Query != "") {
		// plain resource asked with a query or query resource without
		if !d.query {
			// services usually ignore the query for non-query resources: answer without query
			r := t.get(name, "")
			if r.deleted {
				return "err:system.notFound", []byte(errJSON(reserr.CodeNotFound)), nil
			}
			return "ok:" + string(d.kind) + r.contentAbs() + ":q=", []byte(`{"result":{` + r.contentJSON() + `}}`), nil
		}
		return "err:system.notFound", []byte(errJSON(reserr.CodeNotFound)), nil
	}
	nq := t.normQuery(p.Query)
	r := t.get(name, nq)
	if r.deleted {
		return "err:system.notFound", []byte(errJSON(reserr.CodeNotFound)), nil
	}
	q := ""
	if nq != "" {
		q = fmt.Sprintf(`,"query":%q`, nq)
	}
	return "ok:" + string(d.kind) + r.contentAbs() + ":q=" + nq, []byte(`{"result":{` + r.contentJSON() + q + `}}`), nil
}
