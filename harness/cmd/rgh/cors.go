package main

import (
	"context"
	"fmt"
	"net/http"
	"net/http/httptest"
	"sort"
	"strings"
	"time"

	"github.com/posener/wstest"
	"github.com/resgateio/resgate/server"
	"github.com/resgateio/resgate/server/reserr"
)

// suiteCors drives the real Service (HTTP GET / POST / OPTIONS through ServeHTTP, WebSocket
// upgrades) with every kind of Origin header — absent, present but empty, "null", listed in any
// letter case, unlisted — under several allow-lists, and compares the refusal and the CORS headers
// with the model's corsDecision / wsOriginOK. Spec monitor: a refused request causes no service
// request; a non-listed origin is never echoed.
func suiteCors(tier string, r *rng) func(emit func(pureCase)) {
	allows := []string{"*", "http://a.example", "http://a.example;https://b.example:8080", "https://b.example:8080;http://a.example", "HTTPS://B.example:8080",
		"http://B\u00dcCHER.example", "http://\u212a.example;http://a.example"}
	origins := []string{"-", "", "null", "NULL", "http://a.example", "HTTP://A.EXAMPLE", "http://A.example", "https://b.example:8080", "http://evil.example",
		"http://a.example ", " http://a.example", "http://a.example.evil", "*", "http://a.exampl", "http://a.example;https://b.example:8080", "\x00", "http://\xff.example",
		"http://B\u00dcCHER.example", "http://b\u00dccher.EXAMPLE", "http://b\u00fccher.example", "http://k.example", "http://K.example", "http://\u212a.example"}
	return func(emit func(pureCase)) {
		for _, allow := range allows {
			m := newMockMQ()
			cfg := server.Config{NoHTTP: true}
			cfg.SetDefault()
			al := allow
			cfg.AllowOrigin = &al
			serv, err := server.NewService(m, cfg)
			if err != nil {
				emit(pureCase{line: "cors-setup " + hx(allow), impl: "newservice-failed", specErr: err.Error(), noModel: true, class: "error"})
				continue
			}
			serv.SetLogger(&memLogger{})
			if err := serv.Start(); err != nil {
				emit(pureCase{line: "cors-setup " + hx(allow), impl: "start-failed", specErr: err.Error(), noModel: true, class: "error"})
				continue
			}
			// the list as Config.prepare stores it: lower-cased and sorted
			var lowered []string
			for _, a := range strings.Split(allow, ";") {
				lowered = append(lowered, lowerASCII(a))
			}
			sort.Strings(lowered)
			var allowHex []string
			for _, a := range lowered {
				allowHex = append(allowHex, hx(a))
			}
			for _, origin := range origins {
				for _, method := range []string{"GET", "POST", "OPTIONS"} {
					url := "http://example.org/api/m/a"
					if method == "POST" {
						url += "/set"
					}
					req := httptest.NewRequest(method, url, strings.NewReader("{}"))
					if origin != "-" {
						req.Header["Origin"] = []string{origin}
					}
					rec := httptest.NewRecorder()
					done := make(chan struct{})
					go func() { serv.ServeHTTP(rec, req); close(done) }()
					nreq := 0
					deadline := time.Now().Add(3 * time.Second)
				wait:
					for time.Now().Before(deadline) {
						select {
						case <-done:
							break wait
						default:
						}
						for _, rq := range m.outstanding() {
							m.take(rq.id)
							nreq++
							go rq.cb(rq.subject, []byte(errJSON(reserr.CodeAccessDenied)), nil)
						}
						time.Sleep(50 * time.Microsecond)
					}
					<-done
					refused := rec.Code == http.StatusForbidden
					acao := "-"
					if v, ok := rec.Header()["Access-Control-Allow-Origin"]; ok && len(v) > 0 {
						acao = hx(v[0])
					}
					vary := len(rec.Header()["Vary"]) > 0
					// WebSocket upgrade with the same origin
					hdr := http.Header{}
					if origin != "-" {
						hdr["Origin"] = []string{origin}
					}
					d := wstest.NewDialer(serv.GetWSHandlerFunc())
					ctx, cancel := context.WithTimeout(context.Background(), 300*time.Millisecond)
					ws, resp, werr := d.DialContext(ctx, "ws://example.org/", hdr)
					cancel()
					wsOK := werr == nil
					if ws != nil {
						ws.Close()
					}
					_ = resp
					st := "ok"
					if refused {
						st = "refused"
					}
					if method == "OPTIONS" {
						// a pre-flight is answered 200 either way; "refused" = no echo of the origin
						st = "ok"
						if acao != "-" && acao != hx("*") && origin != "-" && acao != hx(origin) {
							st = "refused"
						}
					}
					otok, mode, wsv := hx(origin), "all", b2s(wsOK)
					if origin == "-" {
						otok = "absent"
					}
					if origin != "-" && (strings.TrimSpace(origin) != origin || strings.ContainsAny(origin, "\x00\xff")) {
						// the WebSocket client library trims / rejects such values before they
						// reach the gateway: only the HTTP side is compared
						mode, wsv = "http", "skip"
					}
					pc := pureCase{line: "cors " + mode + " " + otok + " " + strings.Join(allowHex, " "),
						impl: fmt.Sprintf("%s acao=%s vary=%s ws=%s", st, acao, b2s(vary), wsv), class: method + " " + st}
					// independent statement of the property: with an allow-list, a request whose
					// Origin header is present, not "null" and not listed (ignoring ASCII case) is
					// refused; nothing else is
					wantRefused := false
					if allow != "*" && origin != "-" && origin != "null" {
						wantRefused = true
						for _, a := range lowered {
							if lowerASCII(a) == lowerASCII(origin) {
								wantRefused = false
							}
						}
					}
					if method != "OPTIONS" && refused != wantRefused {
						pc.specErr = fmt.Sprintf("Origin %q under allow-list %q: refused=%v, the property says %v (status %d, %d service requests)", origin, allow, refused, wantRefused, rec.Code, nreq)
					}
					if mode == "all" && wsOK == wantRefused {
						pc.specErr = fmt.Sprintf("WebSocket upgrade with Origin %q under allow-list %q: accepted=%v", origin, allow, wsOK)
					}
					if refused && nreq > 0 {
						pc.specErr = fmt.Sprintf("refused request caused %d service request(s)", nreq)
					}
					if method != "OPTIONS" && !refused && nreq == 0 && rec.Code != http.StatusNotFound {
						pc.specErr = fmt.Sprintf("request neither refused nor served (status %d)", rec.Code)
					}
					emit(pc)
				}
			}
			serv.Stop(nil)
		}
	}
}
