// rgh: correspondence harness between the resgate implementation (/repo, -tags verif) and the
// Lean model (driver).  Sub-commands: tables, pure, ...
package main

import (
	"flag"
	"fmt"
	"os"
	"sort"
	"strings"
	"sync"
)

type memLogger struct {
	mu     sync.Mutex
	errors int
	last   string
}

func (l *memLogger) Log(s string) {}
func (l *memLogger) Error(s string) {
	l.mu.Lock()
	l.errors++
	l.last = s
	l.mu.Unlock()
}
func (l *memLogger) Debug(s string) {}
func (l *memLogger) Trace(s string) {}
func (l *memLogger) IsDebug() bool  { return false }
func (l *memLogger) IsTrace() bool  { return false }

func usage() {
	fmt.Fprintln(os.Stderr, "usage: rgh <tables|pure|...> [flags]")
	os.Exit(2)
}

func main() {
	if len(os.Args) < 2 {
		usage()
	}
	cmd := os.Args[1]
	fs := flag.NewFlagSet(cmd, flag.ExitOnError)
	tier := fs.String("tier", "quick", "quick|thorough")
	seed := fs.Uint64("seed", 1, "PRNG seed")
	driver := fs.String("driver", "/verif/lean/.lake/build/bin/driver", "Lean driver binary")
	out := fs.String("out", "-", "output JSON path")
	suite := fs.String("suite", "", "suite name")
	outdir := fs.String("outdir", "", "output directory (tables)")
	replay := fs.String("replay", "", "replay file")
	only := fs.Int("only", -1, "gw: run only the history with this index")
	trace := fs.Bool("trace", false, "gw: print the full trace of the histories run")
	model := fs.Bool("model", true, "gw: compare every history with the Lean model driver")
	snap := fs.Bool("snap", false, "gw: include state snapshots in traces")
	count := fs.Int("count", 0, "gw: number of histories (0 = tier default)")
	fs.Parse(os.Args[2:])
	_ = replay

	switch cmd {
	case "tables":
		if err := writeTables(*outdir); err != nil {
			fmt.Fprintln(os.Stderr, "tables:", err)
			os.Exit(2)
		}
	case "pure":
		r := newRng(*seed)
		lg := &memLogger{}
		suites := map[string]struct {
			gen        func(func(pureCase))
			rule       string
			exhaustive bool
		}{
			"rid":      {suiteRid(*tier, r), "all strings over 11 adversarial symbols up to a length bound + every byte in 4 contexts + random long strings; non-trivial = non-empty input; distinct by input line", false},
			"rpc":      {suiteRpc(*tier, r), "all method strings over 17 symbols (keywords, dots, wildcards, control and non-ASCII bytes) up to a length bound + random; real rpc.HandleRequest with a recording Requester", false},
			"pattern":  {suitePattern(*tier, r), "all patterns over {a,b,.,*,>,?} x all names over {a,b,.} up to a length bound + random long pairs; non-trivial = valid pattern", false},
			"cancall":  {suiteCanCall(*tier, r), "all call lists over {a,b,*,','} up to a length bound x 9 actions + random word lists", false},
			"lcs":      {suiteLCS(*tier, r, lg), "all pairs of value lists over 3 values (4 value kinds) up to a length bound + random pairs up to length 11; derived events applied by the real handleEventAdd/Remove", false},
			"mdiff":    {suiteModelDiff(*tier, r, lg), "all pairs of models over 3-4 keys x 3 values + random; derived change applied by the real handleEventChange", false},
			"change":   {suiteChange(*tier, r, lg), "random models x random change events with delete actions", false},
			"headers":  {suiteHeaders(*tier, r), "case variants of the protected names (all for <= 11 letters, sampled otherwise), token/non-token names, random merges", false},
			"origins":  {suiteOrigins(*tier, r), "all origins over 10 symbols incl. invalid UTF-8 and U+FFFD up to a length bound against exact / prefix / extended entries + random near misses", false},
			"path":     {suitePath(*tier, r), "all paths over 16 symbols (separators, dots, percent escapes of dot/slash/space/CRLF/star, broken escapes, non-ASCII) up to a length bound + random with 3 prefixes and queries; PathToRID and PathToRIDAction", false},
			"encode":   {suiteEncode(*tier, r), "random resource graphs of 1-6 nodes (models, collections, error leaves, every value kind, references to any node incl. self and ancestors, keys needing escaping), both encoders, three apiPath prefixes; real encoders on synthetic Subscription trees; outputs compared as JSON trees", false},
			"status":   {suiteStatus(*tier, r), "every pre-defined error code, 200 random codes, every meta status -5..1005 against the property's fixed table", true},
			"cors":     {suiteCors(*tier, r), "real Service with four allow-lists x 17 Origin headers (absent, empty, null, listed in any case, near misses, unlisted) x GET/POST/OPTIONS through ServeHTTP + WebSocket upgrade; refusal, Access-Control-Allow-Origin, Vary and upgrade verdict compared with the model; a refused request causes no service request", false},
			"blocked":  {suiteBlocked(*tier, r), "HTTP GET whose response writer blocks (connection worker busy inside the response callback) while the other answer for that connection arrives; three answer orders; after completion and eviction flush the cache must be empty", false},
			"httppath": {suiteHTTPPath(*tier, r), "real ServeHTTP with GET/HEAD/POST, PUT and PATCH mapped to call methods, DELETE unmapped and an unknown method on valid and invalid paths (wildcards, empty tokens, escapes decoding to separators, whitespace, control and non-ASCII bytes, trailing slash; exhaustive over a 16-symbol alphabet up to length 3/4 + random): 404/405 without service traffic or the resource id, query and method of the requests sent, compared with the model's httpDispatch; every subject sent must be hygienic", false},
			"frames":   {suiteFrames(*tier, r), "17 hand-written client frames (JSON objects with an unsigned integer id: extra members such as jsonrpc, member order, whitespace, escapes, ids 0 and 2^53-1, params of every JSON kind) over a real WebSocket to the real Service: each gets exactly one response frame carrying its id", false},
			"wsauth":   {suiteWSAuth(*tier, r), "WebSocket upgrades with header authentication (Config.WSHeaderAuth): four kinds of auth answer x 17 meta statuses; a status within 300..599 refuses the upgrade with that status, anything else lets it proceed; service headers merged into the handshake response without replacing Sec-WebSocket-*", false},
			"svc":      {suiteSvc(*tier, r), "all words up to length 3 (thorough: 4) over {start, stop, connection-loss, connect, http}, requests arriving in the middle of Stop (messaging client held in Close), restart after a loaded resource (no service from the previous run's cache) + random longer words on the real Service with idle client sockets; after each stop: sockets closed, stop channel carries the cause, new connections refused, HTTP 503", false},
			"nats":     {suiteNats(*tier, r), "the real nats.Client against an in-harness NATS text-protocol server: 11 scripted reply behaviours x 4 concurrent instances per round (reply, silence, several, late, no responders, pre-response then reply / silence / second pre-response / shortened, reply racing the timeout), an over-long subject, 20 ordered events, server disconnect", false},
			"throttle": {suiteThrottle(*tier, r), "all Add/Done words up to a length bound for limits 1-3 + random longer words; exported rescache.Throttle", false},
		}
		names := strings.Split(*suite, ",")
		if *suite == "" || *suite == "all" {
			names = names[:0]
			for k := range suites {
				names = append(names, k)
			}
			sort.Strings(names)
		}
		var results []*suiteResult
		bad := false
		for _, n := range names {
			s, ok := suites[n]
			if !ok {
				fmt.Fprintln(os.Stderr, "unknown suite", n)
				os.Exit(2)
			}
			res, err := runAgainstDriver(*driver, n, s.rule, s.exhaustive, s.gen)
			if err != nil {
				fmt.Fprintln(os.Stderr, "pure:", n, err)
				os.Exit(2)
			}
			results = append(results, res)
			if res.MismatchCount > 0 || res.SpecViolationCount > 0 {
				bad = true
			}
		}
		if err := writeJSON(*out, results); err != nil {
			fmt.Fprintln(os.Stderr, err)
			os.Exit(2)
		}
		if bad {
			os.Exit(1)
		}
	case "gw-replay":
		hr, err := runReplay(*replay, true)
		if err != nil {
			fmt.Fprintln(os.Stderr, "replay:", err)
			os.Exit(2)
		}
		for _, st := range hr.Steps {
			fmt.Println(st.Stim)
			for _, o := range st.Wire {
				fmt.Println("    wire: " + o)
			}
			for _, o := range st.Obs {
				fmt.Println("    " + o)
			}
			if *snap {
				for _, o := range st.Snap {
					if len(o) > 700 {
						o = o[:700] + "..."
					}
					fmt.Println("      " + o)
				}
			}
		}
		if *model {
			if step, impl, mod, err := compareWithModel(*driver, hr); err == nil && step >= 0 {
				fmt.Printf("MODEL-DISAGREES at step %d (%s)\n  impl : %s\n  model: %s\n", step, hr.Steps[step].Stim, impl, mod)
			} else if err == nil {
				fmt.Println("MODEL-AGREES on every step")
			}
		}
		for _, v := range hr.Viols {
			fmt.Printf("MONITOR %s/%s: %s\n", v.Prop, v.Key, v.What)
		}
		if len(hr.Viols) > 0 {
			os.Exit(1)
		}
	case "gw-script":
		viols, steps, err := runScript(*replay, false)
		for _, st := range steps {
			fmt.Println(st.Stim)
			for _, o := range st.Wire {
				fmt.Println("    wire: " + o)
			}
			for _, o := range st.Obs {
				fmt.Println("    " + o)
			}
			for _, o := range st.Snap {
				if len(o) > 600 {
					o = o[:600] + "..."
				}
				fmt.Println("      " + o)
			}
		}
		if err != nil {
			fmt.Fprintln(os.Stderr, "script:", err)
			os.Exit(2)
		}
		for _, v := range viols {
			fmt.Printf("MONITOR %s/%s: %s\n", v.Prop, v.Key, v.What)
		}
		if len(viols) > 0 {
			os.Exit(1)
		}
	case "gw":
		os.Exit(runGW(*suite, *tier, *seed, *out, *only, *trace, *count, *snap, *driver, *model))
	default:
		usage()
	}
}
