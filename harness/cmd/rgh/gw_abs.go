package main

import (
	"bytes"
	"encoding/json"
	"fmt"
	"sort"
	"strconv"
	"strings"
)

// Abstract values: p<n> primitive number, r:<rid> reference, s:<rid> soft reference,
// d<n> data value {"a":n}, del delete action, str:<s> string (legacy encodings), raw:<json> other.

type aval string

func (v aval) json() string {
	s := string(v)
	switch {
	case strings.HasPrefix(s, "p"):
		return s[1:]
	case strings.HasPrefix(s, "r:"):
		return `{"rid":"` + s[2:] + `"}`
	case strings.HasPrefix(s, "s:"):
		return `{"rid":"` + s[2:] + `","soft":true}`
	case strings.HasPrefix(s, "d"):
		return `{"data":{"a":` + s[1:] + `}}`
	case s == "del":
		return `{"action":"delete"}`
	case strings.HasPrefix(s, "raw:"):
		return s[4:]
	}
	panic("bad aval " + s)
}

func (v aval) isRef() bool  { return strings.HasPrefix(string(v), "r:") }
func (v aval) rid() string  { return string(v)[2:] }
func (v aval) isSoft() bool { return strings.HasPrefix(string(v), "s:") }

// absValue renders a JSON value found in a frame as an abstract value.
func absValue(raw json.RawMessage) string {
	raw = bytes.TrimSpace(raw)
	if len(raw) == 0 {
		return "none"
	}
	switch raw[0] {
	case '{':
		var o map[string]json.RawMessage
		if json.Unmarshal(raw, &o) != nil {
			return "raw:" + string(raw)
		}
		if r, ok := o["rid"]; ok {
			var rid string
			json.Unmarshal(r, &rid)
			if s, ok := o["soft"]; ok && string(s) == "true" && len(o) == 2 {
				return "s:" + rid
			}
			if len(o) == 1 {
				return "r:" + rid
			}
		}
		if a, ok := o["action"]; ok && len(o) == 1 && string(a) == `"delete"` {
			return "del"
		}
		if d, ok := o["data"]; ok && len(o) == 1 {
			var dd map[string]json.RawMessage
			if json.Unmarshal(d, &dd) == nil && len(dd) == 1 {
				if n, ok := dd["a"]; ok {
					return "d" + string(bytes.TrimSpace(n))
				}
			}
		}
		return "raw:" + compactJSON(raw)
	case '"':
		var s string
		json.Unmarshal(raw, &s)
		return "str:" + s
	default:
		if _, err := strconv.ParseFloat(string(raw), 64); err == nil {
			return "p" + string(raw)
		}
		return "raw:" + string(raw)
	}
}

func compactJSON(raw []byte) string {
	var v interface{}
	d := json.NewDecoder(bytes.NewReader(raw))
	d.UseNumber()
	if d.Decode(&v) != nil {
		return string(raw)
	}
	b, _ := json.Marshal(v) // maps are marshalled with sorted keys
	return string(b)
}

type rpcResources struct {
	Models      map[string]map[string]json.RawMessage `json:"models"`
	Collections map[string][]json.RawMessage          `json:"collections"`
	Errors      map[string]struct {
		Code string `json:"code"`
	} `json:"errors"`
}

func absModel(m map[string]json.RawMessage) string {
	keys := make([]string, 0, len(m))
	for k := range m {
		keys = append(keys, k)
	}
	sort.Strings(keys)
	parts := make([]string, len(keys))
	for i, k := range keys {
		parts[i] = k + "=" + absValue(m[k])
	}
	return "{" + strings.Join(parts, ",") + "}"
}

func absColl(c []json.RawMessage) string {
	parts := make([]string, len(c))
	for i, v := range c {
		parts[i] = absValue(v)
	}
	return "[" + strings.Join(parts, ",") + "]"
}

// absResources renders a resource set: R{M:rid=..;rid=..|C:..|E:..}
func absResources(r *rpcResources) string {
	if r == nil {
		return "R{}"
	}
	var secs []string
	if len(r.Models) > 0 {
		keys := make([]string, 0)
		for k := range r.Models {
			keys = append(keys, k)
		}
		sort.Strings(keys)
		ps := make([]string, len(keys))
		for i, k := range keys {
			ps[i] = k + "=" + absModel(r.Models[k])
		}
		secs = append(secs, "M:"+strings.Join(ps, ";"))
	}
	if len(r.Collections) > 0 {
		keys := make([]string, 0)
		for k := range r.Collections {
			keys = append(keys, k)
		}
		sort.Strings(keys)
		ps := make([]string, len(keys))
		for i, k := range keys {
			ps[i] = k + "=" + absColl(r.Collections[k])
		}
		secs = append(secs, "C:"+strings.Join(ps, ";"))
	}
	if len(r.Errors) > 0 {
		keys := make([]string, 0)
		for k := range r.Errors {
			keys = append(keys, k)
		}
		sort.Strings(keys)
		ps := make([]string, len(keys))
		for i, k := range keys {
			ps[i] = k + "=" + r.Errors[k].Code
		}
		secs = append(secs, "E:"+strings.Join(ps, ";"))
	}
	return "R{" + strings.Join(secs, "|") + "}"
}

// parsed client-bound frame
type cframe struct {
	raw     string
	isEvent bool
	// response
	id      uint64
	errCode string
	hasErr  bool
	errOK   bool // error object has string code and message
	result  json.RawMessage
	// event
	rid   string
	event string
	data  json.RawMessage
}

func parseFrame(b []byte) (*cframe, error) {
	var o map[string]json.RawMessage
	if err := json.Unmarshal(b, &o); err != nil {
		return nil, err
	}
	f := &cframe{raw: string(b)}
	if ev, ok := o["event"]; ok {
		var name string
		if err := json.Unmarshal(ev, &name); err != nil {
			return nil, err
		}
		i := strings.LastIndexByte(name, '.')
		if i < 0 {
			return nil, fmt.Errorf("event without dot: %s", name)
		}
		f.isEvent = true
		f.rid, f.event = name[:i], name[i+1:]
		f.data = o["data"]
		return f, nil
	}
	idr, ok := o["id"]
	if !ok {
		return nil, fmt.Errorf("frame without id or event: %s", b)
	}
	if err := json.Unmarshal(idr, &f.id); err != nil {
		return nil, err
	}
	if e, ok := o["error"]; ok {
		f.hasErr = true
		var eo map[string]json.RawMessage
		if json.Unmarshal(e, &eo) == nil {
			var code, msg string
			c1 := json.Unmarshal(eo["code"], &code) == nil && eo["code"] != nil
			c2 := json.Unmarshal(eo["message"], &msg) == nil && eo["message"] != nil
			f.errCode = code
			f.errOK = c1 && c2
		}
		return f, nil
	}
	f.result = o["result"]
	return f, nil
}

// abs renders the frame in the canonical abstract form compared with the model.
func (f *cframe) abs() string {
	if !f.isEvent {
		if f.hasErr {
			return fmt.Sprintf("res %d err %s", f.id, f.errCode)
		}
		if len(f.result) == 0 || string(f.result) == "null" {
			return fmt.Sprintf("res %d ok null", f.id)
		}
		var ro map[string]json.RawMessage
		if json.Unmarshal(f.result, &ro) != nil {
			return fmt.Sprintf("res %d ok raw:%s", f.id, compactJSON(f.result))
		}
		if p, ok := ro["protocol"]; ok && len(ro) == 1 {
			_ = p
			return fmt.Sprintf("res %d ok protocol", f.id)
		}
		if p, ok := ro["payload"]; ok && len(ro) == 1 {
			return fmt.Sprintf("res %d ok payload=%s", f.id, absValue(p))
		}
		var rs rpcResources
		json.Unmarshal(f.result, &rs)
		if r, ok := ro["rid"]; ok {
			var rid string
			json.Unmarshal(r, &rid)
			return fmt.Sprintf("res %d ok rid=%s %s", f.id, rid, absResources(&rs))
		}
		for k := range ro {
			if k != "models" && k != "collections" && k != "errors" {
				return fmt.Sprintf("res %d ok raw:%s", f.id, compactJSON(f.result))
			}
		}
		return fmt.Sprintf("res %d ok %s", f.id, absResources(&rs))
	}
	switch f.event {
	case "change":
		var d struct {
			Values map[string]json.RawMessage `json:"values"`
		}
		json.Unmarshal(f.data, &d)
		var rs rpcResources
		json.Unmarshal(f.data, &rs)
		return fmt.Sprintf("ev %s change values=%s %s", f.rid, absModel(d.Values), absResources(&rs))
	case "add":
		var d struct {
			Idx   int             `json:"idx"`
			Value json.RawMessage `json:"value"`
		}
		json.Unmarshal(f.data, &d)
		var rs rpcResources
		json.Unmarshal(f.data, &rs)
		return fmt.Sprintf("ev %s add idx=%d value=%s %s", f.rid, d.Idx, absValue(d.Value), absResources(&rs))
	case "remove":
		var d struct {
			Idx int `json:"idx"`
		}
		json.Unmarshal(f.data, &d)
		return fmt.Sprintf("ev %s remove idx=%d", f.rid, d.Idx)
	case "unsubscribe":
		var d struct {
			Reason struct {
				Code string `json:"code"`
			} `json:"reason"`
		}
		json.Unmarshal(f.data, &d)
		return fmt.Sprintf("ev %s unsubscribe reason=%s", f.rid, d.Reason.Code)
	case "delete":
		return fmt.Sprintf("ev %s delete", f.rid)
	default:
		if len(f.data) == 0 {
			return fmt.Sprintf("ev %s %s", f.rid, f.event)
		}
		return fmt.Sprintf("ev %s %s data=%s", f.rid, f.event, compactJSON(f.data))
	}
}

// absPayload renders an mq request payload.
func absPayload(subject string, payload []byte, cidName func(string) string) string {
	var o map[string]json.RawMessage
	if json.Unmarshal(payload, &o) != nil {
		return "raw:" + string(payload)
	}
	keys := make([]string, 0, len(o))
	for k := range o {
		keys = append(keys, k)
	}
	sort.Strings(keys)
	parts := make([]string, 0, len(keys))
	for _, k := range keys {
		v := o[k]
		switch k {
		case "cid":
			var c string
			json.Unmarshal(v, &c)
			parts = append(parts, "cid="+cidName(c))
		case "query":
			var q string
			json.Unmarshal(v, &q)
			parts = append(parts, "query="+q)
		case "header", "host", "remoteAddr", "uri":
			// request details of the upgrade; not compared
		default:
			parts = append(parts, k+"="+compactJSON(v))
		}
	}
	if len(parts) == 0 {
		return "{}"
	}
	return strings.Join(parts, ",")
}
