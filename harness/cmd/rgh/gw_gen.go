package main

import (
	"encoding/json"
	"fmt"
	"github.com/resgateio/resgate/server"
	"sort"
	"strings"
	"time"

	"github.com/resgateio/resgate/server/mq"
	"github.com/resgateio/resgate/server/reserr"
)

// ---------------------------------------------------------------------------------------------
// Scenario generator: a seeded random walk over the enabled stimuli, weighted per profile,
// followed by a drain phase (answer everything, reset everything) and end-of-history checks,
// then disconnect everybody, drain again, flush evictions and check that nothing is left.
// ---------------------------------------------------------------------------------------------

type profile struct {
	name         string
	steps        int
	maxClients   int
	wConnect     int
	wRequest     int
	wAnswer      int
	wEvent       int
	wToken       int
	wReset       int
	wDisconnect  int
	wEvict       int
	wRawFrame    int
	wTokenReset  int
	wSilent      int
	wHTTP        int
	refThrottle  []int
	rstThrottle  []int
	versions     []string
	denyPct      int // percentage of access answers that are not a full grant
	getFailPct   int // percentage of get answers replaced by error/timeout
	malformedPct int // percentage of malformed events / answers
	rids         []string
	eventKinds   []string
	reqKinds     []string
	limitRunPct  int // percentage of histories that start by driving one subscription to the count limit
	mutatePct    int // percentage of service messages structurally mutated (only C15 checks apply then)
	metaPct      int // percentage of answers to HTTP requests that carry a meta object (default 25)
	hauthPct     int // percentage of histories run with header authentication configured
	burstPct     int // percentage of steps that issue 2-4 stimuli without settling in between
}

func stdUniverse() *universe {
	long := "m." + strings.Repeat("l", 4090)
	u := &universe{
		defs: []resDef{
			{name: "m.a", kind: 'm'}, {name: "m.b", kind: 'm'}, {name: "m.c", kind: 'm'}, {name: "m.self", kind: 'm'},
			{name: "c.a", kind: 'c'}, {name: "c.b", kind: 'c'},
			{name: "m.err", kind: 'm', getErr: reserr.CodeNotFound}, {name: "m.r2e", kind: 'm'},
			{name: "q.m", kind: 'm', query: true}, {name: "q.c", kind: 'c', query: true},
			{name: "q.d", kind: 'm', query: true, defQuery: "q=n1"}, // only profile query asks for it
			{name: "cid.{cid}.m", kind: 'm'}, {name: "m.pq", kind: 'm'},
			{name: long, kind: 'm'},
			// leaves used by the reference burst of profile throttle (never picked at random)
			{name: "c.n", kind: 'c'}, {name: "m.n1", kind: 'm'}, {name: "m.n2", kind: 'm'},
			{name: "m.l1", kind: 'm'}, {name: "m.l2", kind: 'm'}, {name: "m.l3", kind: 'm'}, {name: "m.l4", kind: 'm'}, {name: "m.l5", kind: 'm'}, {name: "m.l6", kind: 'm'}, {name: "m.l7", kind: 'm'}, {name: "m.l8", kind: 'm'}, {name: "m.l9", kind: 'm'},
			// a property name with a control character, next to a soft reference and a data value
			// (what a legacy client's encoder has to quote): only the scripted legacy run asks for it
			{name: "m.k", kind: 'm'},
		},
		norm: map[string]string{"q=a": "q=n1", "q=b": "q=n1", "q=c": "q=n2", "q=n1": "q=n1", "q=n2": "q=n2"},
		init: map[string]string{
			"m.a": "k1=p1,k2=r:m.b,k3=s:m.c", "m.b": "k1=p2,k2=r:m.c", "m.c": "k1=p3,k2=r:m.a,k3=d7",
			"m.self": "k1=r:m.self,k2=p1", "c.a": "p1,r:m.b,r:m.b,p2", "c.b": "r:c.a,r:m.c,s:m.a",
			"m.r2e": "k1=r:m.err,k2=p4", "q.m?q=n1": "k1=p1", "q.m?q=n2": "k1=p2,k2=r:m.b", "q.c?q=n1": "p1,p2",
			"q.c?q=n2": "p3", "q.d?q=n1": "k1=p4,k2=r:m.b", "q.d?q=n2": "k1=p5", "cid.{cid}.m": "k1=p9", long: "k1=p1", "m.pq": "k1=p1,k2=r:m.b",
			"c.n": "p1", "m.n1": "k1=r:m.l1,k2=p1", "m.n2": "k1=r:m.l2,k2=r:m.l3",
			"m.l1": "k1=p1", "m.l2": "k1=p2", "m.l3": "k1=p3", "m.l4": "k1=p4", "m.l5": "k1=p5", "m.l6": "k1=p6", "m.l7": "k1=p7", "m.l8": "k1=p8", "m.l9": "k1=p9", "m.k": "a\x01b=p1,k2=s:m.b,k3=d3",
		},
	}
	u.rids = []string{"m.a", "m.b", "m.c", "m.self", "c.a", "c.b", "m.err", "m.r2e", "q.m?q=a", "q.m?q=b", "q.m?q=c",
		"q.m?q=n1", "q.c?q=a", "q.c?q=c", "cid.{cid}.m", "m.zzz", "m.pq?q=a", "m.pq", "q.m", long}
	return u
}

var valuePool = []aval{"p0", "p1", "p2", "p5", "r:m.a", "r:m.b", "r:m.c", "r:m.self", "r:c.a", "r:m.err", "s:m.b", "d3", "d4", "r:cid.{cid}.m"}

func baseProfile(name string) profile {
	return profile{hauthPct: 20, name: name, steps: 45, maxClients: 2, wConnect: 3, wRequest: 30, wAnswer: 40, wEvent: 14, wToken: 2,
		wReset: 2, wDisconnect: 1, wEvict: 2, wRawFrame: 1, wTokenReset: 1, wSilent: 2, wHTTP: 3,
		refThrottle: []int{0}, rstThrottle: []int{0}, versions: []string{"1.2.3"}, denyPct: 12, getFailPct: 8, malformedPct: 4,
		reqKinds:   []string{"subscribe", "subscribe", "subscribe", "unsubscribe", "get", "call", "new", "auth"},
		eventKinds: []string{"change", "change", "add", "remove", "custom", "custom", "delete", "reaccess", "query", "badkind", "badpayload"}}
}

func profiles() map[string]profile {
	ps := map[string]profile{}
	p := baseProfile("mixed")
	p.versions = []string{"1.2.3", "1.2.0", "", "1.2.3"}
	p.refThrottle = []int{0, 0, 1, 3}
	p.rstThrottle = []int{0, 0, 1, 2}
	p.maxClients = 3
	ps["mixed"] = p

	p = baseProfile("refs") // reference graphs, collector, add/remove/move references
	p.rids = []string{"m.a", "m.b", "m.c", "m.self", "c.a", "c.b", "m.r2e"}
	p.wEvent = 25
	p.eventKinds = []string{"change", "change", "add", "remove", "custom"}
	p.reqKinds = []string{"subscribe", "subscribe", "unsubscribe", "unsubscribe", "get"}
	p.wToken, p.wReset, p.wTokenReset, p.wSilent, p.wRawFrame = 0, 0, 0, 0, 0
	p.denyPct, p.getFailPct, p.malformedPct = 0, 3, 0
	p.refThrottle = []int{0, 0, 1}
	p.versions = []string{"1.2.3", "1.2.3", "1.2.0"}
	ps["refs"] = p

	p = baseProfile("access") // tokens, reaccess, resets of access, calls
	p.rids = []string{"m.a", "m.b", "c.a", "q.m?q=a", "cid.{cid}.m"}
	p.wToken, p.wReset = 10, 6
	p.eventKinds = []string{"change", "custom", "custom", "reaccess", "reaccess", "add"}
	p.reqKinds = []string{"subscribe", "subscribe", "unsubscribe", "get", "call", "call", "new"}
	p.denyPct = 30
	p.rstThrottle = []int{0, 1}
	ps["access"] = p

	p = baseProfile("query") // query resources, normalisation, query events
	p.rids = []string{"q.m?q=a", "q.m?q=b", "q.m?q=c", "q.m?q=n1", "q.c?q=a", "q.c?q=c", "q.m", "m.pq?q=a", "m.pq", "q.d", "q.d?q=a", "q.d?q=c", "q.d"}
	p.eventKinds = []string{"query", "query", "query", "custom", "change"}
	p.reqKinds = []string{"subscribe", "subscribe", "subscribe", "unsubscribe", "get"}
	p.wSilent, p.wReset = 10, 5
	p.denyPct = 3
	ps["query"] = p

	p = baseProfile("reset") // silent mutations + system.reset, resets overlapping
	p.rids = []string{"m.a", "m.b", "c.a", "c.b", "q.m?q=a", "q.c?q=a"}
	p.wSilent, p.wReset = 14, 12
	p.eventKinds = []string{"change", "add", "remove", "custom", "delete"}
	p.reqKinds = []string{"subscribe", "subscribe", "unsubscribe", "get"}
	p.rstThrottle = []int{0, 1, 2}
	p.denyPct = 5
	ps["reset"] = p

	p = baseProfile("churn") // connect/disconnect/evict with work in flight, limits
	p.maxClients = 4
	p.wConnect, p.wDisconnect, p.wEvict = 8, 8, 8
	p.versions = []string{"1.2.3", "1.2.0", ""}
	ps["churn"] = p

	p = baseProfile("counts") // subscribe/unsubscribe counting
	p.rids = []string{"m.a", "c.a", "m.err", "q.m?q=a"}
	p.reqKinds = []string{"subscribe", "subscribe", "unsubscribe", "unsubscribe", "unsubscribe", "get", "new"}
	p.eventKinds = []string{"custom", "delete", "reaccess"}
	p.wEvent = 6
	p.denyPct, p.getFailPct = 15, 15
	p.limitRunPct = 4
	ps["counts"] = p

	p = baseProfile("order") // events racing the loading of newly referenced resources
	p.rids = []string{"c.a", "c.b", "m.a"}
	p.eventKinds = []string{"add", "add", "remove", "custom", "custom", "custom", "change"}
	p.reqKinds = []string{"subscribe", "subscribe", "unsubscribe"}
	p.wEvent, p.wAnswer, p.wEvict, p.wRequest = 38, 26, 5, 14
	p.wToken, p.wReset, p.wTokenReset, p.wSilent, p.wRawFrame, p.wDisconnect = 0, 0, 0, 0, 0, 1
	p.denyPct, p.getFailPct, p.malformedPct = 0, 2, 0
	p.maxClients = 2
	ps["order"] = p

	p = baseProfile("throttle") // governed requests: resets with access patterns, answers in any order, leavers
	p.rids = []string{"m.a", "m.b", "m.c", "c.a", "m.self", "cid.{cid}.m", "m.pq"}
	p.refThrottle = []int{0, 1, 2}
	p.rstThrottle = []int{1, 1, 2, 3}
	p.wReset, p.wToken, p.wDisconnect, p.wRequest, p.wAnswer = 14, 3, 3, 30, 34
	p.eventKinds = []string{"custom", "reaccess", "change"}
	p.reqKinds = []string{"subscribe", "subscribe", "subscribe", "unsubscribe", "unsubscribe"}
	p.denyPct, p.getFailPct, p.malformedPct = 10, 5, 0
	p.maxClients = 3
	ps["throttle"] = p

	p = baseProfile("malformed")
	p.rids = []string{"c.a", "c.b", "m.a", "m.b", "q.c?q=a"}
	p.wEvent = 30
	p.malformedPct = 35
	p.wRawFrame = 8
	p.eventKinds = []string{"change", "add", "remove", "custom", "badkind", "badpayload", "badpayload", "query"}
	ps["malformed"] = p

	p = baseProfile("mutate") // any service message may be a structural mutation of a valid one
	p.rids = []string{"c.a", "c.b", "m.a", "m.b", "q.c?q=a", "q.m?q=a", "m.err"}
	p.wEvent, p.wToken, p.wReset, p.wTokenReset = 24, 5, 5, 3
	p.eventKinds = []string{"change", "add", "remove", "custom", "delete", "reaccess", "query", "query"}
	p.reqKinds = []string{"subscribe", "subscribe", "get", "call", "auth", "new", "unsubscribe"}
	p.mutatePct = 30
	ps["mutate"] = p

	p = baseProfile("http") // mostly HTTP requests: GET/HEAD/POST/PUT/DELETE, header auth, meta status and headers
	p.rids = []string{"m.a", "m.b", "c.a", "m.err", "q.m?q=a", "m.self", "m.r2e"}
	p.wHTTP, p.wRequest, p.wAnswer, p.wEvent, p.wToken, p.wReset = 34, 8, 44, 6, 4, 2
	p.reqKinds = []string{"subscribe", "call", "unsubscribe"}
	p.hauthPct, p.metaPct = 50, 65
	p.denyPct, p.getFailPct = 20, 10
	ps["http"] = p

	p = baseProfile("burst") // several stimuli at once: the gateway's goroutines really race
	p.maxClients = 3
	p.wConnect, p.wDisconnect, p.wEvict, p.wEvent, p.wToken, p.wReset = 5, 5, 6, 22, 4, 5
	p.eventKinds = []string{"change", "add", "remove", "custom", "custom", "delete", "reaccess", "query"}
	p.burstPct = 60
	ps["burst"] = p
	return ps
}

type gen struct {
	r         *rng
	w         *world
	p         profile
	u         *universe
	tokN      int
	qeN       int
	callN     int
	qeSnap    map[string]bool
	pqVariant uint64
	metaN     int
	kinds     map[string]int
}

func pick[T any](r *rng, xs []T) T { return xs[r.intn(len(xs))] }

func (g *gen) liveClients() []*wsClient {
	var out []*wsClient
	for _, c := range g.w.clients {
		if !c.closed {
			out = append(out, c)
		}
	}
	return out
}

func (g *gen) rids() []string {
	if len(g.p.rids) > 0 {
		return g.p.rids
	}
	return g.u.rids
}

func (g *gen) connect() {
	c := g.w.connect()
	if c == nil {
		return
	}
	v := pick(g.r, g.p.versions)
	if v != "" {
		g.w.request(c, "version", fmt.Sprintf(`{"protocol":%q}`, v))
	}
	g.kinds["connect"]++
}

func (g *gen) clientRequest() {
	cs := g.liveClients()
	if len(cs) == 0 {
		g.connect()
		return
	}
	c := pick(g.r, cs)
	kind := pick(g.r, g.p.reqKinds)
	rid := pick(g.r, g.rids())
	if g.r.chance(1, 40) {
		rid = pick(g.r, []string{"m..a", "m.*", "", "m.a.", ".m", "m.>", "m a"})
	}
	// One client never holds two raw queries that normalise to the same query: the order in which
	// the gateway then hands one event to the two subscriptions is Go's map order, which neither
	// the model nor the properties fix. Aliasing is exercised across clients instead.
	if i := strings.IndexByte(rid, '?'); i > 0 {
		if nq, ok := g.u.norm[rid[i+1:]]; ok {
			var aliases []string
			for raw, n := range g.u.norm {
				if n == nq {
					aliases = append(aliases, raw)
				}
			}
			sort.Strings(aliases)
			if d := g.w.truth.defFor(rid[:i]); d != nil && d.defQuery == nq {
				aliases = append(aliases, "") // the resource id without query
			}
			rid = rid[:i+1] + aliases[c.idx%len(aliases)]
			if strings.HasSuffix(rid, "?") {
				rid = rid[:i]
			}
		}
	} else if d := g.w.truth.defFor(rid); d != nil && d.defQuery != "" {
		var aliases []string
		for raw, n := range g.u.norm {
			if n == d.defQuery {
				aliases = append(aliases, raw)
			}
		}
		sort.Strings(aliases)
		aliases = append(aliases, "")
		if a := aliases[c.idx%len(aliases)]; a != "" {
			rid = rid + "?" + a
		}
	}
	if strings.HasPrefix(rid, "m.pq") {
		// a plain resource asked with a query is cached under the plain name as well; one client
		// sticks to one spelling (one of them carries the {cid} tag in the query part)
		switch (c.idx + int(g.pqVariant)) % 3 {
		case 0:
			rid = "m.pq?q=a"
		case 1:
			rid = "m.pq"
		default:
			rid = "m.pq?o={cid}&v={cid}" // every tag is expanded, not just the first
		}
	}
	g.kinds["req:"+kind]++
	switch kind {
	case "subscribe", "get", "new":
		params := ""
		if kind == "new" {
			params = `{"n":1}`
		}
		g.w.request(c, kind+"."+rid, params)
	case "unsubscribe":
		params := ""
		switch g.r.intn(12) {
		case 0:
			params = `{"count":2}`
		case 1:
			params = `{"count":0}`
		case 2:
			params = `{"count":-1}`
		case 3:
			params = `{"count":"x"}`
		case 4:
			params = `null`
		case 5:
			params = `{"count":1}`
		case 6:
			params = `{"count":300}`
		case 7:
			params = `{}` // no count: defaults to 1
		case 8:
			params = `{"count":null}`
		case 9:
			params = pick(g.r, []string{`{"other":true}`, `{"count":1.5}`, `[1]`, `{"count":true}`})
		}
		// prefer rids the client holds
		if g.r.chance(3, 4) {
			var held []string
			for r, n := range c.ref.direct {
				if n > 0 {
					held = append(held, r)
				}
			}
			if g.r.chance(1, 25) {
				for _, p := range c.ref.pending {
					if p.kind == "subscribe" {
						held = append(held, p.rid)
					}
				}
			}
			sort.Strings(held)
			if len(held) > 0 {
				rid = pick(g.r, held)
			}
		}
		g.w.request(c, "unsubscribe."+rid, params)
	case "call", "auth":
		method := pick(g.r, []string{"set", "x", "se", "get"})
		g.w.request(c, kind+"."+rid+"."+method, `{"v":1}`)
	}
}

func (g *gen) accessAnswer(grantOnly bool) (string, []byte, error) {
	if grantOnly || !g.r.chance(g.p.denyPct, 100) {
		return "access:get=1,call=*", []byte(`{"result":{"get":true,"call":"*"}}`), nil
	}
	switch g.r.intn(8) {
	case 0:
		return "access:get=1,call=set,x", []byte(`{"result":{"get":true,"call":"set,x"}}`), nil
	case 1:
		return "access:get=0,call=*", []byte(`{"result":{"get":false,"call":"*"}}`), nil
	case 2:
		return "access:get=1,call=", []byte(`{"result":{"get":true}}`), nil
	case 3:
		return "err:system.accessDenied", []byte(errJSON(reserr.CodeAccessDenied)), nil
	case 4:
		return "err:system.internalError", []byte(errJSON(reserr.CodeInternalError)), nil
	case 5:
		return "timeout", nil, mq.ErrRequestTimeout
	case 6:
		return "missing-result", []byte(`{}`), nil
	default:
		return "access:get=0,call=", []byte(`{"result":{"get":false}}`), nil
	}
}

func (g *gen) answerOne(r *mockReq, drain bool) {
	w := g.w
	kind := r.subject
	if i := strings.IndexByte(kind, '.'); i > 0 {
		kind = kind[:i]
	}
	g.kinds["answer:"+kind]++
	switch kind {
	case "access":
		l, d, e := g.accessAnswer(drain)
		if !drain {
			l, d = g.withMeta(r, l, d)
		}
		w.answer(r, l, d, e)
	case "get":
		if !drain && g.r.chance(g.p.getFailPct, 100) {
			switch g.r.intn(3) {
			case 0:
				w.answer(r, "timeout", nil, mq.ErrRequestTimeout)
			case 1:
				w.answer(r, "err:system.internalError", []byte(errJSON(reserr.CodeInternalError)), nil)
			default:
				w.answer(r, "noresponders", nil, mq.ErrNoResponders)
			}
			return
		}
		if !drain && g.r.chance(g.p.malformedPct, 100) {
			bad := pick(g.r, []string{`{"result":{"model":{"a":{"x":1}}}}`, `{"result":{"model":{"a":[1]}}}`, `{"result":{}}`, `{"result":{"model":{"a":1},"collection":[1]}}`,
				`{"result":{"collection":[{"rid":""}]}}`, `{"result":{"model":{"a":{"rid":"m.*"}}}}`, `not json`, `{"result":{"model":{"a":{"action":"delete"}}}}`, `{"result":{"collection":[{"rid":"m.a","action":"delete"}]}}`})
			w.answer(r, "malformed:"+hx(bad), []byte(bad), nil)
			return
		}
		if !drain && g.r.chance(g.p.malformedPct+3, 100) {
			// a reset re-fetch answered with the other resource type: logged and ignored, and the
			// resource must go on working afterwards (C15 containment)
			name := strings.TrimPrefix(r.subject, "get.")
			if d := w.truth.defFor(name); d != nil && !d.query && d.getErr == "" && g.isResetting(name) {
				if d.kind == 'm' {
					w.answer(r, "ok:c[p1,p2]:q=", []byte(`{"result":{"collection":[1,2]}}`), nil)
				} else {
					w.answer(r, "ok:m{a=p1}:q=", []byte(`{"result":{"model":{"a":1}}}`), nil)
				}
				g.kinds["answer:reset-type-mismatch"]++
				return
			}
		}
		l, d, e := w.truth.getResponse(r.subject, r.payload)
		w.answer(r, l, d, e)
	case "call":
		g.callN++
		if strings.HasSuffix(r.subject, ".new") || g.r.chance(1, 4) {
			rid := pick(g.r, []string{"m.a", "m.b", "c.a", "m.err", "m.zzz"})
			if g.r.chance(1, 10) {
				rid = "m.*"
			}
			l, d := "resource:"+rid, []byte(fmt.Sprintf(`{"resource":{"rid":%q}}`, rid))
			if strings.HasSuffix(r.subject, ".new") && g.r.chance(1, 3) {
				// RES-service v1.1 form of the answer to a new call: the rid as the result
				d = []byte(fmt.Sprintf(`{"result":{"rid":%q}}`, rid))
				g.kinds["answer:new-legacy"]++
			}
			if !drain {
				l, d = g.withMeta(r, l, d)
			}
			w.answer(r, l, d, nil)
			return
		}
		if isHTTPReq(r) {
			// answers to an HTTP POST: result, null result, error, each possibly with a meta status
			var l string
			var d []byte
			switch g.r.intn(7) {
			case 0:
				l, d = "err:system.methodNotFound", []byte(errJSON(reserr.CodeMethodNotFound))
			case 6:
				l, d = "err:custom.failure", []byte(errJSON("custom.failure"))
			case 1:
				w.answer(r, "timeout", nil, mq.ErrRequestTimeout)
				return
			case 2:
				l, d = "result:pnull", []byte(`{"result":null}`)
			default:
				l, d = fmt.Sprintf("result:p%d", g.callN), []byte(fmt.Sprintf(`{"result":%d}`, g.callN))
			}
			if !drain {
				l, d = g.withMeta(r, l, d)
			}
			w.answer(r, l, d, nil)
			return
		}
		switch g.r.intn(6) {
		case 0:
			w.answer(r, "err:system.methodNotFound", []byte(errJSON(reserr.CodeMethodNotFound)), nil)
		case 1:
			w.answer(r, "timeout", nil, mq.ErrRequestTimeout)
		default:
			w.answer(r, fmt.Sprintf("result:p%d", g.callN), []byte(fmt.Sprintf(`{"result":%d}`, g.callN)), nil)
		}
	case "auth":
		g.callN++
		if isHTTPReq(r) && !drain {
			// header authentication of an HTTP request: result, error or timeout, possibly with meta
			switch g.r.intn(6) {
			case 0:
				w.answer(r, "timeout", nil, mq.ErrRequestTimeout)
				return
			case 1:
				l, d := g.withMeta(r, "err:system.accessDenied", []byte(errJSON(reserr.CodeAccessDenied)))
				w.answer(r, l, d, nil)
				return
			}
			l, d := g.withMeta(r, fmt.Sprintf("result:p%d", g.callN), []byte(fmt.Sprintf(`{"result":%d}`, g.callN)))
			w.answer(r, l, d, nil)
			return
		}
		w.answer(r, fmt.Sprintf("result:p%d", g.callN), []byte(fmt.Sprintf(`{"result":%d}`, g.callN)), nil)
	default:
		// query request on an event subject
		var p struct {
			Query string `json:"query"`
		}
		json.Unmarshal(r.payload, &p)
		name := g.qeResource(r.subject)
		tr := w.truth.get(name, p.Query)
		if tr == nil {
			w.answer(r, "err:system.notFound", []byte(errJSON(reserr.CodeNotFound)), nil)
			return
		}
		if !drain && g.r.chance(1, 10) {
			w.answer(r, "err:system.internalError", []byte(errJSON(reserr.CodeInternalError)), nil)
			return
		}
		if !drain && g.r.chance(1, 10) {
			w.answer(r, "timeout", nil, mq.ErrRequestTimeout)
			return
		}
		if !drain && g.r.chance(g.p.malformedPct, 100) {
			// answers a service must not give: none may crash the gateway or change anything
			bad := pick(g.r, []string{`{"result":{"events":[null]}}`, `{"result":{"events":[{"event":"change"}]}}`, `{"result":{"events":[{"event":"add","data":{"idx":99,"value":1}}]}}`,
				`{"result":{"events":[1]}}`, `{"result":{"events":{}}}`, `{"result":{"model":{"a":{"x":1}}}}`, `{"result":{"model":{},"events":[]}}`, `not json`, `{"result":null}`,
				`{"result":{"events":[{"event":"remove","data":{"idx":-1}}]}}`,
				`{"result":{"collection":[{"rid":""}]}}`, `{"result":{"events":[{"event":"change","data":{"values":{"a":{"rid":"m..a"}}}}]}}`, `{"result":{"events":[null,null]}}`})
			w.answer(r, "malformed:"+hx(bad), []byte(bad), nil)
			return
		}
		if g.r.chance(1, 4) {
			w.answer(r, "qevents:", []byte(`{"result":{"events":[]}}`), nil)
			return
		}
		w.answer(r, "qfull:"+string(tr.def.kind)+tr.contentAbs(), []byte(`{"result":{`+tr.contentJSON()+`}}`), nil)
	}
}

// isResetting: the cached base resource of that name is waiting for a reset re-fetch.
func (g *gen) isResetting(name string) bool {
	for _, e := range g.w.serv.VerifCache().VerifSnapshot() {
		if e.Name == name && e.Base != nil && e.Base.Resetting {
			return true
		}
	}
	return false
}

func (g *gen) qeResource(subject string) string {
	// subjects are _QE_<resource>_<n>
	s := strings.TrimPrefix(subject, "_QE_")
	if i := strings.LastIndexByte(s, '_'); i > 0 {
		return s[:i]
	}
	return s
}

func (g *gen) answer() {
	reqs := g.w.mq.outstanding()
	if len(reqs) == 0 {
		g.clientRequest()
		return
	}
	var r *mockReq
	switch g.r.intn(4) {
	case 0:
		r = reqs[len(reqs)-1]
	case 1:
		r = reqs[0]
	default:
		r = pick(g.r, reqs)
	}
	g.answerOne(r, false)
}

// cachedResources lists real resource names that currently have a cache entry.
func (g *gen) cachedResources() []string {
	var out []string
	for _, e := range g.w.serv.VerifCache().VerifSnapshot() {
		out = append(out, e.Name)
	}
	return out
}

func (g *gen) mutate(tr *truthRes, c *wsClient) (event string, payload string) {
	cidFix := func(v aval) aval { return v } // services refer to per-connection resources with the {cid} tag
	if tr.def.kind == 'm' {
		k := pick(g.r, []string{"k1", "k2", "k3", "k4"})
		if _, ok := tr.model[k]; ok && g.r.chance(1, 4) {
			delete(tr.model, k)
			return "change", fmt.Sprintf(`{"values":{%q:{"action":"delete"}}}`, k)
		}
		// sometimes several keys in one event: new references next to soft references, data values
		// and primitives (what a legacy client sees differs per value kind)
		if g.r.chance(1, 5) {
			pool := append(append([]aval{}, valuePool...), "r:m.l1", "r:m.l2", "s:m.c", "s:m.l3", "d5")
			ks := []string{"k1", "k2", "k3", "k4", "k5"}
			n := 2 + g.r.intn(2)
			var parts []string
			used := map[string]bool{}
			for len(parts) < n {
				kk := pick(g.r, ks)
				if used[kk] {
					continue
				}
				used[kk] = true
				vv := pick(g.r, pool)
				tr.model[kk] = vv
				parts = append(parts, fmt.Sprintf("%q:%s", kk, vv.json()))
			}
			sort.Strings(parts)
			return "change", `{"values":{` + strings.Join(parts, ",") + `}}`
		}
		v := cidFix(pick(g.r, valuePool))
		// sometimes move a reference between keys in one event
		if g.r.chance(1, 6) {
			k2 := pick(g.r, []string{"k1", "k2", "k3", "k4"})
			if k2 != k {
				if ov, ok := tr.model[k2]; ok {
					tr.model[k] = ov
					tr.model[k2] = v
					return "change", fmt.Sprintf(`{"values":{%q:%s,%q:%s}}`, k, ov.json(), k2, v.json())
				}
			}
		}
		tr.model[k] = v
		return "change", fmt.Sprintf(`{"values":{%q:%s}}`, k, v.json())
	}
	if len(tr.coll) > 0 && g.r.chance(1, 2) {
		i := g.r.intn(len(tr.coll))
		tr.coll = append(tr.coll[:i:i], tr.coll[i+1:]...)
		return "remove", fmt.Sprintf(`{"idx":%d}`, i)
	}
	i := g.r.intn(len(tr.coll) + 1)
	v := cidFix(pick(g.r, valuePool))
	tr.coll = append(tr.coll[:i:i], append([]aval{v}, tr.coll[i:]...)...)
	return "add", fmt.Sprintf(`{"idx":%d,"value":%s}`, i, v.json())
}

func (g *gen) event() {
	w := g.w
	names := g.cachedResources()
	if len(names) == 0 {
		g.clientRequest()
		return
	}
	name := pick(g.r, names)
	d := w.truth.defFor(name)
	kind := pick(g.r, g.p.eventKinds)
	if !g.r.chance(g.p.malformedPct+1, 100) && (kind == "badkind" || kind == "badpayload") {
		kind = "custom"
	}
	g.kinds["event:"+kind]++
	if d == nil || d.getErr != "" {
		w.publish("event."+name+".x", `{"seq":1}`)
		return
	}
	if d.query {
		// events on query resources travel as query events
		if kind != "custom" && kind != "reaccess" && kind != "delete" {
			kind = "query"
		}
	}
	var cl *wsClient
	if cs := g.liveClients(); len(cs) > 0 {
		cl = cs[0]
	}
	switch kind {
	case "query":
		if !d.query {
			w.publish("event."+name+".query", `{"subject":"_QE_x_0"}`)
			return
		}
		// mutate some normalised variants silently first
		for _, nq := range []string{"q=n1", "q=n2"} {
			if g.r.chance(1, 2) {
				if tr := w.truth.get(name, nq); tr != nil && !tr.deleted {
					g.mutate(tr, nil)
				}
			}
		}
		g.qeN++
		subj := fmt.Sprintf("_QE_%s_%d", name, g.qeN)
		w.publish("event."+name+".query", fmt.Sprintf(`{"subject":%q}`, subj))
	case "change", "add", "remove":
		tr := w.truth.get(name, "")
		if tr == nil || tr.deleted {
			return
		}
		ev, pl := g.mutate(tr, cl)
		if ev == "change" && g.r.chance(1, 5) {
			// RES-service v1.0 form of a model change event: the values object itself (still
			// accepted by the gateway, which logs a deprecation warning once per service)
			var d struct {
				Values json.RawMessage `json:"values"`
			}
			if json.Unmarshal([]byte(pl), &d) == nil && len(d.Values) > 2 {
				pl = string(d.Values)
				g.kinds["event:change-legacy"]++
			}
		}
		w.publish("event."+name+"."+ev, pl)
	case "custom":
		tr := w.truth.get(name, "")
		if tr == nil {
			return
		}
		tr.seq++
		w.publish("event."+name+".x", fmt.Sprintf(`{"seq":%d}`, tr.seq))
	case "delete":
		if d.query {
			return
		}
		tr := w.truth.get(name, "")
		if tr == nil {
			return
		}
		tr.deleted = true
		w.publish("event."+name+".delete", "")
	case "reaccess":
		w.publish("event."+name+".reaccess", "")
	case "badkind":
		if d.kind == 'm' {
			w.publish("event."+name+".add", `{"idx":0,"value":1}`)
		} else {
			w.publish("event."+name+".change", `{"values":{"k1":1}}`)
		}
	case "badpayload":
		var bad string
		ev := "change"
		if d.kind == 'c' && g.r.chance(1, 2) {
			// boundary indexes of the current collection
			n := 0
			if tr := w.truth.get(name, ""); tr != nil {
				n = len(tr.coll)
			}
			if g.r.chance(1, 2) {
				w.publish("event."+name+".remove", fmt.Sprintf(`{"idx":%d}`, n))
			} else {
				w.publish("event."+name+".add", fmt.Sprintf(`{"idx":%d,"value":1}`, n+1))
			}
			return
		}
		if d.kind == 'c' {
			ev = pick(g.r, []string{"add", "remove"})
			bad = pick(g.r, []string{`{"idx":-1,"value":1}`, `{"idx":99,"value":1}`, `{"idx":"0"}`, `[]`, `not json`, `{"idx":0,"value":{"rid":""}}`,
				`{"idx":0,"value":{"action":"delete"}}`, `{"idx":99}`, `{"idx":0,"value":{"x":1}}`, `{"idx":0,"value":[1]}`, `{"idx":0,"value":{"rid":"m.*"}}`})
		} else {
			bad = pick(g.r, []string{`{"values":{"k1":{"x":1}}}`, `{"values":{"k1":[1]}}`, `[]`, `not json`, `{"values":{"k1":{"rid":"a","data":1}}}`,
				`{"values":{"k1":{"rid":""}}}`, `{"values":{"k1":{"action":"remove"}}}`, `{"values":{"k9":{"action":"delete"}}}`})
			if g.r.chance(1, 2) {
				// a valid, changing value in front of the malformed one: nothing of it may be applied
				g.qeN++
				lead := fmt.Sprintf(`"k1":"partial-%d",`, g.qeN)
				if g.r.chance(1, 3) {
					lead = `"k1":{"action":"delete"},"k2":{"rid":"m.a"},`
				}
				bad = `{"values":{` + lead + pick(g.r, []string{`"k3":{"x":1}`, `"k3":[1]`, `"k3":{"rid":"a","data":1}`, `"k3":{"rid":""}`,
					`"k3":{"action":"remove"}`, `"k3":{"data":1,"action":"delete"}`, `"k3":{"rid":"m..a"}`}) + `}}`
			}
		}
		w.publish("event."+name+"."+ev, bad)
	}
}

// httpGet issues an HTTP GET for a resource (sometimes with an odd path).
func (g *gen) httpGet() {
	rid := pick(g.r, g.rids())
	if strings.Contains(rid, "{cid}") || len(rid) > 200 || strings.HasPrefix(rid, "m.pq") {
		rid = "m.a"
	}
	name, query := rid, ""
	if i := strings.IndexByte(rid, '?'); i >= 0 {
		name, query = rid[:i], rid[i+1:]
	}
	path := "/api/" + strings.ReplaceAll(name, ".", "/")
	if g.r.chance(1, 12) {
		path = pick(g.r, []string{"/api/m/a/", "/api/m.a", "/api/m//a", "/api/m/%2a", "/api/m/a%20b", "/api/", "/api/m/*"})
	}
	switch g.r.intn(12) {
	case 10:
		g.kinds["http:put"]++
		g.w.httpDo("PUT", path, query, pick(g.r, []string{`{"v":1}`, ""}))
	case 11:
		g.kinds["http:delete"]++
		g.w.httpDo("DELETE", path, query, "")
	case 0:
		g.kinds["http:head"]++
		g.w.httpDo("HEAD", path, query, "")
	case 1, 2, 3:
		action := pick(g.r, []string{"set", "x", "se", "get", "a*", ""})
		body := pick(g.r, []string{`{"v":1}`, "", `[1,2]`, `null`, ` {"v": 2} `})
		g.kinds["http:post"]++
		g.w.httpDo("POST", path+"/"+action, query, body)
	default:
		g.kinds["http:get"]++
		g.w.httpGet(path, query)
	}
}

// isHTTPReq: the request was made for an HTTP request (temporary connection).
func isHTTPReq(r *mockReq) bool {
	var p struct {
		IsHTTP bool `json:"isHttp"`
	}
	json.Unmarshal(r.payload, &p)
	return p.IsHTTP
}

func (g *gen) metaPct() int {
	if g.p.metaPct > 0 {
		return g.p.metaPct
	}
	return 25
}

// withMeta adds a meta object with a status to a JSON answer; statuses outside 300..599 must be
// ignored by the gateway, the others end the HTTP request at once (C17).
func (g *gen) withMeta(r *mockReq, label string, data []byte) (string, []byte) {
	if data == nil || len(data) < 2 || data[len(data)-1] != '}' {
		return label, data
	}
	if !isHTTPReq(r) {
		// a service may attach a meta object to any answer; for a WebSocket request the gateway
		// must ignore it entirely (the label, which is what the model reads, stays as it is)
		if !g.r.chance(g.metaPct()/3+1, 100) {
			return label, data
		}
		g.kinds["answer:meta-on-ws"]++
		st := pick(g.r, []int{301, 307, 404, 500, 599, 200, 600, 0})
		sep := ","
		if strings.TrimSpace(string(data[:len(data)-1])) == "{" {
			sep = ""
		}
		return label, append(append([]byte{}, data[:len(data)-1]...), []byte(fmt.Sprintf(`%s"meta":{"status":%d,"header":{"X-Ws":["1"]}}}`, sep, st))...)
	}
	if !g.r.chance(g.metaPct(), 100) {
		return label, data
	}
	g.metaN++
	var parts []string
	if g.r.chance(3, 4) {
		st := pick(g.r, []int{301, 302, 307, 399, 400, 401, 404, 418, 500, 503, 599, 200, 204, 299, 600, 99, 0, -1})
		g.kinds["answer:meta-status"]++
		parts = append(parts, fmt.Sprintf(`"status":%d`, st))
		label = fmt.Sprintf("%s|meta=%d", label, st)
	}
	if g.r.chance(1, 2) {
		// headers a service may set, and some it must not be able to set (C17)
		g.kinds["answer:meta-header"]++
		h := []string{fmt.Sprintf(`"X-Custom-%d":["v%d"]`, g.metaN, g.metaN), fmt.Sprintf(`"set-cookie":["a=%d"]`, g.metaN)}
		switch g.r.intn(4) {
		case 0:
			h = append(h, `"content-type":["text/evil"]`)
		case 1:
			h = append(h, `"Access-Control-Allow-Origin":["http://evil"]`, `"access-control-allow-credentials":["evil"]`)
		case 2:
			h = append(h, `"x-multi":["1","2"]`)
		}
		parts = append(parts, `"header":{`+strings.Join(h, ",")+`}`)
	}
	if len(parts) == 0 {
		return label, data
	}
	sep := ","
	if strings.TrimSpace(string(data[:len(data)-1])) == "{" {
		sep = ""
	}
	out := append(append([]byte{}, data[:len(data)-1]...), []byte(sep+`"meta":{`+strings.Join(parts, ",")+`}}`)...)
	return label, out
}

func (g *gen) silent() {
	names := g.cachedResources()
	if len(names) == 0 {
		return
	}
	name := pick(g.r, names)
	d := g.w.truth.defFor(name)
	if d == nil || d.getErr != "" {
		return
	}
	nq := ""
	if d.query {
		nq = pick(g.r, []string{"q=n1", "q=n2"})
	}
	if tr := g.w.truth.get(name, nq); tr != nil && !tr.deleted {
		if g.r.chance(1, 8) {
			// the resource becomes empty: a reset re-fetch answered with {} / [] is a valid answer
			// and must yield the delete actions / remove events
			if d.kind == 'm' {
				tr.model = map[string]aval{}
			} else {
				tr.coll = []aval{}
			}
			g.kinds["silent-clear"]++
		} else {
			g.mutate(tr, nil)
		}
		g.kinds["silent"]++
		g.w.steps = append(g.w.steps, stepRec{Stim: "# silent mutation of " + name + "?" + nq})
	}
}

func (g *gen) tokenEvent() {
	cs := g.liveClients()
	if len(cs) == 0 {
		return
	}
	cid := pick(g.r, cs).cid
	// a token event may also address the temporary connection of an HTTP request in flight
	if g.r.chance(1, 3) {
		var pending []string
		for _, h := range g.w.https {
			select {
			case <-h.done:
			default:
				for real, name := range g.w.cidName {
					if name == h.conn {
						pending = append(pending, real)
					}
				}
			}
		}
		if len(pending) > 0 {
			sort.Strings(pending)
			cid = pick(g.r, pending)
			g.kinds["token:http-conn"]++
		}
	}
	g.tokN++
	tok := fmt.Sprintf(`{"u":%d}`, g.tokN)
	if g.r.chance(1, 5) {
		tok = "null"
	}
	tid := ""
	if g.r.chance(1, 2) {
		tid = pick(g.r, []string{"T1", "T2"})
	}
	g.kinds["token"]++
	g.w.publish("conn."+cid+".token", fmt.Sprintf(`{"token":%s,"tid":%q}`, tok, tid))
}

func (g *gen) reset() {
	pats := []string{"m.>", "c.*", ">", "m.a", "q.*", "m.*", "x.>", "m..a", "*", "cid.>", "m.a.>"}
	var rs, as []string
	for i := g.r.intn(3); i > 0; i-- {
		rs = append(rs, pick(g.r, pats))
	}
	for i := g.r.intn(3); i > 0; i-- {
		as = append(as, pick(g.r, pats))
	}
	if g.p.name == "throttle" {
		as = append(as, ">")
	}
	if len(rs)+len(as) == 0 {
		rs = []string{">"}
	}
	b, _ := json.Marshal(map[string][]string{"resources": rs, "access": as})
	g.kinds["reset"]++
	g.w.publish("system.reset", string(b))
}

func (g *gen) tokenReset() {
	// one to three token ids; now and then an empty or null entry, which addresses nobody (a
	// connection without a token id is not "the connection with token id \"\"")
	tids := []interface{}{pick(g.r, []string{"T1", "T2", "T3"})}
	for g.r.chance(1, 3) && len(tids) < 3 {
		switch g.r.intn(4) {
		case 0:
			tids = append(tids, "")
		case 1:
			tids = append(tids, nil)
		default:
			tids = append(tids, pick(g.r, []string{"T1", "T2", "T3"}))
		}
	}
	if g.r.chance(1, 2) {
		tids[0], tids[len(tids)-1] = tids[len(tids)-1], tids[0]
	}
	b, _ := json.Marshal(map[string]interface{}{"tids": tids, "subject": "auth.svc.renew"})
	g.kinds["tokenReset"]++
	g.w.publish("system.tokenReset", string(b))
}

func (g *gen) rawFrame() {
	cs := g.liveClients()
	if len(cs) == 0 {
		return
	}
	c := pick(g.r, cs)
	raw := pick(g.r, []string{`{}`, `[]`, `not json`, `{"id":"x","method":"get.m.a"}`, `{"id":-1,"method":"get.m.a"}`, `{"method":"subscribe.m.a"}`,
		`{"id":1.5,"method":"get.m.a"}`, `null`, `{"id":null,"method":"get.m.a"}`, `"str"`, `{"id":99999,"method":5}`, `{"id":99998}`})
	g.kinds["rawframe"]++
	g.w.rawFrame(c, raw)
}

func (g *gen) step() {
	if g.p.burstPct > 0 && !g.w.noSettle && g.r.chance(g.p.burstPct, 100) {
		g.w.noSettle = true
		for i, n := 0, 2+g.r.intn(3); i < n; i++ {
			// only stimuli whose issuing does not itself need a quiescent gateway
			switch g.r.intn(10) {
			case 0, 1, 2:
				g.clientRequest()
			case 3, 4, 5:
				g.answer()
			case 6, 7:
				g.event()
			case 8:
				g.tokenEvent()
			default:
				g.reset()
			}
		}
		g.w.noSettle = false
		g.w.apply("# burst end", func() {})
		return
	}
	g.step1()
}

func (g *gen) step1() {
	p := g.p
	total := p.wConnect + p.wRequest + p.wAnswer + p.wEvent + p.wToken + p.wReset + p.wDisconnect + p.wEvict + p.wRawFrame + p.wTokenReset + p.wSilent + p.wHTTP
	x := g.r.intn(total)
	switch {
	case x < p.wConnect:
		if len(g.liveClients()) < p.maxClients {
			g.connect()
		} else {
			g.clientRequest()
		}
		return
	}
	x -= p.wConnect
	if x < p.wRequest {
		g.clientRequest()
		return
	}
	x -= p.wRequest
	if x < p.wAnswer {
		g.answer()
		return
	}
	x -= p.wAnswer
	if x < p.wEvent {
		g.event()
		return
	}
	x -= p.wEvent
	if x < p.wToken {
		g.tokenEvent()
		return
	}
	x -= p.wToken
	if x < p.wReset {
		g.reset()
		return
	}
	x -= p.wReset
	if x < p.wDisconnect {
		if cs := g.liveClients(); len(cs) > 0 {
			g.kinds["disconnect"]++
			g.w.disconnect(pick(g.r, cs))
		}
		return
	}
	x -= p.wDisconnect
	if x < p.wEvict {
		g.kinds["evict"]++
		g.w.evict()
		return
	}
	x -= p.wEvict
	if x < p.wRawFrame {
		g.rawFrame()
		return
	}
	x -= p.wRawFrame
	if x < p.wTokenReset {
		g.tokenReset()
		return
	}
	x -= p.wTokenReset
	if x < p.wHTTP {
		g.httpGet()
		return
	}
	g.silent()
}

// limitRun drives the direct subscription count of one resource on one connection to the limit
// (SubscriptionCountLimit) and a little beyond, then takes counts off again: requests refused at
// the limit must leave nothing behind (C08).
func (g *gen) limitRun() {
	cs := g.liveClients()
	if len(cs) == 0 {
		return
	}
	c := cs[0]
	rid := pick(g.r, []string{"m.a", "c.a"})
	g.kinds["limit-run"]++
	g.w.request(c, "subscribe."+rid, "")
	g.drain()
	k := server.SubscriptionCountLimit - 2 + g.r.intn(5) // 254 .. 258 subscribes in total
	for i := 1; i < k && g.w.stall == ""; i++ {
		g.w.request(c, "subscribe."+rid, "")
	}
	g.drain()
	switch g.r.intn(3) {
	case 0:
		g.w.request(c, "get."+rid, "")
	case 1:
		g.w.request(c, "new."+rid, `{"n":1}`)
	}
	g.drain()
	for _, n := range []int{server.SubscriptionCountLimit + 1, server.SubscriptionCountLimit - g.r.intn(3), 1 + g.r.intn(2), 1} {
		g.w.request(c, "unsubscribe."+rid, fmt.Sprintf(`{"count":%d}`, n))
	}
	g.drain()
}

// orderRun: an add event hands a new resource R to the client while R's own references are still
// loading; events on R published meanwhile are queued. When the tree is complete the add event (with
// R's data) must reach the client before any of R's queued events, and those in publish order (C03).
func (g *gen) orderRun() {
	cs := g.liveClients()
	if len(cs) == 0 {
		return
	}
	c := cs[0]
	w := g.w
	g.kinds["order-run"]++
	w.request(c, "subscribe.c.n", "")
	g.drain()
	trc := w.truth.get("c.n", "")
	if trc == nil || trc.deleted || w.stall != "" {
		return
	}
	child := pick(g.r, []string{"m.n1", "m.n2"})
	idx := g.r.intn(len(trc.coll) + 1)
	nc := append([]aval{}, trc.coll[:idx]...)
	nc = append(nc, aval("r:"+child))
	trc.coll = append(nc, trc.coll[idx:]...)
	w.publish("event.c.n.add", fmt.Sprintf(`{"idx":%d,"value":{"rid":%q}}`, idx, child))
	// answer the child's get: its own references start loading
	for _, rq := range w.mq.outstanding() {
		if rq.subject == "get."+child {
			g.answerOne(rq, true)
		}
	}
	// events on the child (and on the parent) while the grandchildren are loading
	trn := w.truth.get(child, "")
	for i, n := 0, 1+g.r.intn(3); i < n && trn != nil; i++ {
		switch g.r.intn(3) {
		case 0:
			trn.seq++
			w.publish("event."+child+".x", fmt.Sprintf(`{"seq":%d}`, trn.seq))
		case 1:
			ev, pl := g.mutate(trn, c)
			w.publish("event."+child+"."+ev, pl)
		default:
			trc.seq++
			w.publish("event.c.n.x", fmt.Sprintf(`{"seq":%d}`, trc.seq))
		}
	}
	// the grandchildren arrive, newest request first
	for round := 0; round < 8; round++ {
		rs := w.mq.outstanding()
		if len(rs) == 0 || w.stall != "" {
			break
		}
		g.answerOne(rs[len(rs)-1], true)
	}
	g.drain()
}

// deleteRun: a resource held both directly and through a parent is deleted, subscribed again
// (possibly after the service re-created it) and then everything is released in some order: nothing
// may stay behind in the connection or in the cache (C09, C11, C02).
func (g *gen) deleteRun() {
	cs := g.liveClients()
	if len(cs) == 0 {
		return
	}
	c := cs[0]
	w := g.w
	g.kinds["delete-run"]++
	parent, child := "m.n1", "m.l1"
	if g.r.chance(1, 2) {
		w.request(c, "subscribe."+child, "")
		w.request(c, "subscribe."+parent, "")
	} else {
		w.request(c, "subscribe."+parent, "")
		w.request(c, "subscribe."+child, "")
	}
	g.drain()
	tr := w.truth.get(child, "")
	if tr == nil || w.stall != "" {
		return
	}
	tr.deleted = true
	w.publish("event."+child+".delete", "")
	if g.r.chance(2, 3) {
		tr.deleted = false // the service created it again
	}
	w.request(c, "subscribe."+child, "")
	if g.r.chance(1, 2) {
		g.drain()
	}
	steps := []string{"unsubscribe." + parent, "unsubscribe." + child, "subscribe." + child, "unsubscribe." + child}
	for i := 0; i < 3; i++ {
		w.request(c, pick(g.r, steps), "")
		if g.r.chance(1, 2) {
			g.drain()
		}
	}
	g.drain()
}

// leaverRun: access re-checks of several connections wait in a reset throttle; the connection whose
// request holds the slot goes away before the answer arrives. The late answer must be absorbed and
// the slot handed on: the others' re-checks are still sent (C11, C19).
func (g *gen) leaverRun() {
	w := g.w
	for len(g.liveClients()) < 3 {
		g.connect()
	}
	cs := g.liveClients()
	if len(cs) < 2 || w.stall != "" {
		return
	}
	g.kinds["leaver-run"]++
	rid := pick(g.r, []string{"m.l6", "m.l7"})
	for _, c := range cs {
		w.request(c, "subscribe."+rid, "")
	}
	g.drain()
	w.publish("system.reset", `{"access":[">"]}`)
	// the connection(s) whose re-check is outstanding leave before the answer
	left := 0
	for _, rq := range w.mq.outstanding() {
		if !strings.HasPrefix(rq.subject, "access.") || left >= 1+g.r.intn(2) {
			continue
		}
		var p struct {
			CID string `json:"cid"`
		}
		json.Unmarshal(rq.payload, &p)
		for _, c := range g.liveClients() {
			if c.cid == p.CID {
				w.disconnect(c)
				left++
			}
		}
	}
	g.drain()
}

// legacyRun: a client that never sent a version request (protocol 1.1.1 encodings) holds a
// collection and a model: add events carrying a soft reference and a data value reach it exactly
// once each (C03), in the legacy encoding (C01), and a model whose property name needs JSON
// quoting is delivered in a response carrying the request's id (C07).
func (g *gen) legacyRun() {
	w := g.w
	c := w.connect()
	if c == nil {
		return
	}
	g.kinds["legacy-run"]++
	w.request(c, "subscribe.c.n", "")
	w.request(c, "subscribe.m.k", "")
	g.drain()
	trc := w.truth.get("c.n", "")
	if trc == nil || trc.deleted || w.stall != "" {
		return
	}
	for _, v := range []aval{"s:m.b", "d4"} {
		idx := g.r.intn(len(trc.coll) + 1)
		nc := append([]aval{}, trc.coll[:idx]...)
		nc = append(nc, v)
		trc.coll = append(nc, trc.coll[idx:]...)
		w.publish("event.c.n.add", fmt.Sprintf(`{"idx":%d,"value":%s}`, idx, v.json()))
		trc.seq++
		w.publish("event.c.n.x", fmt.Sprintf(`{"seq":%d}`, trc.seq))
	}
	g.drain()
}

// resetBurstRun: one cached resource name, but more governed requests than the reset throttle
// allows at once (an access re-validation per subscribing connection, then a re-fetch per query
// variant): never more than `limit` of them may be outstanding (C19), and all must be issued.
func (g *gen) resetBurstRun(limit int) {
	w := g.w
	for len(g.liveClients()) < limit+2 {
		g.connect()
	}
	cs := g.liveClients()
	if len(cs) < limit+2 || w.stall != "" {
		return
	}
	g.kinds["reset-burst-run"]++
	rid := "m.l8"
	for _, c := range cs {
		w.request(c, "subscribe."+rid, "")
	}
	g.drain()
	w.publish("system.reset", `{"access":["m.l8"]}`)
	seen := 0
	waited := 0
	for round := 0; round < 40; round++ {
		var burst []*mockReq
		for _, rq := range w.mq.outstanding() {
			if rq.subject == "access."+rid {
				burst = append(burst, rq)
			}
		}
		if len(burst) > limit {
			w.addViolation("C19", "reset-burst-exceeds-limit", fmt.Sprintf("%d access re-validations of one system reset are outstanding, the reset throttle is %d", len(burst), limit))
		}
		if len(burst) == 0 {
			if seen < len(cs) && waited < 250 && w.stall == "" {
				waited++
				round--
				time.Sleep(2 * time.Millisecond)
				w.apply("# waiting for a throttled request", func() {})
				continue
			}
			break
		}
		waited = 0
		seen++
		g.answerOne(burst[len(burst)-1], true) // newest first
	}
	g.drain()
	if seen != len(cs) && w.stall == "" {
		w.addViolation("C19", "revalidation-never-requested", fmt.Sprintf("only %d of %d subscribing connections were re-validated after the reset", seen, len(cs)))
	}
}

// overlapResetRun: a second system reset (with two patterns matching the same resource) arrives
// while the access re-validations of the first are outstanding or waiting in its throttle. Every
// subscribing connection must be asked again by a request issued after the second reset — the
// first reset's answer may be older than the second reset (C19: all governed requests are
// eventually sent; C06: one re-request per trigger with a verdict that is not stale).
func (g *gen) overlapResetRun() {
	w := g.w
	g.drain()
	cs := g.liveClients()
	if len(cs) == 0 || w.stall != "" {
		return
	}
	g.kinds["overlap-reset-run"]++
	rid := "m.l9"
	for _, c := range cs {
		w.request(c, "subscribe."+rid, "")
	}
	g.drain()
	var subs []*wsClient
	for _, c := range cs {
		if !c.closed && c.ref != nil && c.ref.direct[rid] > 0 {
			subs = append(subs, c)
		}
	}
	if len(subs) == 0 || w.stall != "" {
		return
	}
	w.publish("system.reset", `{"access":["m.l9"]}`)
	mark := w.mq.lastID()
	w.publish("system.reset", `{"access":["m.l9","m.>"]}`)
	// newest first
	for round := 0; round < 200; round++ {
		rs := w.mq.outstanding()
		if len(rs) == 0 || w.stall != "" {
			break
		}
		g.answerOne(rs[len(rs)-1], true)
	}
	g.drain()
	if w.stall != "" {
		return
	}
	asked := map[string]bool{}
	for _, l := range w.mq.fullLog() {
		if l.kind == "req" && l.subject == "access."+rid && l.id > mark {
			var p struct {
				CID string `json:"cid"`
			}
			json.Unmarshal(l.payload, &p)
			asked[p.CID] = true
		}
	}
	for _, c := range subs {
		if !c.closed && c.ref.direct[rid] > 0 && !asked[c.cid] {
			w.addViolation("C19", "revalidation-never-requested", fmt.Sprintf("%s holds %s directly; no access request was issued for it after the second of two overlapping resets", c.name, rid))
			w.addViolation("C06", "revalidation-never-requested", fmt.Sprintf("%s holds %s directly; no access request was issued for it after the second of two overlapping resets", c.name, rid))
		}
	}
}

// resetFailRun: a system reset re-fetches several resources under the reset throttle and some of
// the re-fetches fail (timeout, error): every slot must be handed on, all resources are re-fetched.
func (g *gen) resetFailRun() {
	cs := g.liveClients()
	if len(cs) == 0 {
		return
	}
	c := cs[0]
	w := g.w
	g.kinds["reset-fail-run"]++
	for _, rid := range []string{"m.l6", "m.l7", "m.a", "c.a"} {
		w.request(c, "subscribe."+rid, "")
	}
	g.drain()
	w.publish("system.reset", `{"resources":["m.>","c.*"]}`)
	for round := 0; round < 12; round++ {
		rs := w.mq.outstanding()
		if len(rs) == 0 || w.stall != "" {
			break
		}
		rq := rs[len(rs)-1]
		if strings.HasPrefix(rq.subject, "get.") && round < 3 {
			switch g.r.intn(3) {
			case 0:
				w.answer(rq, "timeout", nil, mq.ErrRequestTimeout)
			case 1:
				w.answer(rq, "err:system.internalError", []byte(errJSON(reserr.CodeInternalError)), nil)
			default:
				w.answer(rq, "noresponders", nil, mq.ErrNoResponders)
			}
			continue
		}
		g.answerOne(rq, true)
	}
	g.drain()
}

// refBurst: one change event adds five uncached references to a model held by one connection.
// All of them are loaded under the subscription's reference throttle: at no moment may more
// than `limit` of their get requests be outstanding (C19), and all must eventually be sent.
func (g *gen) refBurst(limit int) {
	cs := g.liveClients()
	if len(cs) == 0 {
		return
	}
	c := cs[0]
	g.kinds["ref-burst"]++
	g.w.request(c, "subscribe.m.self", "")
	g.drain()
	tr := g.w.truth.get("m.self", "")
	if tr == nil || tr.deleted || g.w.stall != "" {
		return
	}
	leaves := []string{"m.l1", "m.l2", "m.l3", "m.l4", "m.l5"}
	var parts []string
	for i, l := range leaves {
		k := fmt.Sprintf("b%d", i)
		tr.model[k] = aval("r:" + l)
		parts = append(parts, fmt.Sprintf("%q:{\"rid\":%q}", k, l))
	}
	g.w.publish("event.m.self.change", `{"values":{`+strings.Join(parts, ",")+`}}`)
	seen := map[string]bool{}
	waited := 0
	for round := 0; round < 12; round++ {
		var burst []*mockReq
		for _, rq := range g.w.mq.outstanding() {
			for _, l := range leaves {
				if rq.subject == "get."+l {
					burst = append(burst, rq)
					seen[l] = true
				}
			}
		}
		if len(burst) > limit {
			g.w.addViolation("C19", "reference-burst-exceeds-limit", fmt.Sprintf("%d get requests for references added by one event are outstanding, the reference throttle is %d", len(burst), limit))
		}
		if len(burst) == 0 {
			// Throttle.Done starts the next get with `go cb()`: give that goroutine time to run
			// before concluding that a reference is never requested
			if len(seen) < len(leaves) && waited < 250 && g.w.stall == "" {
				waited++
				round--
				time.Sleep(2 * time.Millisecond)
				g.w.apply("# waiting for a throttled request", func() {})
				continue
			}
			break
		}
		waited = 0
		// newest first; now and then the get fails at the messaging level (timeout, no responders):
		// the slot must be handed on all the same
		switch g.r.intn(5) {
		case 0:
			g.w.answer(burst[len(burst)-1], "timeout", nil, mq.ErrRequestTimeout)
		case 1:
			g.w.answer(burst[len(burst)-1], "noresponders", nil, mq.ErrNoResponders)
		default:
			g.answerOne(burst[len(burst)-1], true)
		}
	}
	g.drain()
	if len(seen) != len(leaves) && g.w.stall == "" {
		g.w.addViolation("C19", "reference-never-requested", fmt.Sprintf("only %d of %d references added by one event were ever requested", len(seen), len(leaves)))
	}
}

// refLeaverRun: a connection holds a model to which one change event adds five uncached
// references; they are loaded under its reference throttle. The connection closes while some of
// the get requests still wait for a slot. Whatever the gateway does with the waiting ones, the
// shared cache entries must stay usable: another connection that subscribes to one of those
// references afterwards is served, and at the end of the history everything is released (C11).
func (g *gen) refLeaverRun(limit int) {
	for len(g.liveClients()) < 2 {
		g.connect()
	}
	cs := g.liveClients()
	if len(cs) < 2 || g.w.stall != "" {
		return
	}
	a, b := cs[0], cs[1]
	g.kinds["ref-leaver-run"]++
	g.w.request(a, "subscribe.m.self", "")
	g.drain()
	tr := g.w.truth.get("m.self", "")
	if tr == nil || tr.deleted || g.w.stall != "" || a.closed {
		return
	}
	leaves := []string{"m.l1", "m.l2", "m.l3", "m.l4", "m.l5"}
	var parts []string
	for i, l := range leaves {
		k := fmt.Sprintf("b%d", i)
		tr.model[k] = aval("r:" + l)
		parts = append(parts, fmt.Sprintf("%q:{\"rid\":%q}", k, l))
	}
	g.w.publish("event.m.self.change", `{"values":{`+strings.Join(parts, ",")+`}}`)
	// some of the gets are out, the others wait: the holder leaves
	requested := map[string]bool{}
	for _, rq := range g.w.mq.outstanding() {
		if strings.HasPrefix(rq.subject, "get.m.l") {
			requested[strings.TrimPrefix(rq.subject, "get.")] = true
		}
	}
	g.w.disconnect(a)
	g.drain()
	// somebody else asks for a reference whose get was still waiting when the holder left
	var target string
	for _, l := range leaves {
		if !requested[l] {
			target = l
			break
		}
	}
	if target == "" || g.w.stall != "" || b.closed {
		return
	}
	id := g.w.request(b, "subscribe."+target, "")
	g.drain()
	if g.w.stall != "" || b.closed {
		return
	}
	if _, open := b.ref.pending[id]; open {
		g.w.addViolation("C11", "starved-after-disconnect", fmt.Sprintf("subscribe.%s of another connection is never answered after the connection that had its get request waiting in a reference throttle (limit %d) was closed", target, limit))
	}
}

// drain answers every outstanding request (grants, current state) until none is left.
func (g *gen) drain() {
	waited := 0
	for i := 0; i < 400; i++ {
		reqs := g.w.mq.outstanding()
		if g.w.stall != "" {
			return
		}
		if len(reqs) == 0 {
			// Throttle.Done starts the next waiting callback with `go cb()`: between the answer
			// that freed the slot and the request of the next callback the gateway looks idle. If a
			// subscription still waits for an access answer, give that goroutine time to run.
			if (g.w.cfg.referenceThrottle > 0 || g.w.cfg.resetThrottle > 0) && waited < 250 && (g.w.accessCheckWaiting() || (g.w.cfg.resetThrottle > 0 && g.w.refetchWaiting())) {
				waited++
				time.Sleep(2 * time.Millisecond)
				g.w.apply("# waiting for a throttled request", func() {})
				continue
			}
			return
		}
		waited = 0
		g.answerOne(reqs[0], true)
	}
	g.w.addViolation("C19", "drain-does-not-end", "requests keep being issued although every request is answered")
}

type historyResult struct {
	Seed    uint64         `json:"seed"`
	Profile string         `json:"profile"`
	Index   int            `json:"index"`
	Steps   []stepRec      `json:"steps,omitempty"`
	Viols   []violation    `json:"violations"`
	Kinds   map[string]int `json:"-"`
	NSteps  int            `json:"nsteps"`
	RefThr  int            `json:"refThrottle"`
	RstThr  int            `json:"resetThrottle"`
	Flat    bool           `json:"flat"`
	HAuth   bool           `json:"hauth,omitempty"`
	Mutated bool           `json:"mutated,omitempty"`
}

// runHistory generates and runs one history.
func runHistory(p profile, seed uint64, index int, keepSteps bool, wantSnap bool) *historyResult {
	r := newRng(seed*1000003 + uint64(index)*7919 + 17)
	u := stdUniverse()
	cfg := worldCfg{referenceThrottle: pick(r, p.refThrottle), resetThrottle: pick(r, p.rstThrottle), metrics: true, flat: r.chance(1, 3)}
	if p.wHTTP > 0 && p.hauthPct > 0 && int(r.next()%100) < p.hauthPct {
		cfg.hauth = true
	}
	w, err := newWorld(cfg, u)
	hr := &historyResult{Seed: seed, Profile: p.name, Index: index, RefThr: cfg.referenceThrottle, RstThr: cfg.resetThrottle, Flat: cfg.flat, HAuth: cfg.hauth}
	if err != nil {
		hr.Viols = []violation{{Prop: "C20", Key: "start-failed", What: err.Error()}}
		return hr
	}
	w.wantSnap = wantSnap
	if p.mutatePct > 0 {
		w.mutatePct = p.mutatePct
		w.mrng = newRng(seed*7777 + uint64(index)*31 + 5)
	}
	if crashLog != nil {
		crashLog.Truncate(0)
		crashLog.Seek(0, 0)
		fmt.Fprintf(crashLog, "# profile=%s seed=%d history=%d\n# config referenceThrottle=%d resetThrottle=%d flat=%s hauth=%s\n", p.name, seed, index, cfg.referenceThrottle, cfg.resetThrottle, b2s(cfg.flat), b2s(cfg.hauth))
	}
	g := &gen{r: r, w: w, p: p, u: u, kinds: map[string]int{}}
	g.pqVariant = r.next() % 3
	w.steps = append(w.steps, stepRec{Stim: fmt.Sprintf("# config referenceThrottle=%d resetThrottle=%d flat=%s hauth=%s", cfg.referenceThrottle, cfg.resetThrottle, b2s(cfg.flat), b2s(cfg.hauth))})
	g.connect()
	if p.limitRunPct > 0 && int(r.next()%100) < p.limitRunPct {
		g.limitRun()
	}
	if p.name == "order" && r.chance(1, 5) {
		g.orderRun()
	}
	if (p.name == "refs" || p.name == "mixed") && r.chance(1, 5) {
		g.legacyRun()
	}
	if p.name == "churn" && r.chance(1, 6) {
		g.deleteRun()
	}
	if p.name == "throttle" && cfg.resetThrottle > 0 && r.chance(1, 4) {
		g.resetBurstRun(cfg.resetThrottle)
	}
	if p.name == "throttle" && cfg.resetThrottle > 0 && r.chance(1, 5) {
		g.leaverRun()
	}
	if p.name == "throttle" && cfg.resetThrottle > 0 && r.chance(1, 5) {
		g.resetFailRun()
	}
	if p.name == "throttle" && cfg.referenceThrottle > 0 && r.chance(1, 4) {
		g.refBurst(cfg.referenceThrottle)
	} else if p.name == "throttle" && cfg.referenceThrottle > 0 && newRng(seed*613+uint64(index)*89+3).chance(1, 3) {
		// (whether it runs is decided by a generator of its own)
		g.refLeaverRun(cfg.referenceThrottle)
	}
	for i := 0; i < p.steps && w.stall == ""; i++ {
		g.step()
	}
	// (decided by a generator of its own, so that the random part above is the same with and
	// without this scripted tail)
	if p.name == "throttle" && cfg.resetThrottle > 0 && w.stall == "" && newRng(seed*977+uint64(index)*131+7).chance(1, 3) {
		g.overlapResetRun()
	}
	// phase 2: drain, universal reset, drain, check
	g.drain()
	if len(g.liveClients()) > 0 {
		w.publish("system.reset", `{"resources":[">"]}`)
		g.drain()
		// every cached resource has just been re-fetched and answered with the current state
		w.cacheFresh = true
	}
	w.steps = append(w.steps, stepRec{Stim: "# end of history: quiescent, every request answered"})
	if crashLog != nil {
		crashLog.WriteString("# end of history: quiescent, every request answered\n")
	}
	w.finalChecks()
	// phase 3: everybody leaves
	for _, c := range g.liveClients() {
		w.disconnect(c)
	}
	g.drain()
	w.evict()
	g.drain()
	w.evict()
	w.steps = append(w.steps, stepRec{Stim: "# all clients gone, evictions flushed"})
	if crashLog != nil {
		crashLog.WriteString("# all clients gone, evictions flushed\n")
	}
	w.drainedChecks()
	w.close()
	hr.Viols = w.viols
	if w.mutated {
		// the truth and the monitors do not know what a mutated message meant
		hr.Mutated = true
		hr.Viols = nil
		for _, v := range w.viols {
			if v.Prop == "C15" {
				hr.Viols = append(hr.Viols, v)
			}
		}
	}
	if w.concurrent {
		// interleavings inside a burst are the gateway's own: only checks that do not depend on a
		// particular order apply (crash, stall, frames, every request answered once, per-resource
		// event order, everything released at the end)
		hr.Mutated = true // (not compared with the model)
		keep := map[string]bool{"C15": true, "C07": true, "C09": true}
		var vs []violation
		for _, v := range hr.Viols {
			if keep[v.Prop] || (v.Prop == "C03" && v.Key == "event-duplicate-or-reordered") || (v.Prop == "C11" && strings.HasPrefix(v.Key, "entry")) {
				vs = append(vs, v)
			}
		}
		hr.Viols = vs
	}
	hr.Kinds = g.kinds
	hr.NSteps = len(w.steps)
	if keepSteps || len(w.viols) > 0 {
		hr.Steps = w.steps
	}
	return hr
}
