package main

import (
	"bufio"
	"encoding/hex"
	"fmt"
	"os"
	"strconv"
	"strings"

	"github.com/resgateio/resgate/server/mq"
)

// absContentJSON turns "m{k=v,...}" / "c[v,...]" into the JSON of a get result body.
func absContentJSON(c string) string {
	kind, body := c[0], c[2:len(c)-1]
	if kind == 'm' {
		var parts []string
		if body != "" {
			for _, kv := range strings.Split(body, ",") {
				k, v, _ := strings.Cut(kv, "=")
				parts = append(parts, fmt.Sprintf("%q:%s", k, aval(v).json()))
			}
		}
		return `"model":{` + strings.Join(parts, ",") + `}`
	}
	var parts []string
	if body != "" {
		for _, v := range strings.Split(body, ",") {
			parts = append(parts, aval(v).json())
		}
	}
	return `"collection":[` + strings.Join(parts, ",") + `]`
}

// labelToResponse rebuilds the service response a label of a recorded trace stands for.
func labelToResponse(label string) ([]byte, error) {
	switch {
	case strings.HasPrefix(label, "access:"):
		kv := label[7:]
		get := strings.HasPrefix(kv, "get=1")
		call := ""
		if i := strings.Index(kv, "call="); i >= 0 {
			call = kv[i+5:]
		}
		return []byte(fmt.Sprintf(`{"result":{"get":%v,"call":%q}}`, get, call)), nil
	case strings.HasPrefix(label, "err:"):
		return []byte(errJSON(label[4:])), nil
	case label == "timeout":
		return nil, mq.ErrRequestTimeout
	case label == "noresponders":
		return nil, mq.ErrNoResponders
	case label == "missing-result":
		return []byte(`{}`), nil
	case strings.HasPrefix(label, "malformed:"):
		b, _ := hex.DecodeString(label[10:])
		return b, nil
	case strings.HasPrefix(label, "ok:"):
		i := strings.LastIndex(label, ":q=")
		q := label[i+3:]
		qs := ""
		if q != "" {
			qs = fmt.Sprintf(`,"query":%q`, q)
		}
		return []byte(`{"result":{` + absContentJSON(label[3:i]) + qs + `}}`), nil
	case strings.HasPrefix(label, "result:p"):
		return []byte(`{"result":` + label[8:] + `}`), nil
	case strings.HasPrefix(label, "resource:"):
		return []byte(fmt.Sprintf(`{"resource":{"rid":%q}}`, label[9:])), nil
	case strings.HasPrefix(label, "qevents:"):
		return []byte(`{"result":{"events":[]}}`), nil
	case strings.HasPrefix(label, "qfull:"):
		return []byte(`{"result":{` + absContentJSON(label[6:]) + `}}`), nil
	}
	return []byte(`{}`), nil
}

// runReplay replays a recorded history (trace-format stimuli, one per line) on the real gateway.
func runReplay(path string, wantSnap bool) (*historyResult, error) {
	f, err := os.Open(path)
	if err != nil {
		return nil, err
	}
	defer f.Close()
	var lines []string
	sc := bufio.NewScanner(f)
	sc.Buffer(make([]byte, 1<<22), 1<<22)
	for sc.Scan() {
		lines = append(lines, strings.TrimSpace(sc.Text()))
	}
	cfg := worldCfg{metrics: true}
	for _, l := range lines {
		if strings.HasPrefix(l, "# config") {
			for _, kv := range strings.Fields(l)[2:] {
				k, v, _ := strings.Cut(kv, "=")
				n, _ := strconv.Atoi(v)
				if k == "referenceThrottle" {
					cfg.referenceThrottle = n
				}
				if k == "resetThrottle" {
					cfg.resetThrottle = n
				}
				if k == "flat" {
					cfg.flat = n == 1
				}
				if k == "hauth" {
					cfg.hauth = n == 1
				}
			}
		}
	}
	u := stdUniverse()
	w, err := newWorld(cfg, u)
	if err != nil {
		return nil, err
	}
	w.wantSnap = wantSnap
	hr := &historyResult{Profile: "replay", RefThr: cfg.referenceThrottle, RstThr: cfg.resetThrottle, Flat: cfg.flat, HAuth: cfg.hauth}
	client := func(name string) *wsClient {
		for _, c := range w.clients {
			if c.name == name {
				return c
			}
		}
		return nil
	}
	realSubject := func(s string) string {
		for cid, n := range w.cidName {
			s = strings.ReplaceAll(s, "."+n+".", "."+cid+".")
			if strings.HasSuffix(s, "."+n) {
				s = s[:len(s)-len(n)] + cid
			}
		}
		return s
	}
	for _, l := range lines {
		if l == "" || strings.HasPrefix(l, "#") {
			if strings.HasPrefix(l, "# end of history") {
				w.finalChecksNoTruth()
			}
			if strings.HasPrefix(l, "# all clients gone") {
				w.drainedChecks()
			}
			continue
		}
		p := strings.Fields(l)
		switch p[0] {
		case "connect":
			w.connect()
		case "frame":
			c := client(p[1])
			if c == nil {
				return nil, fmt.Errorf("no client %s", p[1])
			}
			method := p[3]
			if strings.HasPrefix(method, "hex:") {
				b, _ := hex.DecodeString(strings.TrimPrefix(method[4:], "-"))
				method = string(b)
			}
			params := p[4]
			if params == "-" {
				params = ""
			}
			if id, _ := strconv.Atoi(p[2]); id > 0 {
				c.nextID = uint64(id)
			}
			w.request(c, method, params)
		case "rawframe":
			b, _ := hex.DecodeString(strings.TrimPrefix(p[2], "-"))
			w.rawFrame(client(p[1]), string(b))
		case "disconnect":
			w.disconnect(client(p[1]))
		case "http":
			// http hN GET|HEAD <rid> | http hN POST <rid> <action> <params> | http hN GET404|POST404
			ridPath := func(rid string) (string, string) {
				name, query := rid, ""
				if i := strings.IndexByte(rid, '?'); i >= 0 {
					name, query = rid[:i], rid[i+1:]
				}
				return "/api/" + strings.ReplaceAll(name, ".", "/"), query
			}
			switch {
			case len(p) > 4 && p[2] == "PUT":
				path, query := ridPath(p[3])
				body := strings.Join(p[4:], " ")
				if body == "-" {
					body = ""
				}
				w.httpDo("PUT", path, query, body)
			case len(p) > 2 && p[2] == "DELETE405":
				w.httpDo("DELETE", "/api/m/a", "", "")
			case len(p) > 5 && p[2] == "POST":
				path, query := ridPath(p[3])
				body := strings.Join(p[5:], " ")
				if body == "-" {
					body = ""
				}
				w.httpDo("POST", path+"/"+p[4], query, body)
			case len(p) > 3:
				path, query := ridPath(p[3])
				w.httpDo(p[2], path, query, "")
			case len(p) > 2 && p[2] == "POST404":
				w.httpDo("POST", "/api/m/a/", "", "")
			default:
				w.httpGet("/api/m/a/", "")
			}
		case "evict":
			w.evict()
		case "answer":
			occ := 0
			if len(p) > 4 {
				occ, _ = strconv.Atoi(strings.TrimPrefix(p[4], "#"))
			}
			var req *mockReq
			k := 0
			for _, r := range w.mq.outstanding() {
				if w.absSubject(r.subject) == p[1] && w.absSubject(absPayload(r.subject, r.payload, w.cname)) == p[2] {
					if k == occ {
						req = r
						break
					}
					k++
				}
			}
			if req == nil {
				w.steps = append(w.steps, stepRec{Stim: "# replay diverged: no outstanding request for: " + l})
				hr.Viols = append(w.viols, violation{Prop: "replay", Key: "diverged", What: "no outstanding request for: " + l})
				hr.Steps = w.steps
				w.close()
				return hr, nil
			}
			data, e := labelToResponse(p[3])
			w.answer(req, p[3], data, e)
		case "event":
			payload := ""
			if len(p) > 3 && p[3] != "-" {
				payload = strings.Join(p[3:], " ")
			}
			subj := realSubject(p[1])
			w.scriptMutate(subj, payload)
			w.publish(subj, payload)
		default:
			return nil, fmt.Errorf("unknown stimulus: %s", l)
		}
	}
	w.close()
	hr.Viols = w.viols
	hr.Steps = w.steps
	hr.NSteps = len(w.steps)
	return hr, nil
}

// finalChecksNoTruth: the end-of-history checks that do not need the simulated service's state.
func (w *world) finalChecksNoTruth() {
	if len(w.mq.outstanding()) > 0 {
		return // not quiescent: a shortened replay left requests unanswered
	}
	saved := w.truth
	w.truth = newTruth(&universe{})
	w.finalChecks()
	w.truth = saved
}
