package main

import (
	"context"
	"fmt"
	"net/http"
	"net/http/httptest"
	"strings"
	"time"

	"github.com/gorilla/websocket"
	"github.com/posener/wstest"
	"github.com/resgateio/resgate/server"
	"github.com/resgateio/resgate/server/reserr"
)

// suiteSvc drives the real Service through Start / Stop / connection-loss / connect / HTTP words
// and compares with the Svc state machine of the model. After every stop it checks that every
// client socket was closed and that the stop channel carried the cause.
func suiteSvc(tier string, r *rng) func(emit func(pureCase)) {
	maxLen := 5
	nRand := 60
	if tier == "thorough" {
		maxLen = 6
		nRand = 600
	}
	alpha := []string{"start", "stop", "closed", "conn", "http"}
	return func(emit func(pureCase)) {
		var one func(word []string)
		oneR := func(word []string, race bool) {
			m := newMockMQ()
			cfg := server.Config{NoHTTP: true}
			cfg.SetDefault()
			serv, err := server.NewService(m, cfg)
			if err != nil {
				emit(pureCase{line: "svc " + strings.Join(word, " "), impl: "newservice-failed", specErr: err.Error(), class: "error"})
				return
			}
			serv.SetLogger(&memLogger{})
			type cl struct {
				ws   *websocket.Conn
				done chan struct{}
			}
			var clients []*cl
			var outs []string
			specErr := ""
			var stopCh <-chan error
			for _, op := range word {
				switch op {
				case "start":
					was := serv.StopChannel() != nil
					if err := serv.Start(); err != nil {
						outs = append(outs, "startRefused")
					} else if was {
						outs = append(outs, "startNoop")
					} else {
						outs = append(outs, "started")
						stopCh = serv.StopChannel()
					}
				case "stop", "closed":
					running := serv.StopChannel() != nil
					var cause error
					t0 := time.Now()
					if op == "stop" {
						serv.Stop(nil)
					} else if m.closedH != nil {
						cause = fmt.Errorf("lost")
						m.closedH(cause)
					} else {
						serv.Stop(fmt.Errorf("lost"))
						cause = fmt.Errorf("lost")
					}
					if !running {
						outs = append(outs, "stopNoop")
						break
					}
					if time.Since(t0) > 12*time.Second {
						specErr = "Stop took longer than its bounded timeouts"
					}
					// every client socket must have been closed
					closed := 0
					for _, c := range clients {
						select {
						case <-c.done:
							closed++
						case <-time.After(2 * time.Second):
							specErr = "a client WebSocket was still open after Stop returned"
						}
					}
					clients = nil
					got := "none"
					select {
					case e, ok := <-stopCh:
						if !ok {
							got = "closed-without-value"
						} else if e == nil {
							got = "nil"
						} else {
							got = e.Error()
						}
					case <-time.After(time.Second):
					}
					want := "nil"
					if cause != nil {
						want = "lost"
					}
					if got != want {
						specErr = fmt.Sprintf("stop channel carried %q, the cause was %q", got, want)
					}
					if serv.StopChannel() != nil {
						specErr = "service still reports running after Stop"
					}
					outs = append(outs, fmt.Sprintf("stopped:%s:closed=%d", want, closed))
				case "conn":
					d := wstest.NewDialer(serv.GetWSHandlerFunc())
					// a refused upgrade returns from the handler without writing; the in-memory
					// dialer then waits for a response that never comes: bound the wait
					ctx, cancel := context.WithTimeout(context.Background(), 150*time.Millisecond)
					ws, _, err := d.DialContext(ctx, "ws://example.org/", http.Header{})
					cancel()
					if err != nil {
						outs = append(outs, "refused")
						break
					}
					c := &cl{ws: ws, done: make(chan struct{})}
					go func() {
						for {
							if _, _, err := ws.ReadMessage(); err != nil {
								break
							}
						}
						close(c.done)
					}()
					clients = append(clients, c)
					outs = append(outs, "connected")
					if !race {
						// let the server side finish the upgrade (it registers the socket after
						// the client has seen the response); the race itself is case "connrace"
						time.Sleep(3 * time.Millisecond)
					}
				case "http":
					rec := httptest.NewRecorder()
					req := httptest.NewRequest("GET", "http://example.org/api/m/a", nil)
					done := make(chan struct{})
					go func() { serv.ServeHTTP(rec, req); close(done) }()
					deadline := time.Now().Add(3 * time.Second)
				wait:
					for time.Now().Before(deadline) {
						select {
						case <-done:
							break wait
						default:
						}
						for _, rq := range m.outstanding() {
							if strings.HasPrefix(rq.subject, "access.") {
								m.take(rq.id)
								rq.cb(rq.subject, []byte(errJSON(reserr.CodeAccessDenied)), nil)
							}
						}
						time.Sleep(50 * time.Microsecond)
					}
					select {
					case <-done:
						outs = append(outs, fmt.Sprint(rec.Code))
					default:
						outs = append(outs, "http-hang")
						specErr = "HTTP request neither served nor refused"
					}
				}
			}
			serv.Stop(nil)
			key := ""
			if race && specErr != "" {
				key = "socket-survives-stop-during-upgrade"
			}
			emit(pureCase{line: "svc " + strings.Join(word, " "), impl: strings.Join(outs, " "), specErr: specErr, key: key, noModel: race,
				class: fmt.Sprintf("len=%d race=%v", len(word), race), trivial: len(word) < 2})
		}
		one = func(word []string) { oneR(word, false) }
		// Stop racing the end of an upgrade (known finding D20)
		oneR([]string{"start", "conn", "stop"}, true)
		var rec func(cur []string, n int)
		rec = func(cur []string, n int) {
			if len(cur) > 0 {
				one(append([]string(nil), cur...))
			}
			if n == 0 {
				return
			}
			for _, a := range alpha {
				// prune: keep words short but meaningful (always begin with start or a refused op)
				rec(append(cur, a), n-1)
			}
		}
		if tier == "thorough" {
			rec(nil, 4)
		} else {
			rec(nil, 3)
		}
		for i := 0; i < nRand; i++ {
			n := 2 + r.intn(maxLen+3)
			w := make([]string, n)
			for j := range w {
				w[j] = alpha[r.intn(len(alpha))]
				if j == 0 && r.chance(3, 4) {
					w[j] = "start"
				}
			}
			one(w)
		}
	}
}
