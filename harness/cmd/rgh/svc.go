package main

import (
	"context"
	"fmt"
	"net/http"
	"net/http/httptest"
	"strings"
	"time"

	"github.com/gorilla/websocket"
	"github.com/posener/wstest"
	"github.com/resgateio/resgate/server"
	"github.com/resgateio/resgate/server/reserr"
)

// suiteSvc drives the real Service through Start / Stop / connection-loss / connect / HTTP words
// and compares with the Svc state machine of the model. After every stop it checks that every
// client socket was closed and that the stop channel carried the cause.
func suiteSvc(tier string, r *rng) func(emit func(pureCase)) {
	maxLen := 5
	nRand := 60
	if tier == "thorough" {
		maxLen = 6
		nRand = 600
	}
	base := []string{"start", "stop", "closed", "conn", "http"}
	alpha := append(append([]string{}, base...), "stopc", "stoph")
	return func(emit func(pureCase)) {
		var one func(word []string)
		oneR := func(word []string, race bool) {
			if svcAbort {
				return
			}
			m := newMockMQ()
			cfg := server.Config{NoHTTP: true}
			cfg.SetDefault()
			serv, err := server.NewService(m, cfg)
			if err != nil {
				emit(pureCase{line: "svc " + strings.Join(word, " "), impl: "newservice-failed", specErr: err.Error(), class: "error"})
				return
			}
			serv.SetLogger(&memLogger{})
			type cl struct {
				ws   *websocket.Conn
				done chan struct{}
			}
			var clients []*cl
			var outs []string
			specErr := ""
			var stopCh <-chan error
			doConn := func() {
				d := wstest.NewDialer(serv.GetWSHandlerFunc())
				// a refused upgrade returns from the handler without writing; the in-memory
				// dialer then waits for a response that never comes: bound the wait
				ctx, cancel := context.WithTimeout(context.Background(), 150*time.Millisecond)
				ws, _, err := d.DialContext(ctx, "ws://example.org/", http.Header{})
				cancel()
				if err != nil {
					outs = append(outs, "refused")
					return
				}
				c := &cl{ws: ws, done: make(chan struct{})}
				go func() {
					for {
						if _, _, err := ws.ReadMessage(); err != nil {
							break
						}
					}
					close(c.done)
				}()
				clients = append(clients, c)
				outs = append(outs, "connected")
			}
			doHTTP := func() {
				rec := httptest.NewRecorder()
				req := httptest.NewRequest("GET", "http://example.org/api/m/a", nil)
				done := make(chan struct{})
				go func() { serv.ServeHTTP(rec, req); close(done) }()
				deadline := time.Now().Add(3 * time.Second)
			wait:
				for time.Now().Before(deadline) {
					select {
					case <-done:
						break wait
					default:
					}
					for _, rq := range m.outstanding() {
						if strings.HasPrefix(rq.subject, "access.") {
							m.take(rq.id)
							rq.cb(rq.subject, []byte(errJSON(reserr.CodeAccessDenied)), nil)
						}
					}
					time.Sleep(50 * time.Microsecond)
				}
				select {
				case <-done:
					outs = append(outs, fmt.Sprint(rec.Code))
				default:
					outs = append(outs, "http-hang")
					specErr = "HTTP request neither served nor refused"
				}
			}
			for _, op := range word {
				switch op {
				case "start":
					was := serv.StopChannel() != nil
					if err := serv.Start(); err != nil {
						outs = append(outs, "startRefused")
					} else if was {
						outs = append(outs, "startNoop")
					} else {
						outs = append(outs, "started")
						stopCh = serv.StopChannel()
					}
				case "stop", "closed", "stopc", "stoph":
					running := serv.StopChannel() != nil
					var cause error
					t0 := time.Now()
					if op == "stopc" || op == "stoph" {
						// hold Stop between closing the sockets and finishing: whatever arrives
						// in that window must be refused
						attempt := doConn
						if op == "stoph" {
							attempt = doHTTP
						}
						if !running {
							stopB(serv, nil)
							attempt()
						} else {
							m.closeGate = make(chan struct{})
							m.closeEntered = make(chan struct{}, 1)
							stopped := make(chan struct{})
							go func() { serv.Stop(nil); close(stopped) }()
							select {
							case <-m.closeEntered:
								attempt()
							case <-stopped:
								specErr = "Stop did not close the messaging client"
							case <-time.After(12 * time.Second):
								specErr = "Stop did not reach the messaging client within its bounded timeouts"
							}
							close(m.closeGate)
							<-stopped
							m.closeGate = nil
						}
					} else {
						// Stop (or the closed handler, which calls it) must return on its own: nobody
						// is reading the stop channel at this moment
						fn := func() { serv.Stop(nil) }
						if op != "stop" {
							cause = fmt.Errorf("lost")
							if m.closedH != nil {
								fn = func() { m.lose(cause) }
							} else {
								fn = func() { serv.Stop(cause) }
							}
						}
						returned := make(chan struct{})
						go func() { fn(); close(returned) }()
						select {
						case <-returned:
						case <-time.After(8 * time.Second):
							svcAbort = true
							emit(pureCase{line: "svc " + strings.Join(word, " "), impl: "stop-hangs", noModel: true, class: "hang",
								specErr: "Stop did not return within 8 s although nothing was in flight (does it wait for a reader of the stop channel?)"})
							return
						}
					}
					if !running {
						outs = append(outs, "stopNoop")
						break
					}
					if time.Since(t0) > 12*time.Second {
						specErr = "Stop took longer than its bounded timeouts"
					}
					// every client socket must have been closed
					closed := 0
					for _, c := range clients {
						select {
						case <-c.done:
							closed++
						case <-time.After(2 * time.Second):
							specErr = "a client WebSocket was still open after Stop returned"
						}
					}
					clients = nil
					got := "none"
					select {
					case e, ok := <-stopCh:
						if !ok {
							got = "closed-without-value"
						} else if e == nil {
							got = "nil"
						} else {
							got = e.Error()
						}
					case <-time.After(time.Second):
					}
					want := "nil"
					if cause != nil {
						want = "lost"
					}
					if got != want {
						specErr = fmt.Sprintf("stop channel carried %q, the cause was %q", got, want)
					}
					if serv.StopChannel() != nil {
						specErr = "service still reports running after Stop"
					}
					outs = append(outs, fmt.Sprintf("stopped:%s:closed=%d", want, closed))
				case "conn":
					doConn()
					if !race {
						// let the server side finish the upgrade (it registers the socket after
						// the client has seen the response); the race itself is case "connrace"
						time.Sleep(3 * time.Millisecond)
					}
				case "http":
					doHTTP()
				}
			}
			stopB(serv, nil)
			key := ""
			if race && specErr != "" {
				key = "socket-survives-stop-during-upgrade"
			}
			emit(pureCase{line: "svc " + strings.Join(word, " "), impl: strings.Join(outs, " "), specErr: specErr, key: key, noModel: race,
				class: fmt.Sprintf("len=%d race=%v", len(word), race), trivial: len(word) < 2})
		}
		one = func(word []string) { oneR(word, false) }
		// Start/Stop repeated: a restarted service must not serve what the previous run cached
		for _, how := range []string{"stop", "closed"} {
			emit(restartCase(how))
			emit(stalledCase(how))
		}
		emit(restartCase("slowclose"))
		// Stop racing the end of an upgrade (known finding D20)
		oneR([]string{"start", "conn", "stop"}, true)
		var rec func(cur []string, n int)
		rec = func(cur []string, n int) {
			if len(cur) > 0 {
				one(append([]string(nil), cur...))
			}
			if n == 0 {
				return
			}
			for _, a := range base {
				// prune: keep words short but meaningful (always begin with start or a refused op)
				rec(append(cur, a), n-1)
			}
		}
		if tier == "thorough" {
			rec(nil, 4)
		} else {
			rec(nil, 3)
		}
		// requests arriving while Stop is between its two locked sections
		for _, pre := range [][]string{{}, {"conn"}, {"conn", "conn"}, {"http"}} {
			for _, sx := range []string{"stopc", "stoph"} {
				for _, tail := range [][]string{{}, {"conn"}, {"http"}, {"start"}, {"start", "conn"}} {
					w := append([]string{"start"}, pre...)
					w = append(w, sx)
					one(append(w, tail...))
				}
			}
		}
		for i := 0; i < nRand; i++ {
			n := 2 + r.intn(maxLen+3)
			w := make([]string, n)
			for j := range w {
				w[j] = alpha[r.intn(len(alpha))]
				if j == 0 && r.chance(3, 4) {
					w[j] = "start"
				}
			}
			one(w)
		}
	}
}

// stopB runs Stop with a bound: a Stop that never returns (for example because it waits for a
// reader of the stop channel) must show as a violation, not as a hang of the harness.
var svcAbort bool // a Stop hung: the remaining cases of the suite are skipped

func stopB(serv *server.Service, cause error) bool {
	if svcAbort {
		return false
	}
	returned := make(chan struct{})
	go func() { serv.Stop(cause); close(returned) }()
	select {
	case <-returned:
		return true
	case <-time.After(8 * time.Second):
		svcAbort = true
		return false
	}
}

const stopHangs = "Stop did not return within 8 s although nothing was in flight (does it wait for a reader of the stop channel?)"

// stalledCase: a client sends a request and then stops reading, so the gateway's write to it
// blocks (the in-memory pipe has no buffer). Stop or connection loss must still close that socket
// and finish well inside the bounded timeouts; afterwards the client can read nothing any more.
func stalledCase(how string) pureCase {
	pc := pureCase{line: "svc-stalled " + how, noModel: true, class: "stalled"}
	if svcAbort {
		pc.impl = "skipped"
		return pc
	}
	m := newMockMQ()
	cfg := server.Config{NoHTTP: true}
	cfg.SetDefault()
	serv, err := server.NewService(m, cfg)
	if err != nil {
		pc.specErr = err.Error()
		return pc
	}
	serv.SetLogger(&memLogger{})
	if err := serv.Start(); err != nil {
		pc.specErr = err.Error()
		return pc
	}
	d := wstest.NewDialer(serv.GetWSHandlerFunc())
	ctx, cancel := context.WithTimeout(context.Background(), time.Second)
	ws, _, err := d.DialContext(ctx, "ws://example.org/", http.Header{})
	cancel()
	if err != nil {
		pc.impl = "connect-refused"
		pc.specErr = "connect refused on a running service"
		stopB(serv, nil)
		return pc
	}
	defer ws.Close()
	ws.WriteMessage(websocket.TextMessage, []byte(`{"id":1,"method":"version","params":{"protocol":"1.2.3"}}`))
	ws.WriteMessage(websocket.TextMessage, []byte(`{"id":2,"method":"version","params":{"protocol":"1.2.3"}}`))
	time.Sleep(20 * time.Millisecond) // the worker is now blocked writing the first response
	t0 := time.Now()
	done := make(chan struct{})
	go func() {
		if how == "stop" {
			stopB(serv, nil)
		} else {
			m.lose(fmt.Errorf("lost"))
		}
		close(done)
	}()
	select {
	case <-done:
	case <-time.After(10 * time.Second):
		pc.impl = "stop-hangs"
		pc.specErr = "Stop did not return within 10 s with a client that does not read"
		return pc
	}
	took := time.Since(t0)
	// after Stop returned the socket must be closed: nothing more can be read from the gateway
	ws.SetReadDeadline(time.Now().Add(500 * time.Millisecond))
	_, b, rerr := ws.ReadMessage()
	pc.impl = "stopped"
	switch {
	case rerr == nil:
		pc.specErr = fmt.Sprintf("after %s returned the client that had stopped reading still received %q: its socket was not closed", how, string(b))
	case took > 2*time.Second:
		pc.specErr = fmt.Sprintf("%s took %v with one client that does not read (it waited for a timeout instead of closing the socket)", how, took.Round(time.Millisecond))
	}
	return pc
}

// restartCase: a client loads a resource, the service stops (Stop or connection loss) and is
// started again; a client of the second run must be served from the services (get request, event
// subscription on the new messaging connection), not from the cache of the first run.
func restartCase(how string) pureCase {
	pc := pureCase{line: "svc-restart " + how, noModel: true, class: "restart"}
	if svcAbort {
		pc.impl = "skipped"
		return pc
	}
	m := newMockMQ()
	cfg := server.Config{NoHTTP: true}
	cfg.SetDefault()
	serv, err := server.NewService(m, cfg)
	if err != nil {
		pc.specErr = err.Error()
		return pc
	}
	serv.SetLogger(&memLogger{})
	rev := 1
	subscribeOnce := func() (string, []string) {
		d := wstest.NewDialer(serv.GetWSHandlerFunc())
		ctx, cancel := context.WithTimeout(context.Background(), time.Second)
		ws, _, err := d.DialContext(ctx, "ws://example.org/", http.Header{})
		cancel()
		if err != nil {
			return "connect-refused", nil
		}
		frames := make(chan string, 16)
		go func() {
			for {
				_, b, err := ws.ReadMessage()
				if err != nil {
					close(frames)
					return
				}
				frames <- string(b)
			}
		}()
		m.drainLog()
		ws.WriteMessage(websocket.TextMessage, []byte(`{"id":1,"method":"subscribe.m.a"}`))
		var seen []string
		deadline := time.Now().Add(3 * time.Second)
		for time.Now().Before(deadline) {
			for _, l := range m.drainLog() {
				seen = append(seen, l.kind+" "+l.subject)
			}
			for _, rq := range m.outstanding() {
				m.take(rq.id)
				switch {
				case strings.HasPrefix(rq.subject, "access."):
					go rq.cb(rq.subject, []byte(`{"result":{"get":true}}`), nil)
				case strings.HasPrefix(rq.subject, "get."):
					go rq.cb(rq.subject, []byte(fmt.Sprintf(`{"result":{"model":{"rev":%d}}}`, rev)), nil)
				}
			}
			select {
			case f, ok := <-frames:
				if !ok {
					return "socket-closed", seen
				}
				if strings.Contains(f, `"id":1`) {
					return f, seen
				}
			case <-time.After(200 * time.Microsecond):
			}
		}
		return "no-response", seen
	}
	if err := serv.Start(); err != nil {
		pc.specErr = err.Error()
		return pc
	}
	first, _ := subscribeOnce()
	if how == "stop" {
		if !stopB(serv, nil) {
			pc.impl, pc.specErr = "stop-hangs", stopHangs
			return pc
		}
	} else if how == "slowclose" {
		// the messaging client's Close does not return: Stop gives up waiting after its own
		// timeout, and must all the same leave a service that is completely stopped (restartable)
		hang := make(chan struct{})
		m.mu.Lock()
		m.closeHang = hang
		m.mu.Unlock()
		defer close(hang)
		if !stopB(serv, nil) {
			pc.impl, pc.specErr = "stop-hangs", "Stop did not return within 8 s while the messaging client's Close was blocked (its own bound is 3 s)"
			return pc
		}
		m.mu.Lock()
		m.closeHang = nil
		m.mu.Unlock()
	} else if m.closedH != nil {
		returned := make(chan struct{})
		go func() { m.lose(fmt.Errorf("lost")); close(returned) }()
		select {
		case <-returned:
		case <-time.After(8 * time.Second):
			svcAbort = true
			pc.impl, pc.specErr = "stop-hangs", stopHangs
			return pc
		}
	}
	rev = 2
	if err := serv.Start(); err != nil {
		pc.impl = "restart-refused"
		pc.specErr = "Start after Stop failed: " + err.Error()
		return pc
	}
	second, seen := subscribeOnce()
	stopB(serv, nil)
	has := func(x string) bool {
		for _, s := range seen {
			if s == x {
				return true
			}
		}
		return false
	}
	pc.impl = fmt.Sprintf("first=%v second=%v get=%v sub=%v", strings.Contains(first, `"rev":1`), strings.Contains(second, `"rev":2`), has("req get.m.a"), has("sub event.m.a"))
	if !strings.Contains(first, `"rev":1`) {
		pc.specErr = "first run did not serve the resource: " + first
	} else if !has("req get.m.a") || !has("sub event.m.a") || !strings.Contains(second, `"rev":2`) {
		pc.specErr = "after Stop and Start the gateway served the resource from the cache of the previous run (" + pc.impl + "; response " + second + ")"
	}
	return pc
}
