package main

import (
	"encoding/json"
	"fmt"
	"github.com/resgateio/resgate/server/reserr"
	"net/http"
	"net/url"
	"sort"
	"strconv"
	"strings"
	"sync"
	"time"

	"github.com/resgateio/resgate/server"
	"github.com/resgateio/resgate/server/codec"
	"github.com/resgateio/resgate/server/rescache"
	"github.com/resgateio/resgate/server/rpc"
)

// ---------- rid / rpc dispatch ----------

type fakeRequester struct{ got string }

func (f *fakeRequester) Reply(data []byte) {
	if strings.Contains(string(data), `"system.invalidRequest"`) {
		f.got = "invalid"
	} else if strings.Contains(string(data), `"protocol"`) {
		f.got = "version"
	} else {
		f.got = "reply:" + string(data)
	}
}
func (f *fakeRequester) GetResource(rid string, _ func(*rpc.Resources, error)) {
	f.got = "req get " + hx(rid) + " -"
}
func (f *fakeRequester) SubscribeResource(rid string, _ func(*rpc.Resources, error)) {
	f.got = "req subscribe " + hx(rid) + " -"
}
func (f *fakeRequester) UnsubscribeResource(rid string, _ int, _ func(bool)) {
	f.got = "req unsubscribe " + hx(rid) + " -"
}
func (f *fakeRequester) CallResource(rid, action string, _ interface{}, _ func(interface{}, error)) {
	f.got = "req call " + hx(rid) + " " + hx(action)
}
func (f *fakeRequester) AuthResource(rid, action string, _ interface{}, _ func(interface{}, error)) {
	f.got = "req auth " + hx(rid) + " " + hx(action)
}
func (f *fakeRequester) NewResource(rid string, _ interface{}, _ func(interface{}, error)) {
	f.got = "req new " + hx(rid) + " -"
}
func (f *fakeRequester) SetVersion(string) (string, error) { return "1.2.3", nil }
func (f *fakeRequester) ProtocolVersion() int              { return 1999999 }

func okTokByte(c byte) bool {
	return c >= 33 && c <= 126 && c != '.' && c != '*' && c != '>' && c != '?'
}

// specValidRID is the property's statement of a valid resource id, written independently.
func specValidRID(rid string, allowQuery bool) bool {
	name := rid
	if i := strings.IndexByte(rid, '?'); i >= 0 {
		if !allowQuery {
			return false
		}
		name = rid[:i]
	}
	for _, t := range strings.Split(name, ".") {
		if t == "" {
			return false
		}
		for i := 0; i < len(t); i++ {
			if !okTokByte(t[i]) {
				return false
			}
		}
	}
	return true
}

func specHygienic(subj string) bool {
	for _, t := range strings.Split(subj, ".") {
		if t == "" {
			return false
		}
		for i := 0; i < len(t); i++ {
			if !okTokByte(t[i]) {
				return false
			}
		}
	}
	return true
}

var ridAlphabet = []string{"a", ".", "*", ">", "?", " ", "\r", "\x7f", "\x80", "\xff", ",", "{cid}", "b"}

func suiteRid(tier string, r *rng) func(emit func(pureCase)) {
	maxLen := 5
	nRand := 20000
	if tier == "thorough" {
		maxLen = 6
		nRand = 300000
	}
	return func(emit func(pureCase)) {
		one := func(s string) {
			for _, q := range []bool{false, true} {
				got := codec.IsValidRID(s, q)
				c := pureCase{line: "validrid " + hx(s) + " " + b2s(q), impl: b2s(got), class: "validrid=" + b2s(got), trivial: s == ""}
				if got != specValidRID(s, q) {
					c.specErr = "spec says " + b2s(specValidRID(s, q))
				}
				emit(c)
			}
			gotp := codec.IsValidRIDPart(s)
			specp := s != "" && !strings.ContainsAny(s, ".?") && specValidRID(s, false)
			c := pureCase{line: "validpart " + hx(s), impl: b2s(gotp), class: "validpart=" + b2s(gotp), trivial: s == ""}
			if gotp != specp {
				c.specErr = "spec says " + b2s(specp)
			}
			emit(c)
		}
		allStrings(ridAlphabet[:11], maxLen, one)
		for i := 0; i < nRand; i++ {
			one(randString(r, ridAlphabet, 24))
		}
		// every single byte in the three contexts
		for b := 0; b < 256; b++ {
			one(string([]byte{byte(b)}))
			one("a." + string([]byte{byte(b)}))
			one("a" + string([]byte{byte(b)}))
			one("a" + string([]byte{byte(b)}) + "b")
		}
	}
}

var methodAlphabet = []string{"a", ".", "*", ">", "?", " ", "\n", "\x80", "call", "auth", "get", "subscribe", "unsubscribe", "new", "version", "{cid}", "x"}

func suiteRpc(tier string, r *rng) func(emit func(pureCase)) {
	maxLen := 4
	nRand := 30000
	if tier == "thorough" {
		maxLen = 5
		nRand = 400000
	}
	return func(emit func(pureCase)) {
		one := func(m string) {
			req, _ := json.Marshal(map[string]interface{}{"id": 1, "method": m})
			// json.Marshal replaces invalid UTF-8; build the frame by hand to keep bytes
			_ = req
			f := &fakeRequester{}
			frame := []byte(`{"id":1,"method":` + goQuote(m) + `}`)
			err := rpc.HandleRequest(frame, f)
			if err != nil {
				// not decodable as JSON string (cannot happen with goQuote)
				f.got = "drop"
			}
			// What the decoder hands to the dispatcher (invalid UTF-8 becomes U+FFFD)
			var dec struct{ Method string }
			json.Unmarshal(frame, &dec)
			c := pureCase{line: "rpc " + hx(dec.Method), impl: f.got, class: strings.SplitN(f.got, " ", 3)[0], trivial: m == ""}
			if strings.HasPrefix(f.got, "req ") {
				parts := strings.Split(f.got, " ")
				c.class = "req-" + parts[1]
			}
			emit(c)
		}
		allStrings(methodAlphabet, maxLen, one)
		for i := 0; i < nRand; i++ {
			one(randString(r, methodAlphabet, 10))
		}
	}
}

// goQuote encodes a Go string as a JSON string literal byte for byte where possible.
func goQuote(s string) string {
	var sb strings.Builder
	sb.WriteByte('"')
	for i := 0; i < len(s); i++ {
		c := s[i]
		switch {
		case c == '"' || c == '\\':
			sb.WriteByte('\\')
			sb.WriteByte(c)
		case c < 0x20:
			sb.WriteString(fmt.Sprintf("\\u%04x", c))
		default:
			sb.WriteByte(c)
		}
	}
	sb.WriteByte('"')
	return sb.String()
}

// ---------- patterns ----------

func specPatternValid(p string) bool {
	toks := strings.Split(p, ".")
	for i, t := range toks {
		if t == "" {
			return false
		}
		if t == "*" {
			continue
		}
		if t == ">" {
			if i != len(toks)-1 {
				return false
			}
			continue
		}
		for j := 0; j < len(t); j++ {
			c := t[j]
			if c < 33 || c > 126 || c == '?' || c == '*' || c == '>' {
				return false
			}
		}
	}
	return true
}

func specPatternMatch(p, s string) bool {
	pt := strings.Split(p, ".")
	st := strings.Split(s, ".")
	for i, t := range pt {
		if t == ">" {
			return len(st) > i
		}
		if i >= len(st) {
			return false
		}
		if t != "*" && t != st[i] {
			return false
		}
	}
	return len(pt) == len(st)
}

var patAlphabet = []string{"a", "b", ".", "*", ">", "?"}

func suitePattern(tier string, r *rng) func(emit func(pureCase)) {
	maxP, maxS := 5, 5
	nRand := 30000
	if tier == "thorough" {
		maxP, maxS = 6, 6
		nRand = 400000
	}
	return func(emit func(pureCase)) {
		one := func(p, s string) {
			pat := rescache.ParseResourcePattern(p)
			valid := pat.IsValid()
			var m bool
			func() {
				defer func() {
					if e := recover(); e != nil {
						m = false
						valid = false
						p = p + "!panic"
					}
				}()
				m = pat.Match(s)
			}()
			c := pureCase{line: "pat " + hx(p) + " " + hx(s), impl: b2s(valid) + " " + b2s(m),
				class: "valid=" + b2s(valid) + ",match=" + b2s(m), trivial: !valid}
			if strings.HasSuffix(p, "!panic") {
				c.specErr = "Match panicked"
			} else if valid != specPatternValid(p) {
				c.specErr = "validity: spec says " + b2s(specPatternValid(p))
			} else if !valid && m {
				c.specErr = "invalid pattern matched"
			} else if valid && specValidRID(s, false) && m != specPatternMatch(p, s) {
				c.specErr = "match: spec says " + b2s(specPatternMatch(p, s))
			}
			emit(c)
		}
		var pats, names []string
		allStrings(patAlphabet, maxP, func(p string) { pats = append(pats, p) })
		allStrings(patAlphabet[:3], maxS, func(s string) { names = append(names, s) })
		for _, p := range pats {
			if !specPatternValid(p) {
				// invalid patterns: a few names only (they match nothing)
				one(p, "a")
				one(p, p)
				continue
			}
			for _, s := range names {
				one(p, s)
			}
		}
		long := []string{"a", "b", "ab", "abc", ".", ".", "*", ">", "\x80", " "}
		for i := 0; i < nRand; i++ {
			p := randString(r, long, 12)
			s := randString(r, long[:6], 14)
			if r.chance(1, 2) && specPatternValid(p) {
				// derive a matching-ish name from the pattern
				toks := strings.Split(p, ".")
				for k, t := range toks {
					if t == "*" {
						toks[k] = randString(r, []string{"a", "b"}, 2)
					} else if t == ">" {
						toks[k] = randString(r, []string{"a", "b", "."}, 4)
					}
				}
				s = strings.Join(toks, ".")
			}
			one(p, s)
		}
	}
}

// ---------- CanCall ----------

func specCanCall(call, action string) bool {
	if call == "*" {
		return true
	}
	if call == "" {
		return false
	}
	for _, e := range strings.Split(call, ",") {
		if e == action {
			return true
		}
	}
	return false
}

func suiteCanCall(tier string, r *rng) func(emit func(pureCase)) {
	maxLen := 6
	nRand := 30000
	if tier == "thorough" {
		maxLen = 8
		nRand = 300000
	}
	alpha := []string{"a", "b", "*", ","}
	actions := []string{"a", "b", "ab", "ba", "*", "", "aa", "a,b", ","}
	return func(emit func(pureCase)) {
		one := func(call, action string) {
			a := &rescache.Access{AccessResult: &codec.AccessResult{Get: true, Call: call}}
			got := a.CanCall(action) == nil
			c := pureCase{line: "cancall " + hx(call) + " " + hx(action), impl: b2s(got), class: "granted=" + b2s(got), trivial: call == ""}
			if got != specCanCall(call, action) {
				c.specErr = "spec says " + b2s(specCanCall(call, action))
			}
			emit(c)
		}
		allStrings(alpha, maxLen, func(call string) {
			for _, act := range actions {
				one(call, act)
			}
		})
		words := []string{"set", "get", "se", "et", "sett", "*", ",", "x"}
		for i := 0; i < nRand; i++ {
			one(randString(r, words, 8), words[r.intn(len(words))])
		}
	}
}

// ---------- diff ----------

func mkValue(n int) codec.Value {
	var raw string
	switch ((n % 4) + 4) % 4 {
	case 0:
		raw = strconv.Itoa(n)
	case 1:
		raw = fmt.Sprintf(`{"rid":"r.%d"}`, n)
	case 2:
		raw = fmt.Sprintf(`{"rid":"r.%d","soft":true}`, n)
	default:
		raw = fmt.Sprintf(`{"data":{"a":%d}}`, n)
	}
	var v codec.Value
	if err := json.Unmarshal([]byte(raw), &v); err != nil {
		panic(err)
	}
	return v
}

func valueInt(v codec.Value) int {
	switch v.Type {
	case codec.ValueTypePrimitive:
		n, _ := strconv.Atoi(string(v.RawMessage))
		return n
	case codec.ValueTypeReference, codec.ValueTypeSoftReference:
		n, _ := strconv.Atoi(strings.TrimPrefix(v.RID, "r."))
		return n
	case codec.ValueTypeData:
		var d struct{ A int }
		json.Unmarshal(v.Inner, &d)
		return d.A
	}
	return -999
}

func intsStr(a []int) string {
	s := make([]string, len(a))
	for i, v := range a {
		s[i] = strconv.Itoa(v)
	}
	return strings.Join(s, " ")
}

func allIntLists(vals []int, maxLen int, f func([]int)) {
	var rec func(cur []int, n int)
	rec = func(cur []int, n int) {
		cp := append([]int(nil), cur...)
		f(cp)
		if n == 0 {
			return
		}
		for _, v := range vals {
			rec(append(cur, v), n-1)
		}
	}
	rec(nil, maxLen)
}

func suiteLCS(tier string, r *rng, lg *memLogger) func(emit func(pureCase)) {
	maxLen := 4
	nRand := 20000
	if tier == "thorough" {
		maxLen = 5
		nRand = 200000
	}
	return func(emit func(pureCase)) {
		one := func(a, b []int) {
			av := make([]codec.Value, len(a))
			bv := make([]codec.Value, len(b))
			for i, x := range a {
				av[i] = mkValue(x)
			}
			for i, x := range b {
				bv[i] = mkValue(x)
			}
			var parts []string
			specErr := ""
			func() {
				defer func() {
					if e := recover(); e != nil {
						specErr = fmt.Sprint("panic: ", e)
					}
				}()
				evs := rescache.VerifLCS(av, bv)
				for _, ev := range evs {
					switch ev.Event {
					case "remove":
						d, _ := codec.DecodeRemoveEvent(ev.Payload)
						parts = append(parts, fmt.Sprintf("r%d", d.Idx))
					case "add":
						d, err := codec.DecodeAddEvent(ev.Payload)
						if err != nil {
							specErr = "undecodable add event"
							return
						}
						parts = append(parts, fmt.Sprintf("a%d:%d", d.Idx, valueInt(d.Value)))
					}
				}
				// Apply through the real handlers
				delivered, final, ver := rescache.VerifResetCollection(lg, av, bv)
				ok := len(final) == len(bv)
				if ok {
					for i := range final {
						if !final[i].Equal(bv[i]) {
							ok = false
						}
					}
				}
				if len(delivered) != len(evs) {
					specErr = fmt.Sprintf("%d of %d derived events were applied", len(delivered), len(evs))
				} else if !ok {
					specErr = "applying the derived events does not yield the new collection"
				} else if int(ver) != len(evs) {
					specErr = "version not bumped once per event"
				}
				if ok {
					parts = append(parts, "ok=1")
				} else {
					parts = append(parts, "ok=0")
				}
			}()
			eq := len(a) == len(b)
			if eq {
				for i := range a {
					if a[i] != b[i] {
						eq = false
					}
				}
			}
			if eq && len(parts) != 1 {
				specErr = "equal collections produced events"
			}
			emit(pureCase{line: "lcs " + intsStr(a) + " | " + intsStr(b), impl: strings.Join(parts, " "),
				specErr: specErr, class: fmt.Sprintf("events=%d", len(parts)-1), trivial: len(a) == 0 && len(b) == 0})
		}
		var lists [][]int
		allIntLists([]int{0, 1, 2}, maxLen, func(l []int) { lists = append(lists, l) })
		for _, a := range lists {
			for _, b := range lists {
				one(a, b)
			}
		}
		for i := 0; i < nRand; i++ {
			n, m := r.intn(12), r.intn(12)
			k := 2 + r.intn(5)
			a := make([]int, n)
			for j := range a {
				a[j] = r.intn(k)
			}
			var b []int
			if r.chance(1, 2) {
				// mutate a
				b = append([]int(nil), a...)
				for e := r.intn(4); e > 0; e-- {
					if len(b) > 0 && r.chance(1, 2) {
						p := r.intn(len(b))
						b = append(b[:p], b[p+1:]...)
					} else {
						p := r.intn(len(b) + 1)
						b = append(b[:p], append([]int{r.intn(k)}, b[p:]...)...)
					}
				}
			} else {
				b = make([]int, m)
				for j := range b {
					b[j] = r.intn(k)
				}
			}
			one(a, b)
		}
	}
}

func kvStr(m map[int]int) string {
	keys := make([]int, 0, len(m))
	for k := range m {
		keys = append(keys, k)
	}
	sort.Ints(keys)
	parts := make([]string, len(keys))
	for i, k := range keys {
		parts[i] = fmt.Sprintf("%d=%d", k, m[k])
	}
	return strings.Join(parts, " ")
}

func toValMap(m map[int]int) map[string]codec.Value {
	out := make(map[string]codec.Value, len(m))
	for k, v := range m {
		out[strconv.Itoa(k)] = mkValue(v)
	}
	return out
}

func changedStr(ch map[string]codec.Value) string {
	keys := make([]int, 0, len(ch))
	for k := range ch {
		n, _ := strconv.Atoi(k)
		keys = append(keys, n)
	}
	sort.Ints(keys)
	parts := make([]string, len(keys))
	for i, k := range keys {
		v := ch[strconv.Itoa(k)]
		if v.Type == codec.ValueTypeDelete {
			parts[i] = fmt.Sprintf("%d=del", k)
		} else {
			parts[i] = fmt.Sprintf("%d=%d", k, valueInt(v))
		}
	}
	return strings.Join(parts, " ")
}

func allIntMaps(keys []int, vals []int, f func(map[int]int)) {
	var rec func(i int, cur map[int]int)
	rec = func(i int, cur map[int]int) {
		if i == len(keys) {
			cp := map[int]int{}
			for k, v := range cur {
				cp[k] = v
			}
			f(cp)
			return
		}
		rec(i+1, cur)
		for _, v := range vals {
			cur[keys[i]] = v
			rec(i+1, cur)
			delete(cur, keys[i])
		}
	}
	rec(0, map[int]int{})
}

func suiteModelDiff(tier string, r *rng, lg *memLogger) func(emit func(pureCase)) {
	keys := []int{1, 2, 3}
	nRand := 10000
	if tier == "thorough" {
		keys = []int{1, 2, 3, 4}
		nRand = 100000
	}
	return func(emit func(pureCase)) {
		one := func(old, new map[int]int) {
			specErr := ""
			evs, final, ver := rescache.VerifResetModel(lg, toValMap(old), toValMap(new))
			impl := ""
			if len(evs) > 1 {
				specErr = "more than one change event"
			}
			if len(evs) == 1 {
				if evs[0].Event != "change" {
					specErr = "not a change event"
				}
				impl = changedStr(evs[0].Changed)
				if ver != 1 {
					specErr = "version not bumped"
				}
			}
			// final must equal new
			nv := toValMap(new)
			same := len(final) == len(nv)
			for k, v := range nv {
				if fv, ok := final[k]; !ok || !fv.Equal(v) {
					same = false
				}
			}
			if !same {
				specErr = "applying the derived change does not yield the new model"
			}
			if kvStr(old) == kvStr(new) && len(evs) != 0 {
				specErr = "equal models produced an event"
			}
			emit(pureCase{line: "mdiff " + kvStr(old) + " | " + kvStr(new), impl: impl, specErr: specErr,
				class: fmt.Sprintf("changed=%d", len(strings.Fields(impl))), trivial: len(old) == 0 && len(new) == 0})
		}
		var maps []map[int]int
		allIntMaps(keys, []int{0, 1, 5}, func(m map[int]int) { maps = append(maps, m) })
		for _, a := range maps {
			for _, b := range maps {
				one(a, b)
			}
		}
		for i := 0; i < nRand; i++ {
			a, b := map[int]int{}, map[int]int{}
			for k := 0; k < 8; k++ {
				if r.chance(1, 2) {
					a[k] = r.intn(6)
				}
				if r.chance(1, 2) {
					if r.chance(1, 2) {
						if v, ok := a[k]; ok {
							b[k] = v
							continue
						}
					}
					b[k] = r.intn(6)
				}
			}
			one(a, b)
		}
	}
}

// change events applied by handleEventChange
func suiteChange(tier string, r *rng, lg *memLogger) func(emit func(pureCase)) {
	n := 20000
	if tier == "thorough" {
		n = 200000
	}
	return func(emit func(pureCase)) {
		for i := 0; i < n; i++ {
			m := map[int]int{}
			for k := 0; k < 5; k++ {
				if r.chance(1, 2) {
					m[k] = r.intn(5)
				}
			}
			type kv struct {
				k   int
				v   int
				del bool
			}
			var ch []kv
			for k := 0; k < 6; k++ {
				if r.chance(1, 2) {
					ch = append(ch, kv{k, r.intn(5), r.chance(1, 3)})
				}
			}
			var lp, jp []string
			for _, c := range ch {
				if c.del {
					lp = append(lp, fmt.Sprintf("%d=del", c.k))
					jp = append(jp, fmt.Sprintf(`"%d":{"action":"delete"}`, c.k))
				} else {
					lp = append(lp, fmt.Sprintf("%d=%d", c.k, c.v))
					jp = append(jp, fmt.Sprintf(`"%d":%s`, c.k, string(mkValue(c.v).RawMessage)))
				}
			}
			payload := `{"values":{` + strings.Join(jp, ",") + `}}`
			evs, final, _, ver := rescache.VerifHandleEvent(lg, toValMap(m), nil, true, "change", []byte(payload))
			fm := map[int]int{}
			for k, v := range final {
				n, _ := strconv.Atoi(k)
				fm[n] = valueInt(v)
			}
			eff := ""
			specErr := ""
			if len(evs) == 1 {
				eff = changedStr(evs[0].Changed)
				if ver != 1 || !evs[0].Update || evs[0].Version != 0 {
					specErr = "stamp/bump wrong"
				}
			} else if ver != 0 {
				specErr = "version bumped without event"
			}
			emit(pureCase{line: "change " + kvStr(m) + " | " + strings.Join(lp, " "), impl: kvStr(fm) + " | " + eff,
				specErr: specErr, class: fmt.Sprintf("effective=%d", len(strings.Fields(eff))), trivial: len(ch) == 0})
		}
	}
}

// ---------- headers / origins ----------

func hdrStr(h http.Header) string {
	var items []string
	for k, vs := range h {
		s := hx(k)
		for _, v := range vs {
			s += "=" + hx(v)
		}
		items = append(items, s)
	}
	sort.Strings(items)
	return strings.Join(items, " ")
}

var protectedHdrs = []string{"Sec-Websocket-Extensions", "Sec-Websocket-Protocol", "Access-Control-Allow-Credentials", "Access-Control-Allow-Origin", "Content-Type"}

func caseVariants(name string, r *rng, n int, f func(string)) {
	letters := 0
	for i := 0; i < len(name); i++ {
		c := name[i] | 32
		if c >= 'a' && c <= 'z' {
			letters++
		}
	}
	gen := func(mask uint64) string {
		b := []byte(name)
		bit := 0
		for i := range b {
			c := b[i] | 32
			if c >= 'a' && c <= 'z' {
				if mask&(1<<uint(bit)) != 0 {
					b[i] = c - 32
				} else {
					b[i] = c
				}
				bit++
			}
		}
		return string(b)
	}
	if letters <= 11 {
		for m := uint64(0); m < 1<<uint(letters); m++ {
			f(gen(m))
		}
		return
	}
	for i := 0; i < n; i++ {
		f(gen(r.next()))
	}
}

func suiteHeaders(tier string, r *rng) func(emit func(pureCase)) {
	nVar := 300
	nRand := 5000
	if tier == "thorough" {
		nVar = 5000
		nRand = 100000
	}
	return func(emit func(pureCase)) {
		isProtected := func(k string) bool {
			for _, p := range protectedHdrs {
				if k == p {
					return true
				}
			}
			return false
		}
		canon := func(k string) {
			m := &codec.Meta{Header: http.Header{k: []string{"v"}}}
			m.Canonicalize()
			got := ""
			for nk := range m.Header {
				got = nk
			}
			c := pureCase{line: "canon " + hx(k), impl: hx(got), class: "canon-changed=" + b2s(got != k), trivial: k == ""}
			// spec: a name equal to a protected name ignoring ASCII case is canonicalised to it
			for _, p := range protectedHdrs {
				if strings.EqualFold(k, p) && isASCII(k) && got != p {
					c.specErr = "case variant of " + p + " canonicalised to " + got
				}
			}
			emit(c)
			// and merging it must not change the protected entries
			a := http.Header{}
			for _, p := range protectedHdrs {
				a[p] = []string{"orig"}
			}
			a["Set-Cookie"] = []string{"c0"}
			codec.MergeHeader(a, m.Header)
			for _, p := range protectedHdrs {
				if len(a[p]) != 1 || a[p][0] != "orig" {
					emit(pureCase{line: "canon " + hx(k), impl: hx(got), specErr: "protected header " + p + " replaced", class: "violation"})
				}
			}
		}
		for _, p := range protectedHdrs {
			caseVariants(p, r, nVar, canon)
		}
		caseVariants("Set-Cookie", r, nVar, canon)
		others := []string{"X-Custom", "x-a-b", "a b", "a:b", "", "-", "--a", "Content-Type ", " Content-Type", "Content_Type", "Content-Type\r\n", "é", "a\x80", "ETag", "Www-Authenticate", "Location"}
		for _, o := range others {
			canon(o)
		}
		hb := []string{"a", "B", "-", " ", ":", "_", "c", "Z", "\x80", "1"}
		for i := 0; i < nRand; i++ {
			canon(randString(r, hb, 8))
		}
		// merge
		names := append([]string{"Set-Cookie", "X-A", "X-B", "Location"}, protectedHdrs...)
		for i := 0; i < nRand; i++ {
			a, b := http.Header{}, http.Header{}
			for _, h := range []http.Header{a, b} {
				for k := r.intn(5); k > 0; k-- {
					name := names[r.intn(len(names))]
					var vs []string
					for j := r.intn(3); j >= 0; j-- {
						vs = append(vs, randString(r, []string{"x", "y", "="}, 3))
					}
					h[name] = vs
				}
			}
			line := "merge " + hdrLine(a) + " | " + hdrLine(b)
			before := a.Clone()
			codec.MergeHeader(a, b)
			c := pureCase{line: line, impl: hdrStr(a), class: fmt.Sprintf("merge-b=%d", len(b)), trivial: len(b) == 0}
			for _, p := range protectedHdrs {
				if strings.Join(before[p], "\x00") != strings.Join(a[p], "\x00") || (before[p] == nil) != (a[p] == nil) {
					c.specErr = "protected header changed: " + p
				}
			}
			if bv, ok := b["Set-Cookie"]; ok {
				want := append(append([]string{}, before["Set-Cookie"]...), bv...)
				if strings.Join(want, "\x00") != strings.Join(a["Set-Cookie"], "\x00") {
					c.specErr = "Set-Cookie not accumulated"
				}
			}
			_ = isProtected
			emit(c)
		}
	}
}

func hdrLine(h http.Header) string {
	// hex with "=" separators; values may be empty -> encoded as "-"
	var items []string
	keys := make([]string, 0, len(h))
	for k := range h {
		keys = append(keys, k)
	}
	sort.Strings(keys)
	for _, k := range keys {
		s := hx(k)
		for _, v := range h[k] {
			s += "=" + hx(v)
		}
		items = append(items, s)
	}
	return strings.Join(items, " ")
}

func isASCII(s string) bool {
	for i := 0; i < len(s); i++ {
		if s[i] >= 0x80 {
			return false
		}
	}
	return true
}

func lowerASCII(s string) string {
	b := []byte(s)
	for i, c := range b {
		if c >= 'A' && c <= 'Z' {
			b[i] = c + 32
		}
	}
	return string(b)
}

func suiteOrigins(tier string, r *rng) func(emit func(pureCase)) {
	maxLen := 4
	nRand := 20000
	if tier == "thorough" {
		maxLen = 5
		nRand = 300000
	}
	alpha := []string{"a", "A", ":", "/", ".", "\x80", "\xff", "\xef\xbf\xbd", "K", "k"}
	return func(emit func(pureCase)) {
		one := func(os []string, o string) {
			got := server.VerifMatchesOrigins(os, o)
			line := "origin " + hx(o)
			for _, s := range os {
				line += " " + hx(s)
			}
			c := pureCase{line: line, impl: b2s(got), class: "match=" + b2s(got), trivial: o == ""}
			// spec (allow-list entries are lower-cased by the configuration):
			want := false
			for _, s := range os {
				if s == lowerASCII(o) {
					want = true
				}
			}
			allLower := true
			for _, s := range os {
				if s != lowerASCII(s) {
					allLower = false
				}
			}
			if allLower && got != want {
				c.specErr = "spec says " + b2s(want)
			}
			emit(c)
		}
		var strs []string
		allStrings(alpha, maxLen, func(s string) { strs = append(strs, s) })
		for _, o := range strs {
			lo := lowerASCII(o)
			one([]string{lo}, o)
			one([]string{"a", lo + "a"}, o)
			if len(o) > 0 {
				one([]string{lo[:len(lo)-1]}, o)
			}
		}
		for i := 0; i < nRand; i++ {
			o := randString(r, alpha, 8)
			var os []string
			for k := 1 + r.intn(3); k > 0; k-- {
				if r.chance(1, 2) {
					os = append(os, lowerASCII(randString(r, alpha, 8)))
				} else {
					// near miss: change one byte of the lower-cased origin
					b := []byte(lowerASCII(o))
					if len(b) > 0 {
						p := r.intn(len(b))
						b[p] = []byte(alpha[r.intn(len(alpha))])[0]
					}
					os = append(os, lowerASCII(string(b)))
				}
			}
			one(os, o)
			if lower := server.VerifToLowerASCII(o); true {
				emit(pureCase{line: "lower " + hx(o), impl: hx(lower), class: "lower", trivial: o == ""})
			}
		}
	}
}

// ---------- throttle ----------

func suiteThrottle(tier string, r *rng) func(emit func(pureCase)) {
	maxLen := 7
	nRand := 3000
	if tier == "thorough" {
		maxLen = 9
		nRand = 30000
	}
	return func(emit func(pureCase)) {
		one := func(limit int, word []bool) { // true = add, false = done
			t := rescache.NewThrottle(limit)
			var mu sync.Mutex
			var started []int
			pending := 0
			waitStart := func(n int) bool {
				deadline := time.Now().Add(500 * time.Millisecond)
				for {
					mu.Lock()
					l := len(started)
					mu.Unlock()
					if l >= n {
						return true
					}
					if time.Now().After(deadline) {
						return false
					}
					time.Sleep(20 * time.Microsecond)
				}
			}
			var ops []string
			next := 1
			panicked := false
			stalled := false
			maxRunning, running := 0, 0
			for _, isAdd := range word {
				if isAdd {
					id := next
					next++
					ops = append(ops, fmt.Sprintf("a%d", id))
					mu.Lock()
					before := len(started)
					mu.Unlock()
					t.Add(func() {
						mu.Lock()
						started = append(started, id)
						mu.Unlock()
					})
					mu.Lock()
					if len(started) == before {
						pending++
					} else {
						running++
					}
					mu.Unlock()
				} else {
					ops = append(ops, "d")
					mu.Lock()
					before := len(started)
					mu.Unlock()
					func() {
						defer func() {
							if e := recover(); e != nil {
								panicked = true
							}
						}()
						t.Done()
					}()
					if panicked {
						break
					}
					if pending > 0 {
						if !waitStart(before + 1) {
							stalled = true
							break
						}
						pending--
					} else {
						running--
					}
				}
				if running > maxRunning {
					maxRunning = running
				}
			}
			impl := ""
			specErr := ""
			if panicked {
				impl = "panic"
			} else {
				time.Sleep(50 * time.Microsecond)
				mu.Lock()
				ss := make([]string, len(started))
				for i, s := range started {
					ss[i] = strconv.Itoa(s)
				}
				mu.Unlock()
				impl = fmt.Sprintf("running=%d queue=%d started=%s", running, pending, strings.Join(ss, ","))
				if stalled {
					impl += " STALL"
					specErr = "a waiting callback was not started by Done"
				}
				if limit > 0 && maxRunning > limit {
					specErr = "more than limit running"
				}
			}
			emit(pureCase{line: fmt.Sprintf("throttle %d %s", limit, strings.Join(ops, " ")), impl: impl, specErr: specErr,
				class: fmt.Sprintf("limit=%d", limit), trivial: len(word) == 0})
		}
		for limit := 1; limit <= 3; limit++ {
			for n := 0; n <= maxLen; n++ {
				for m := 0; m < 1<<uint(n); m++ {
					w := make([]bool, n)
					for i := range w {
						w[i] = m&(1<<uint(i)) != 0
					}
					one(limit, w)
				}
			}
		}
		for i := 0; i < nRand; i++ {
			n := r.intn(30)
			w := make([]bool, n)
			bal := 0
			for j := range w {
				// mostly well-formed: Done only for started callbacks
				if bal > 0 && r.chance(1, 2) {
					w[j] = false
					bal--
				} else {
					w[j] = true
					bal++
				}
				if r.chance(1, 40) {
					w[j] = false
				}
			}
			one(1+r.intn(5), w)
		}
	}
}

// ---------- HTTP paths ----------

func suitePath(tier string, r *rng) func(emit func(pureCase)) {
	maxLen := 4
	nRand := 20000
	if tier == "thorough" {
		maxLen = 5
		nRand = 300000
	}
	alpha := []string{"a", "/", ".", "%2E", "%2F", "%20", "%0D%0A", "%2A", "%", "%zz", "%4", "*", "b", "%3F", "+", "\x80"}
	prefixes := []string{"/api/", "/", "/x/y/", "/api/v1.0/"}
	return func(emit func(pureCase)) {
		one := func(path, query, prefix string) {
			rid := server.PathToRID(path, query, prefix)
			c := pureCase{line: "path " + hx(path) + " " + hx(query) + " " + hx(prefix), impl: hx(rid), class: "rid-empty=" + b2s(rid == ""), trivial: rid == ""}
			emit(c)
			rid2, act := server.PathToRIDAction(path, query, prefix)
			emit(pureCase{line: "pathaction " + hx(path) + " " + hx(query) + " " + hx(prefix), impl: hx(rid2) + " " + hx(act), class: "action-empty=" + b2s(act == ""), trivial: rid2 == ""})
			// C14: whatever reaches the gateway as a resource id is either rejected or hygienic
			if codec.IsValidRID(rid, true) {
				name := rid
				if i := strings.IndexByte(rid, '?'); i >= 0 {
					name = rid[:i]
				}
				if !specHygienic("get." + name) {
					emit(pureCase{line: "path " + hx(path) + " " + hx(query) + " " + hx(prefix), impl: hx(rid), specErr: "accepted resource id yields an unhygienic subject", class: "violation"})
				}
			}
		}
		allStrings(alpha, maxLen, func(p string) {
			one("/api/"+p, "", "/api/")
		})
		for i := 0; i < nRand; i++ {
			pre := prefixes[r.intn(len(prefixes))]
			p := randString(r, alpha, 8)
			if r.chance(3, 4) {
				p = pre + p
			}
			one(p, randString(r, []string{"q=a", "&", "x", "%20", ""}, 2), pre)
		}
		// round trip on valid rids
		rids := []string{"m.a", "a.b.c", "q.m?q=a", "cid.{cid}.m", "a-b._~.$&+=:@", "x.y z"}
		for _, rid := range rids {
			for _, pre := range prefixes {
				emit(pureCase{line: "ridpath " + hx(rid) + " " + hx(pre), impl: hx(server.RIDToPath(rid, pre)), class: "ridpath"})
			}
		}
		// RIDToPath on arbitrary byte strings (every single byte, random strings), and the round
		// trip PathToRID(RIDToPath(rid)) = rid, which Proofs/Path.lean proves for the model
		roundTrip := func(rid, pre, q string) {
			path := server.RIDToPath(rid, pre)
			c := pureCase{line: "ridpathb " + hx(rid) + " " + hx(pre), impl: hx(path), class: "ridpathb", trivial: rid == ""}
			if rid != "" && rid[0] != '.' {
				want := rid
				if q != "" {
					want += "?" + q
				}
				if back := server.PathToRID(path, q, pre); back != want {
					c.specErr = fmt.Sprintf("PathToRID(RIDToPath(%q)) = %q", rid, back)
				}
			}
			emit(c)
		}
		for b := 0; b < 256; b++ {
			roundTrip(string([]byte{byte(b)}), "/api/", "")
			roundTrip("a."+string([]byte{byte(b)})+"b", "/", "q=1")
		}
		ralpha := []string{"a", "b", ".", "?", "=", "&", "/", "%", " ", "{cid}", "*", ">", "\x00", "\x7f", "\x80", "\xff", "é", "+", "~", "$", ":", "@", "-", "_"}
		nr := nRand / 10
		for i := 0; i < nr; i++ {
			roundTrip(randString(r, ralpha, 10), prefixes[r.intn(len(prefixes))], randString(r, []string{"q=a", "&", "x.y", ""}, 2))
		}
	}
}

// ---------- HTTP encoders on random graphs ----------

func suiteEncode(tier string, r *rng) func(emit func(pureCase)) {
	n := 4000
	if tier == "thorough" {
		n = 60000
	}
	keys := []string{"a", "b", "k\"q", "x<y", "é", "k1", "", "a b", "t\tb", "n\nl", "\x01", "u\u2028v", "d\x7f", "c\r", "\b\f", "back\\slash", "&amp;", "日本"}
	return func(emit func(pureCase)) {
		for i := 0; i < n; i++ {
			nn := 1 + r.intn(6)
			rids := make([]string, nn)
			for j := range rids {
				rids[j] = fmt.Sprintf("t.%c", 'a'+j)
			}
			if r.chance(1, 5) {
				rids[0] = "t.q?x=1&y={z}"
			}
			mkVal := func() (codec.Value, string) {
				switch r.intn(7) {
				case 0, 1:
					raw := pick(r, []string{"1", "\"s\"", "null", "true", "-2.5", "\"<&>\""})
					return codec.Value{RawMessage: json.RawMessage(raw), Type: codec.ValueTypePrimitive}, "p" + hx(raw)
				case 2:
					inner := pick(r, []string{`{"a":1}`, `[1,[2]]`, `{"x":{"y":[]}}`})
					return codec.Value{RawMessage: json.RawMessage(`{"data":` + inner + `}`), Type: codec.ValueTypeData, Inner: json.RawMessage(inner)}, "d" + hx(inner)
				case 3:
					rid := pick(r, rids)
					return codec.Value{RawMessage: json.RawMessage(`{"rid":"` + rid + `","soft":true}`), Type: codec.ValueTypeSoftReference, RID: rid}, "s" + hx(rid)
				default:
					rid := pick(r, rids) // any node, incl. itself and ancestors: cycles of every length
					return codec.Value{RawMessage: json.RawMessage(`{"rid":"` + rid + `"}`), Type: codec.ValueTypeReference, RID: rid}, "r" + hx(rid)
				}
			}
			var nodes []server.VerifNode
			var toks []string
			for _, rid := range rids {
				switch r.intn(5) {
				case 0:
					code := pick(r, []string{"system.notFound", "system.timeout", "custom.err"})
					nodes = append(nodes, server.VerifNode{RID: rid, Err: &reserr.Error{Code: code, Message: "m " + code}})
					toks = append(toks, hx(rid)+":e:"+hx(fmt.Sprintf(`{"code":%q,"message":%q}`, code, "m "+code)))
				case 1, 2:
					m := map[string]codec.Value{}
					var kvs []string
					for _, k := range keys {
						if r.chance(1, 5) {
							v, t := mkVal()
							m[k] = v
							kvs = append(kvs, hx(k)+"="+t)
						}
					}
					nodes = append(nodes, server.VerifNode{RID: rid, Model: m})
					toks = append(toks, hx(rid)+":m:"+strings.Join(kvs, ","))
				default:
					c := []codec.Value{}
					var vs []string
					for k := r.intn(4); k > 0; k-- {
						v, t := mkVal()
						c = append(c, v)
						vs = append(vs, t)
					}
					nodes = append(nodes, server.VerifNode{RID: rid, Collection: c})
					toks = append(toks, hx(rid)+":c:"+strings.Join(vs, ","))
				}
			}
			enc := pick(r, []string{"json", "jsonflat"})
			pre := pick(r, []string{"/api/", "/", "/v1/x/"})
			out, err := server.VerifEncodeGET(enc, pre, nodes, rids[0])
			impl := ""
			specErr := ""
			if err != nil {
				impl = "error:" + err.Error()
			} else {
				impl = canonJSONText(string(out))
				if strings.HasPrefix(impl, "unparsable:") || strings.HasPrefix(impl, "trailing-garbage:") {
					specErr = "encoder output is not well-formed JSON"
				} else if want := refRender(nodes, rids[0], pre, enc == "jsonflat"); want != impl {
					specErr = "body differs from the recursive expansion of the resource; the reference renderer gives " + want
				}
			}
			emit(pureCase{line: "enc " + b2s(enc == "jsonflat") + " " + hx(pre) + " " + hx(rids[0]) + " " + strings.Join(toks, " "), impl: impl,
				specErr: specErr, jsonOut: true, class: fmt.Sprintf("%s nodes=%d", enc, nn), trivial: nn == 1})
		}
	}
}

// refRender is the independent reference renderer of C16: it expands the graph into a value tree
// (never building text by hand) and lets encoding/json print it.
func refRender(nodes []server.VerifNode, root, pre string, flat bool) string {
	byRID := map[string]*server.VerifNode{}
	for i := range nodes {
		byRID[nodes[i].RID] = &nodes[i]
	}
	href := func(rid string) string { return pre + strings.ReplaceAll(url.PathEscape(rid), ".", "/") }
	var expand func(rid string, path []string) (kind string, content interface{})
	var value func(v codec.Value, path []string) interface{}
	value = func(v codec.Value, path []string) interface{} {
		switch v.Type {
		case codec.ValueTypeReference:
			for _, p := range path {
				if p == v.RID {
					return map[string]interface{}{"href": href(v.RID)}
				}
			}
			kind, content := expand(v.RID, path)
			if flat {
				return content
			}
			return map[string]interface{}{"href": href(v.RID), kind: content}
		case codec.ValueTypeSoftReference:
			return map[string]interface{}{"href": href(v.RID)}
		case codec.ValueTypeData:
			var x interface{}
			json.Unmarshal(v.Inner, &x)
			return x
		default:
			var x interface{}
			json.Unmarshal(v.RawMessage, &x)
			return x
		}
	}
	expand = func(rid string, path []string) (string, interface{}) {
		n := byRID[rid]
		path = append(append([]string{}, path...), rid)
		switch {
		case n.Err != nil:
			return "error", map[string]interface{}{"code": n.Err.Code, "message": n.Err.Message}
		case n.Model != nil:
			m := map[string]interface{}{}
			for k, v := range n.Model {
				m[k] = value(v, path)
			}
			return "model", m
		default:
			c := []interface{}{}
			for _, v := range n.Collection {
				c = append(c, value(v, path))
			}
			return "collection", c
		}
	}
	_, content := expand(root, nil)
	b, err := json.Marshal(content)
	if err != nil {
		return "reference-renderer-error:" + err.Error()
	}
	return canonJSONText(string(b))
}

// ---------- status tables (spec monitor with a failing input) ----------

func suiteStatus(tier string, r *rng) func(emit func(pureCase)) {
	return func(emit func(pureCase)) {
		want := map[string]int{"system.notFound": 404, "system.methodNotFound": 404, "system.timeout": 404, "system.accessDenied": 401,
			"system.forbidden": 403, "system.methodNotAllowed": 405, "system.subjectTooLong": 414, "system.internalError": 500, "system.serviceUnavailable": 503}
		codes := []string{"system.notFound", "system.methodNotFound", "system.timeout", "system.accessDenied", "system.forbidden", "system.methodNotAllowed",
			"system.subjectTooLong", "system.internalError", "system.serviceUnavailable", "system.invalidParams", "system.invalidQuery", "system.noSubscription",
			"system.invalidRequest", "system.unsupportedProtocol", "system.deleted", "system.badRequest", "system.notImplemented", "custom.x", "", "system.notfound"}
		for i := 0; i < 200; i++ {
			codes = append(codes, "system."+randString(r, []string{"not", "Found", "time", "out", "x", "."}, 3))
		}
		for _, c := range codes {
			got := server.VerifErrorStatus(c)
			w, ok := want[c]
			if !ok {
				w = 400
			}
			pc := pureCase{line: "errstatus " + hx(c), impl: fmt.Sprint(got), class: fmt.Sprint(got)}
			if got != w {
				pc.specErr = fmt.Sprintf("error code %q maps to %d, the property fixes %d", c, got, w)
			}
			emit(pc)
		}
		for s := -5; s <= 1005; s++ {
			st := s
			m := &codec.Meta{Status: &st}
			d := m.IsDirectResponseStatus()
			pc := pureCase{line: fmt.Sprintf("direct %d", s), impl: b2s(d), class: "direct=" + b2s(d)}
			if d != (s >= 300 && s < 600) {
				pc.specErr = fmt.Sprintf("meta status %d honoured=%v", s, d)
			}
			emit(pc)
		}
	}
}
