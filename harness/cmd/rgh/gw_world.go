package main

import (
	"encoding/json"
	"fmt"
	"io"
	"net/http"
	"net/http/httptest"
	"os"
	"runtime"
	"sort"
	"strconv"
	"strings"
	"sync"
	"time"

	"github.com/gorilla/websocket"
	"github.com/posener/wstest"
	"github.com/resgateio/resgate/server"
)

// ---------------------------------------------------------------------------------------------
// The world: one real gateway (server.Service) with a mock messaging client, WebSocket clients
// through an in-memory dialer, and a simulated service owning the true state of all resources.
// Every stimulus is applied and then the gateway is left to run until quiescent.
// ---------------------------------------------------------------------------------------------

type wsClient struct {
	idx      int
	name     string // c0, c1, ...
	cid      string // real connection id
	ws       *websocket.Conn
	mu       sync.Mutex
	frames   [][]byte
	taken    int
	closed   bool
	readDone chan struct{}
	nextID   uint64
	ref      *refClient
	version  string
}

func (c *wsClient) reader() {
	for {
		_, b, err := c.ws.ReadMessage()
		if err != nil {
			break
		}
		c.mu.Lock()
		c.frames = append(c.frames, b)
		c.mu.Unlock()
	}
	close(c.readDone)
}

func (c *wsClient) received() int {
	c.mu.Lock()
	defer c.mu.Unlock()
	return len(c.frames)
}

func (c *wsClient) takeNew() [][]byte {
	c.mu.Lock()
	defer c.mu.Unlock()
	out := c.frames[c.taken:]
	c.taken = len(c.frames)
	return out
}

// crashLog receives every stimulus before it is applied (truncated at the start of a history).
var crashLog *os.File

type worldCfg struct {
	referenceThrottle int
	resetThrottle     int
	metrics           bool
	flat              bool // apiEncoding jsonflat
	hauth             bool // Config.HeaderAuth = hauth.svc.login
}

type httpReq struct {
	name   string
	rec    *httptest.ResponseRecorder
	done   chan struct{}
	conn   string // name of the temporary connection
	seen   bool
	direct bool // a meta status decided the answer
	method string
	rid    string // resource id of a GET / HEAD
}

type stepRec struct {
	Stim string   `json:"stim"`
	Obs  []string `json:"obs"`
	Snap []string `json:"snap,omitempty"`
	Wire []string `json:"wire,omitempty"` // frames in wire order, when more than one
}

type violation struct {
	Prop string `json:"property"`
	Key  string `json:"key"`
	What string `json:"what"`
	Step int    `json:"step"`
}

type world struct {
	cacheFresh bool // the history ended with a universal reset answered from the current state
	noSettle   bool // a burst of stimuli is being issued without settling in between
	concurrent bool // the history contained a burst: the gateway's own scheduler decided interleavings
	mutatePct  int  // percentage of service messages replaced by a structural mutation (profile mutate)
	mrng       *rng // PRNG of the mutations
	mutated    bool // a mutated message was delivered: only crash/stall/bad-frame checks apply
	cfg        worldCfg
	serv       *server.Service
	mq         *mockMQ
	lg         *memLogger
	clients    []*wsClient
	truth      *truth
	steps      []stepRec
	viols      []violation
	cidName    map[string]string

	framesInBase  int64
	framesOutBase int64
	framesSent    int64
	framesRecvd   func() int64
	stall         string
	taint         string // a known defect has manifested earlier in this history
	https         []*httpReq
	mon           *monitors
	wantSnap      bool
}

func newWorld(cfg worldCfg, u *universe) (*world, error) {
	w := &world{cfg: cfg, lg: &memLogger{}, cidName: map[string]string{}}
	w.mq = newMockMQ()
	sc := server.Config{NoHTTP: true, ReferenceThrottle: cfg.referenceThrottle, ResetThrottle: cfg.resetThrottle}
	if cfg.flat {
		sc.APIEncoding = "jsonflat"
	}
	if cfg.metrics {
		sc.MetricsPort = 8090
	}
	if cfg.hauth {
		ha := "hauth.svc.login"
		sc.HeaderAuth = &ha
	}
	put := "put" // PUT is mapped to the call method "put"; DELETE and PATCH are not mapped
	sc.PUTMethod = &put
	sc.SetDefault()
	serv, err := server.NewService(w.mq, sc)
	if err != nil {
		return nil, err
	}
	serv.SetLogger(w.lg)
	if err := serv.Start(); err != nil {
		return nil, err
	}
	w.serv = serv
	w.truth = newTruth(u)
	w.framesInBase = server.VerifFramesIn()
	w.framesOutBase = server.VerifFramesOut()
	w.mon = newMonitors(w)
	w.mq.drainLog() // "system" subscription of the cache
	return w, nil
}

func (w *world) close() {
	for _, c := range w.clients {
		if !c.closed {
			c.ws.Close()
			c.closed = true
		}
	}
	done := make(chan struct{})
	go func() { w.serv.Stop(nil); close(done) }()
	select {
	case <-done:
	case <-time.After(10 * time.Second):
		w.addViolation("C20", "stop-stall", "Stop did not complete within 10s")
	}
}

func (w *world) addViolation(prop, key, what string) {
	if w.taint != "" {
		key += "+after:" + w.taint
	}
	for _, v := range w.viols {
		if v.Prop == prop && v.Key == key {
			return
		}
	}
	w.viols = append(w.viols, violation{Prop: prop, Key: key, What: what, Step: len(w.steps)})
}

func (w *world) cname(cid string) string {
	if n, ok := w.cidName[cid]; ok {
		return n
	}
	return "c?" + cid
}

// idle reports whether the gateway has no queued work and all frames have been moved.
func (w *world) idle() bool {
	if server.VerifFramesIn()-w.framesInBase != w.framesSent {
		return false
	}
	var recvd int64
	for _, c := range w.clients {
		recvd += int64(c.received())
	}
	if server.VerifFramesOut()-w.framesOutBase != recvd {
		// frames handed to a socket of a closed client are never read
		open := true
		for _, c := range w.clients {
			if c.closed {
				open = false
			}
		}
		if open {
			return false
		}
	}
	for _, cs := range w.serv.VerifSnapshot() {
		if cs.Busy {
			return false
		}
	}
	for _, e := range w.serv.VerifCache().VerifSnapshot() {
		if e.QueueLen > 0 && !e.Locked {
			return false
		}
		if e.Locked && e.LockLen > 0 {
			return false
		}
	}
	return true
}

// settle waits until the gateway is quiescent (several consecutive idle observations).
func (w *world) settle() bool {
	deadline := time.Now().Add(5 * time.Second)
	stable := 0
	spins := 0
	for {
		if w.idle() {
			stable++
			if stable >= 4 {
				return true
			}
		} else {
			stable = 0
		}
		if time.Now().After(deadline) {
			return false
		}
		spins++
		if spins < 200 {
			runtime.Gosched()
		} else {
			time.Sleep(50 * time.Microsecond)
		}
	}
}

// answerTooLong answers requests whose subject the adapter would have refused.
func (w *world) answerTooLong() {
	for _, r := range w.mq.outstanding() {
		if r.tooLong {
			w.mq.take(r.id)
			r.cb("", nil, errSubjectTooLong)
		}
	}
}

// apply runs one stimulus to quiescence and records what was observed.
func (w *world) apply(stim string, f func()) {
	if w.stall != "" {
		return
	}
	if crashLog != nil {
		// the gateway runs without recover: a panic kills this process, the log is the replay
		crashLog.WriteString(stim + "\n")
	}
	if w.noSettle {
		// inside a burst: the stimulus is handed to the gateway without waiting for the
		// previous one to be absorbed; everything is collected when the burst ends
		w.concurrent = true
		f()
		w.steps = append(w.steps, stepRec{Stim: stim + "   # in burst"})
		return
	}
	f()
	for i := 0; i < 50; i++ {
		if !w.settle() {
			w.stall = stim
			w.addViolation("C15", "stall", "gateway did not become quiescent within 5s after: "+stim)
			break
		}
		n := len(w.mq.outstanding())
		w.answerTooLong()
		if len(w.mq.outstanding()) == n {
			break
		}
	}
	rec := stepRec{Stim: stim}
	// frames
	for _, c := range w.clients {
		for _, b := range c.takeNew() {
			fr, err := parseFrame(b)
			if err != nil {
				rec.Obs = append(rec.Obs, "F "+c.name+" unparsable:"+string(b))
				w.addViolation("C15", "bad-frame", "gateway sent an unparsable frame: "+string(b))
				continue
			}
			rec.Obs = append(rec.Obs, "F "+c.name+" "+fr.abs())
			rec.Wire = append(rec.Wire, c.name+" "+fr.abs())
			w.mon.onFrame(c, fr)
		}
	}
	// mq boundary
	for _, l := range w.mq.drainLog() {
		switch l.kind {
		case "req":
			if strings.HasPrefix(l.subject, "conn.") {
				continue
			}
			rec.Obs = append(rec.Obs, "Q "+w.absSubject(l.subject)+" "+w.absSubject(absPayload(l.subject, l.payload, w.cname)))
			w.mon.onRequest(l)
		case "sub":
			if strings.HasPrefix(l.subject, "conn.") {
				w.registerConn(l.subject[5:])
			}
			rec.Obs = append(rec.Obs, "S "+w.absSubject(l.subject))
			w.mon.onSub(l.subject, true)
		case "unsub":
			rec.Obs = append(rec.Obs, "U "+w.absSubject(l.subject))
			w.mon.onSub(l.subject, false)
		}
	}
	// completed HTTP requests
	for _, h := range w.https {
		if h.seen {
			continue
		}
		select {
		case <-h.done:
		default:
			// still being served: its temporary connection is alive; once that is gone the
			// handler goroutine only has to return
			alive := false
			for _, cs := range w.serv.VerifSnapshot() {
				if w.cname(cs.CID) == h.conn {
					alive = true
				}
			}
			if alive {
				continue
			}
			select {
			case <-h.done:
			case <-time.After(2 * time.Second):
				w.addViolation("C15", "http-stall", "HTTP request "+h.name+" not completed although its connection is disposed")
				continue
			}
		}
		h.seen = true
		rec.Obs = append(rec.Obs, "H "+h.name+" "+absHTTP(h.rec))
		w.mon.onHTTP(h)
	}
	rec.Obs = canonObs(rec.Obs)
	if len(rec.Wire) < 2 {
		rec.Wire = nil
	}
	if w.wantSnap {
		rec.Snap = w.snapshotLines()
	}
	w.steps = append(w.steps, rec)
	w.mon.afterStep()
}

// absSubject replaces real connection ids in subjects.
func (w *world) absSubject(s string) string {
	for cid, n := range w.cidName {
		s = strings.ReplaceAll(s, cid, n)
	}
	return s
}

func (w *world) registerConn(cid string) {
	if _, ok := w.cidName[cid]; !ok {
		w.cidName[cid] = fmt.Sprintf("c%d", len(w.cidName))
	}
}

// ---- stimuli ----

func (w *world) connect() *wsClient {
	var cl *wsClient
	name := fmt.Sprintf("c%d", len(w.cidName)) // connections are numbered in order of registration (WebSocket and HTTP)
	w.apply("connect "+name, func() {
		d := wstest.NewDialer(w.serv.GetWSHandlerFunc())
		ws, _, err := d.Dial("ws://example.org/", http.Header{})
		if err != nil {
			w.addViolation("C20", "connect-failed", "WebSocket connect failed: "+err.Error())
			return
		}
		cl = &wsClient{idx: len(w.clients), name: name, ws: ws, readDone: make(chan struct{}), nextID: 1}
		cl.ref = newRefClient(cl)
		w.clients = append(w.clients, cl)
		go cl.reader()
	})
	if cl != nil {
		// the conn.<cid> subscription observed in this step names the connection
		for cid, n := range w.cidName {
			if n == name {
				cl.cid = cid
			}
		}
	}
	return cl
}

// request sends a client request frame; params is raw JSON or "".
func (w *world) request(c *wsClient, method string, params string) uint64 {
	id := c.nextID
	c.nextID++
	frame := fmt.Sprintf(`{"id":%d,"method":%s`, id, goQuote(method))
	if params != "" {
		frame += `,"params":` + params
	}
	frame += "}"
	p := params
	if p == "" {
		p = "-"
	}
	w.mon.onClientRequest(c, id, method, params)
	mtok := method
	for i := 0; i < len(method); i++ {
		if method[i] < 33 || method[i] > 126 {
			mtok = "hex:" + hx(method)
			break
		}
	}
	if method == "" {
		mtok = "hex:-"
	}
	w.apply(fmt.Sprintf("frame %s %d %s %s %s", c.name, id, mtok, p, frameHint(method, params)), func() {
		w.framesSent++
		c.ws.WriteMessage(websocket.TextMessage, []byte(frame))
	})
	return id
}

func (w *world) rawFrame(c *wsClient, raw string) {
	// a JSON object with an unsigned integer id is a request and must be answered
	var o map[string]json.RawMessage
	if json.Unmarshal([]byte(raw), &o) == nil {
		if idr, ok := o["id"]; ok {
			var id uint64
			if json.Unmarshal(idr, &id) == nil && string(idr) != "null" {
				c.ref.pending[id] = &pendingReq{method: "(raw)", kind: "raw"}
			}
		}
	}
	hint := "drop"
	if json.Unmarshal([]byte(raw), &o) == nil {
		if idr, ok := o["id"]; ok {
			var id uint64
			if json.Unmarshal(idr, &id) == nil && string(idr) != "null" {
				hint = fmt.Sprintf("reply=%d", id)
			}
		}
	}
	w.apply("rawframe "+c.name+" "+hx(raw)+" "+hint, func() {
		w.framesSent++
		c.ws.WriteMessage(websocket.TextMessage, []byte(raw))
	})
}

func (w *world) disconnect(c *wsClient) {
	w.mon.onDisconnect(c)
	w.apply("disconnect "+c.name, func() {
		c.closed = true
		c.ws.Close()
		<-c.readDone
		// wait until the gateway has disposed the connection
		deadline := time.Now().Add(5 * time.Second)
		for time.Now().Before(deadline) {
			found := false
			for _, cs := range w.serv.VerifSnapshot() {
				if cs.CID == c.cid {
					found = true
				}
			}
			if !found {
				return
			}
			time.Sleep(50 * time.Microsecond)
		}
		w.addViolation("C11", "dispose-stall", "connection not disposed within 5s after the socket closed")
	})
}

// answer delivers a response to an outstanding mq request.
func (w *world) answer(r *mockReq, label string, data []byte, err error) {
	// occurrence index among outstanding requests with the same subject and payload
	occ := 0
	for _, o := range w.mq.outstanding() {
		if o.id == r.id {
			break
		}
		if o.subject == r.subject && w.absSubject(absPayload(o.subject, o.payload, w.cname)) == w.absSubject(absPayload(r.subject, r.payload, w.cname)) {
			occ++
		}
	}
	if w.mq.take(r.id) == nil {
		return
	}
	if w.mutatePct > 0 && w.mrng != nil && data != nil && w.mrng.chance(w.mutatePct, 100) {
		data = mutateJSON(w.mrng, data)
		label = "malformed:" + hx(string(data))
		w.mutated = true
	}
	w.mon.onAnswer(r, label, data, err)
	w.apply(fmt.Sprintf("answer %s %s %s #%d", w.absSubject(r.subject), w.absSubject(absPayload(r.subject, r.payload, w.cname)), label, occ), func() {
		r.cb(r.subject, data, err)
	})
}

func (w *world) publish(subject string, payload string) {
	if w.mutatePct > 0 && w.mrng != nil && w.mrng.chance(w.mutatePct, 100) {
		payload = string(mutateJSON(w.mrng, []byte(payload)))
		w.mutated = true
	}
	w.mon.onPublish(subject, payload)
	w.apply("event "+w.absSubject(subject)+" "+absEvent(subject, payload)+" "+payloadOrDash(payload), func() {
		w.mq.publish(subject, []byte(payload))
	})
}

func payloadOrDash(p string) string {
	if p == "" {
		return "-"
	}
	return compactJSON([]byte(p))
}

func (w *world) evict() {
	w.apply("evict", func() {
		w.serv.VerifCache().VerifFlushEvictions()
	})
}

// ---- snapshot ----

func (w *world) snapshotLines() []string {
	var out []string
	for _, e := range w.serv.VerifCache().VerifSnapshot() {
		var parts []string
		parts = append(parts, fmt.Sprintf("E %s count=%d sub=%s lock=%s", w.absSubject(e.Name), e.Count, b2s(e.MQSub), b2s(e.Locked)))
		rsStr := func(tag string, r *rsSnap) string {
			return fmt.Sprintf("%s[q=%s st=%d v=%d rst=%s subs=%d links=%s val=%s]", tag, r.Query, r.State, r.Version, b2s(r.Resetting), r.Subs, strings.Join(r.Links, "+"), absCached(r.Value))
		}
		if e.Base != nil {
			b := rsSnap(*e.Base)
			parts = append(parts, rsStr("base", &b))
		}
		for _, q := range e.Queries {
			qq := rsSnap(q)
			parts = append(parts, rsStr("query", &qq))
		}
		lk := make([]string, 0)
		for k, v := range e.LinkKeys {
			lk = append(lk, k+">"+v)
		}
		sort.Strings(lk)
		if len(lk) > 0 {
			parts = append(parts, "links="+strings.Join(lk, ","))
		}
		out = append(out, w.absSubject(strings.Join(parts, " ")))
	}
	// by abstract entry name (the model sorts its index the same way; real connection ids inside
	// names such as cid.<cid>.m sort differently from c0, c1, ..., c10)
	sort.SliceStable(out, func(i, j int) bool {
		return strings.SplitN(out[i], " ", 3)[1] < strings.SplitN(out[j], " ", 3)[1]
	})
	conns := w.serv.VerifSnapshot()
	sort.Slice(conns, func(i, j int) bool { return w.cname(conns[i].CID) < w.cname(conns[j].CID) })
	for _, c := range conns {
		tok := c.Token
		if tok == "" {
			tok = "nil"
		}
		line := fmt.Sprintf("C %s token=%s tid=%s ver=%d", w.cname(c.CID), tok, c.TID, c.Protocol)
		for _, s := range c.Subs {
			refs := make([]string, 0)
			for r, n := range s.Refs {
				refs = append(refs, fmt.Sprintf("%s*%d", r, n))
			}
			sort.Strings(refs)
			line += fmt.Sprintf(" | %s st=%d d=%d i=%d is=%d qf=%d fl=%d v=%d eq=%d acc=%s acb=%d rcb=%d res=%s refs=%s",
				s.RID, s.State, s.Direct, s.Indirect, s.IndirectSent, s.QueueFlag, s.Flags, s.Version, s.EventQueue,
				b2s(s.HasAccess), s.AccessCbs, s.ReadyCbs, b2s(s.HasRes), strings.Join(refs, ","))
		}
		out = append(out, line)
	}
	return out
}

// absCached renders a cached value (JSON of map/array of values) abstractly.
func absCached(js string) string {
	if js == "" {
		return "-"
	}
	if js[0] == '[' {
		var c []json.RawMessage
		json.Unmarshal([]byte(js), &c)
		return absColl(c)
	}
	var m map[string]json.RawMessage
	json.Unmarshal([]byte(js), &m)
	return absModel(m)
}

// frameHint gives the model the decoded parameters it needs (protocol / count).
func frameHint(method, params string) string {
	if method == "version" {
		if params == "" || params == "null" {
			return "-"
		}
		var vp struct {
			Protocol string `json:"protocol"`
		}
		if json.Unmarshal([]byte(params), &vp) != nil {
			return "proto=bad"
		}
		return "proto=" + vp.Protocol
	}
	if strings.HasPrefix(method, "unsubscribe.") {
		if params == "" || params == "null" {
			return "-"
		}
		var up struct {
			Count *int `json:"count"`
		}
		if json.Unmarshal([]byte(params), &up) != nil {
			return "count=bad"
		}
		if up.Count == nil {
			return "-"
		}
		return fmt.Sprintf("count=%d", *up.Count)
	}
	if params == "" {
		return "-"
	}
	return compactJSON([]byte(params))
}

// absEvent decodes an event payload into the abstract form the model reads.
func absEvent(subject, payload string) string {
	switch {
	case subject == "system.reset":
		var sr struct {
			Resources []string `json:"resources"`
			Access    []string `json:"access"`
		}
		json.Unmarshal([]byte(payload), &sr)
		return "reset:resources=" + strings.Join(sr.Resources, ";") + "|access=" + strings.Join(sr.Access, ";")
	case subject == "system.tokenReset":
		var tr struct {
			TIDs    []string `json:"tids"`
			Subject string   `json:"subject"`
		}
		json.Unmarshal([]byte(payload), &tr)
		return "tokenreset:tids=" + strings.Join(tr.TIDs, ";") + "|subject=" + tr.Subject
	case strings.HasPrefix(subject, "conn."):
		var te struct {
			Token json.RawMessage `json:"token"`
			TID   string          `json:"tid"`
		}
		if json.Unmarshal([]byte(payload), &te) != nil {
			return "bad"
		}
		return "token:" + compactJSON(te.Token) + "|tid=" + te.TID
	}
	i := strings.LastIndexByte(subject, '.')
	ev := subject[i+1:]
	switch ev {
	case "query":
		var q struct {
			Subject string `json:"subject"`
		}
		if json.Unmarshal([]byte(payload), &q) != nil {
			return "bad"
		}
		return "query:subject=" + q.Subject
	case "change":
		var d struct {
			Values map[string]json.RawMessage `json:"values"`
		}
		var top map[string]json.RawMessage
		if json.Unmarshal([]byte(payload), &top) != nil {
			return "bad"
		}
		// RES-service v1.0: the payload is the values object itself unless it is exactly
		// {"values":{...}} (codec.IsLegacyChangeEvent)
		legacy := len(top) != 1
		if v, ok := top["values"]; !ok || !strings.HasPrefix(strings.TrimLeft(string(v), " \t\r\n"), "{") {
			legacy = true
		}
		if legacy {
			d.Values = top
		} else if json.Unmarshal([]byte(payload), &d) != nil || d.Values == nil {
			return "bad"
		}
		keys := make([]string, 0)
		for k := range d.Values {
			keys = append(keys, k)
		}
		sort.Strings(keys)
		parts := make([]string, len(keys))
		for i, k := range keys {
			av := absValue(d.Values[k])
			if (strings.HasPrefix(av, "r:") || strings.HasPrefix(av, "s:")) && !specValidRID(av[2:], true) {
				return "bad"
			}
			if strings.HasPrefix(av, "raw:") || strings.HasPrefix(av, "str:") || av == "none" || strings.ContainsAny(av, ".") && av[0] == 'p' {
				return "bad"
			}
			parts[i] = k + "=" + av
		}
		return "change:{" + strings.Join(parts, ",") + "}"
	case "add":
		var d struct {
			Idx   *int            `json:"idx"`
			Value json.RawMessage `json:"value"`
		}
		if json.Unmarshal([]byte(payload), &d) != nil || d.Value == nil {
			return "bad"
		}
		av := absValue(d.Value)
		if (strings.HasPrefix(av, "r:") || strings.HasPrefix(av, "s:")) && !specValidRID(av[2:], true) {
			return "bad"
		}
		if strings.HasPrefix(av, "raw:") || strings.HasPrefix(av, "str:") || av == "del" || av == "none" {
			return "bad"
		}
		idx := 0
		if d.Idx != nil {
			idx = *d.Idx
		}
		return fmt.Sprintf("add:idx=%d,value=%s", idx, av)
	case "remove":
		var d struct {
			Idx *int `json:"idx"`
		}
		if json.Unmarshal([]byte(payload), &d) != nil {
			return "bad"
		}
		idx := 0
		if d.Idx != nil {
			idx = *d.Idx
		}
		return fmt.Sprintf("remove:idx=%d", idx)
	default:
		if payload == "" {
			return "custom:-"
		}
		var any interface{}
		if json.Unmarshal([]byte(payload), &any) != nil {
			return "bad"
		}
		return "custom:" + compactJSON([]byte(payload))
	}
}

// modelLine is what the implementation showed for a step, in the format of the model driver.
func (r *stepRec) modelLine() string {
	return strings.Join(r.Obs, " ;; ") + " ## " + strings.Join(r.Snap, " ;; ")
}

// canonObs orders the observations of one step: frames grouped by client in wire order, except
// that runs of consecutive event frames without a resource set are ordered by resource id (the
// order in which the queues of different resources are flushed is Go's map order; the order per
// resource and relative to every response / hand-over is kept). Everything else is sorted.
func canonObs(obs []string) []string {
	var frames, rest []string
	for _, o := range obs {
		if strings.HasPrefix(o, "F ") {
			frames = append(frames, o)
		} else {
			rest = append(rest, o)
		}
	}
	sort.SliceStable(frames, func(i, j int) bool {
		return strings.SplitN(frames[i], " ", 3)[1] < strings.SplitN(frames[j], " ", 3)[1]
	})
	isBarrier := func(f string) bool {
		p := strings.SplitN(f, " ", 4)
		return len(p) < 4 || p[2] != "ev" || strings.Contains(f, "R{M:") || strings.Contains(f, "R{C:") || strings.Contains(f, "R{E:")
	}
	key := func(f string) string { // client + rid of an event frame
		p := strings.SplitN(f, " ", 5)
		return p[1] + " " + p[3]
	}
	i := 0
	for i < len(frames) {
		if isBarrier(frames[i]) {
			i++
			continue
		}
		j := i
		for j < len(frames) && !isBarrier(frames[j]) && strings.SplitN(frames[j], " ", 3)[1] == strings.SplitN(frames[i], " ", 3)[1] {
			j++
		}
		seg := frames[i:j]
		sort.SliceStable(seg, func(a, b int) bool { return key(seg[a]) < key(seg[b]) })
		i = j
	}
	// responses to different requests of one client that follow one another directly: their
	// relative order is the order in which cache workers of different resources reached the
	// connection's queue (a real race, and no property orders them) - compared by request id
	resID := func(f string) (string, int, bool) {
		p := strings.SplitN(f, " ", 5)
		if len(p) < 4 || p[2] != "res" {
			return "", 0, false
		}
		n, err := strconv.Atoi(p[3])
		return p[1], n, err == nil
	}
	i = 0
	for i < len(frames) {
		c, _, ok := resID(frames[i])
		if !ok {
			i++
			continue
		}
		j := i
		for j < len(frames) {
			c2, _, ok2 := resID(frames[j])
			if !ok2 || c2 != c {
				break
			}
			j++
		}
		seg := frames[i:j]
		sort.SliceStable(seg, func(a, b int) bool {
			_, x, _ := resID(seg[a])
			_, y, _ := resID(seg[b])
			return x < y
		})
		i = j
	}
	sort.Strings(rest)
	return append(frames, rest...)
}

// httpGet issues GET <path> against the API (temporary connection inside the gateway).
func (w *world) httpGet(path, rawQuery string) { w.httpDo("GET", path, rawQuery, "") }

// specValidPart: IsValidRIDPart as the property reads it (non-empty, printable, no dot, no
// wildcard characters, no '?').
func specValidPart(p string) bool {
	if p == "" {
		return false
	}
	for i := 0; i < len(p); i++ {
		c := p[i]
		if c < 33 || c > 126 || c == '.' || c == '*' || c == '>' || c == '?' {
			return false
		}
	}
	return true
}

// httpDo issues one HTTP request (GET, HEAD or POST) against the API.
func (w *world) httpDo(method, path, rawQuery, body string) {
	name := fmt.Sprintf("h%d", len(w.https))
	var stim string
	getRID := ""
	switch method {
	case "PUT":
		rid := server.PathToRID(path, rawQuery, "/api/")
		params := "-"
		if strings.TrimSpace(body) != "" {
			params = compactJSON([]byte(body))
		}
		stim = "http " + name + " PUT " + rid + " " + params
		if !specValidRID(rid, true) || (len(path) > len("/api/") && path[len(path)-1] == '/') {
			stim = "http " + name + " GET404"
		}
	case "DELETE":
		stim = "http " + name + " DELETE405"
		if len(path) > len("/api/") && path[len(path)-1] == '/' {
			stim = "http " + name + " GET404"
		}
	case "POST":
		rid, action := server.PathToRIDAction(path, rawQuery, "/api/")
		params := "-"
		if strings.TrimSpace(body) != "" {
			params = compactJSON([]byte(body))
		}
		stim = "http " + name + " POST " + rid + " " + action + " " + params
		if !specValidRID(rid, true) || !specValidPart(action) || (len(path) > len("/api/") && path[len(path)-1] == '/') {
			stim = "http " + name + " POST404"
		}
	default:
		rid := server.PathToRID(path, rawQuery, "/api/")
		getRID = rid
		stim = "http " + name + " " + method + " " + rid
		if !specValidRID(rid, true) || (len(path) > len("/api/") && path[len(path)-1] == '/') {
			stim = "http " + name + " GET404"
		}
	}
	h := &httpReq{name: name, rec: httptest.NewRecorder(), done: make(chan struct{}), conn: fmt.Sprintf("c%d", len(w.cidName)), method: method, rid: getRID}
	w.https = append(w.https, h)
	w.apply(stim, func() {
		url := "http://example.org" + path
		if rawQuery != "" {
			url += "?" + rawQuery
		}
		var rd io.Reader
		if body != "" {
			rd = strings.NewReader(body)
		}
		req := httptest.NewRequest(method, url, rd)
		go func() {
			w.serv.ServeHTTP(h.rec, req)
			close(h.done)
		}()
		// wait until the request has either completed or sent its first request (access or header
		// authentication) to the messaging system. Registering the temporary connection is not
		// enough: between that and the first request the handler goroutine is in nobody's queue, and
		// if it is descheduled there the gateway looks idle although the request has not begun
		// (false-alarm log 29)
		deadline := time.Now().Add(4 * time.Second)
		for time.Now().Before(deadline) {
			select {
			case <-h.done:
				return
			default:
			}
			if w.mq.logHasReq() {
				return
			}
			time.Sleep(20 * time.Microsecond)
		}
	})
}

// absHTTP renders an HTTP answer: status and canonical body (errors by code only).
func absHTTP(rec *httptest.ResponseRecorder) string {
	out := absHTTPBody(rec)
	if loc := rec.Header().Get("Location"); loc != "" {
		out += " loc=" + loc
	}
	return out
}

func absHTTPBody(rec *httptest.ResponseRecorder) string {
	body := strings.TrimSpace(rec.Body.String())
	if body == "" {
		return fmt.Sprintf("status=%d body=-", rec.Code)
	}
	var v interface{}
	d := json.NewDecoder(strings.NewReader(body))
	d.UseNumber()
	if d.Decode(&v) != nil {
		return fmt.Sprintf("status=%d body=unparsable:%s", rec.Code, hx(body))
	}
	if m, ok := v.(map[string]interface{}); ok {
		if c, ok := m["code"].(string); ok && isErrObj(m) {
			return fmt.Sprintf("status=%d body=err:%s", rec.Code, c)
		}
	}
	b, _ := json.Marshal(canonErr(v))
	return fmt.Sprintf("status=%d body=%s", rec.Code, b)
}

func isErrObj(m map[string]interface{}) bool {
	if _, ok := m["code"]; !ok {
		return false
	}
	for k := range m {
		if k != "code" && k != "message" && k != "data" {
			return false
		}
	}
	return true
}

// canonErr reduces embedded error objects to their code.
func canonErr(v interface{}) interface{} {
	switch t := v.(type) {
	case map[string]interface{}:
		if isErrObj(t) {
			return map[string]interface{}{"code": t["code"]}
		}
		for k, x := range t {
			t[k] = canonErr(x)
		}
		return t
	case []interface{}:
		for i, x := range t {
			t[i] = canonErr(x)
		}
		return t
	}
	return v
}

// canonModelLine canonicalises the JSON body of H lines produced by the model.
func canonModelLine(line string) string {
	parts := strings.Split(line, " ;; ")
	for i, p := range parts {
		idx := strings.Index(p, " body=")
		if !strings.HasPrefix(p, "H ") || idx < 0 {
			continue
		}
		rest := p[idx+6:]
		end := strings.Index(rest, " ## ")
		tail := ""
		if end >= 0 {
			tail = rest[end:]
			rest = rest[:end]
		}
		if rest == "-" || strings.HasPrefix(rest, "err:") {
			continue
		}
		var v interface{}
		d := json.NewDecoder(strings.NewReader(rest))
		d.UseNumber()
		if d.Decode(&v) == nil {
			b, _ := json.Marshal(canonErr(v))
			parts[i] = p[:idx+6] + string(b) + tail
		}
	}
	return strings.Join(parts, " ;; ")
}

// mutateJSON returns a structural mutation of a JSON message: one node replaced by a value of
// another shape, a key dropped or duplicated, or the text damaged. The result is what a faulty
// service might send; the gateway must survive it (C15).
func mutateJSON(r *rng, data []byte) []byte {
	var v interface{}
	if json.Unmarshal(data, &v) != nil || r.chance(1, 12) {
		switch r.intn(4) {
		case 0:
			if len(data) > 1 {
				return data[:r.intn(len(data))]
			}
			return []byte("{")
		case 1:
			return append(append([]byte{}, data...), []byte(`,{"x":1}`)...)
		case 2:
			return []byte("null")
		default:
			return []byte(`[` + string(data) + `]`)
		}
	}
	repl := []interface{}{nil, "", 0, -1, 1e99, []interface{}{}, map[string]interface{}{}, "x", true, []interface{}{nil}, map[string]interface{}{"rid": nil},
		map[string]interface{}{"rid": "m.a"}, map[string]interface{}{"rid": "m..a"}, []interface{}{nil, nil}, map[string]interface{}{"data": nil}, map[string]interface{}{"action": "delete"},
		"system.notFound", 4294967296, -2147483649, 0.5, map[string]interface{}{"code": 1, "message": 2}, []interface{}{map[string]interface{}{}}, map[string]interface{}{"status": "x"}}
	// count nodes
	var count func(x interface{}) int
	count = func(x interface{}) int {
		n := 1
		switch t := x.(type) {
		case map[string]interface{}:
			for _, c := range t {
				n += count(c)
			}
		case []interface{}:
			for _, c := range t {
				n += count(c)
			}
		}
		return n
	}
	target := r.intn(count(v))
	idx := 0
	var walk func(x interface{}) interface{}
	walk = func(x interface{}) interface{} {
		me := idx
		idx++
		if me == target {
			switch t := x.(type) {
			case map[string]interface{}:
				if len(t) > 0 && r.chance(1, 3) {
					keys := make([]string, 0, len(t))
					for k := range t {
						keys = append(keys, k)
					}
					sort.Strings(keys)
					delete(t, keys[r.intn(len(keys))])
					return t
				}
			case []interface{}:
				if r.chance(1, 3) {
					return append(t, nil)
				}
			}
			return repl[r.intn(len(repl))]
		}
		switch t := x.(type) {
		case map[string]interface{}:
			keys := make([]string, 0, len(t))
			for k := range t {
				keys = append(keys, k)
			}
			sort.Strings(keys)
			for _, k := range keys {
				t[k] = walk(t[k])
			}
			return t
		case []interface{}:
			for i := range t {
				t[i] = walk(t[i])
			}
			return t
		}
		return x
	}
	out, err := json.Marshal(walk(v))
	if err != nil {
		return []byte("null")
	}
	return out
}

// accessCheckWaiting: some live connection has a subscription whose access request has been
// announced (flagAccessCalled / callbacks registered) but not answered.
// refetchWaiting: some cached resource is marked as being re-fetched by a system reset.
func (w *world) refetchWaiting() bool {
	for _, e := range w.serv.VerifCache().VerifSnapshot() {
		if e.Base != nil && e.Base.Resetting {
			return true
		}
		for _, q := range e.Queries {
			if q.Resetting {
				return true
			}
		}
	}
	return false
}

func (w *world) accessCheckWaiting() bool {
	for _, cs := range w.serv.VerifSnapshot() {
		for _, s := range cs.Subs {
			if s.AccessCbs > 0 || s.Flags&1 != 0 {
				return true
			}
		}
	}
	return false
}
