package main

import (
	"bytes"
	"fmt"
	"hash/fnv"
	"os"
	"os/exec"
	"sort"
	"strings"
)

// runGW runs histories of the given profiles against the real gateway and reports monitor
// violations (and, when the model is attached, model/implementation disagreements).
func runGW(suite, tier string, seed uint64, out string, only int, trace bool, count int, snap bool, driver string, useModel bool) int {
	ps := profiles()
	if cl := os.Getenv("RGH_CRASHLOG"); cl != "" {
		crashLog, _ = os.Create(cl)
	}
	names := strings.Split(suite, ",")
	if suite == "" || suite == "all" {
		names = names[:0]
		for k := range ps {
			names = append(names, k)
		}
		sort.Strings(names)
	}
	var results []*suiteResult
	bad := false
	for _, n := range names {
		p, ok := ps[n]
		if !ok {
			fmt.Fprintln(os.Stderr, "unknown profile", n)
			return 2
		}
		nh := 120
		if tier == "thorough" {
			nh = 3000
		}
		if p.mutatePct > 0 {
			nh *= 8 // no model comparison: histories are cheap
		}
		if count > 0 {
			nh = count
		}
		res := &suiteResult{Suite: "gw:" + n, Distribution: map[string]int{},
			Rule: fmt.Sprintf("seeded random histories (profile %s: <=%d stimuli + drain + universal reset + disconnect + eviction) on the real gateway, each stimulus run to quiescence; non-trivial = at least 20 steps; distinct by the hash of the stimulus sequence", n, p.steps)}
		seen := map[uint64]struct{}{}
		vseen := map[string]bool{}
		for i := 0; i < nh; i++ {
			if only >= 0 && i != only {
				continue
			}
			hr := runHistory(p, seed, i, trace || useModel, snap || useModel)
			res.Evaluations++
			for k, v := range hr.Kinds {
				res.Distribution[k] += v
			}
			res.Distribution["steps"] += hr.NSteps
			if hr.NSteps >= 20 {
				h := fnv.New64a()
				for _, s := range hr.Steps {
					h.Write([]byte(s.Stim))
				}
				if len(hr.Steps) == 0 {
					h.Write([]byte(fmt.Sprint(seed, i)))
				}
				seen[h.Sum64()] = struct{}{}
			}
			if trace {
				for _, s := range hr.Steps {
					fmt.Println(s.Stim)
					for _, o := range s.Obs {
						fmt.Println("    " + o)
					}
					for _, o := range s.Wire {
						fmt.Println("    wire: " + o)
					}
					for _, o := range s.Snap {
						fmt.Println("      " + o)
					}
				}
			}
			if len(res.Samples) < 3 && hr.NSteps >= 20 && len(hr.Steps) > 0 {
				var sb []string
				for _, s := range hr.Steps[:8] {
					sb = append(sb, s.Stim)
				}
				res.Samples = append(res.Samples, strings.Join(sb, " ; "))
			}
			// (after two confirmed disagreements the correspondence is broken anyway: the remaining
			// histories run with monitors only, which keeps a failing run short)
			if useModel && res.MismatchCount < 2 && (hr.RefThr == 0 || os.Getenv("RGH_COMPARE_REFTHROTTLE") != "") && hr.RstThr == 0 && !hr.Mutated {
				res.Distribution["model-compared"]++
				step, impl, model, err := compareWithModel(driver, hr)
				// Go's map iteration order (fan-out to two subscriptions of one connection, ...)
				// is not part of the model: a disagreement counts only if it persists over re-runs.
				for retry := 0; err == nil && step >= 0 && retry < 4; retry++ {
					res.Distribution["model-retry"]++
					hr2 := runHistory(p, seed, i, true, true)
					if s2, _, _, e2 := compareWithModel(driver, hr2); e2 == nil && s2 < 0 {
						step = -1
					}
				}
				if err != nil {
					fmt.Fprintln(os.Stderr, "model driver:", err)
					return 2
				} else if step >= 0 {
					res.MismatchCount++
					res.Distribution["model-mismatch"]++
					if len(res.Mismatches) < 5 {
						st := hr.Steps
						if step+1 < len(st) {
							st = st[:step+1]
						}
						res.Mismatches = append(res.Mismatches, mismatch{
							Line: fmt.Sprintf("profile=%s seed=%d history=%d step=%d stimulus=%s", n, seed, i, step, hr.Steps[step].Stim),
							Impl: impl, Model: model, Trace: st})
					}
					bad = true
				}
			}
			for _, v := range hr.Viols {
				res.SpecViolationCount++
				res.Distribution["violation:"+v.Prop+"/"+v.Key]++
				k := v.Prop + "/" + v.Key
				if vseen[k] {
					continue
				}
				vseen[k] = true
				bad = true
				steps := hr.Steps
				if v.Step+1 < len(steps) && v.Step > 0 {
					steps = steps[:v.Step+1]
				}
				res.SpecViolations = append(res.SpecViolations, mismatch{
					Line: fmt.Sprintf("profile=%s seed=%d history=%d step=%d", n, seed, i, v.Step), Impl: v.What, Model: v.What,
					Prop: v.Prop, Key: v.Key, Trace: steps})
			}
		}
		res.DistinctNontrivial = len(seen)
		if len(res.Samples) == 0 {
			res.Samples = []string{fmt.Sprintf("profile=%s seed=%d", n, seed)}
		}
		results = append(results, res)
	}
	if err := writeJSON(out, results); err != nil {
		fmt.Fprintln(os.Stderr, err)
		return 2
	}
	if bad {
		return 1
	}
	return 0
}

// compareWithModel replays the stimuli of a history on the Lean model driver and compares, step by
// step, observations and state snapshots. Returns the first disagreeing step (or -1).
func compareWithModel(driver string, hr *historyResult) (int, string, string, error) {
	// the iteration order of Go maps is a parameter of the model: any order that agrees counts
	var step int
	var impl, model string
	var err error
	// map order 0..5: one policy for every map range; from 6 on: an own pseudo-random order per
	// range. Scheduler policy (ord / 36): 0 = oldest head item first, 1 = newest first, 2.. = random.
	var ords []int
	for ord := 0; ord < 36; ord++ {
		ords = append(ords, ord)
	}
	for sched := 1; sched <= 3; sched++ {
		for _, mo := range []int{0, 6, 7, 8, 9, 10, 11, 12, 13, 14, 15, 16} {
			ords = append(ords, sched*36+mo)
		}
	}
	for _, ord := range ords {
		step, impl, model, err = compareWithModelOrd(driver, hr, ord)
		if err != nil || step < 0 {
			return step, impl, model, err
		}
	}
	return step, impl, model, err
}

func compareWithModelOrd(driver string, hr *historyResult, ord int) (int, string, string, error) {
	var in bytes.Buffer
	fmt.Fprintf(&in, "gw-begin %d %d 1 %d %s %s\n", hr.RefThr, hr.RstThr, ord, b2s(hr.Flat), b2s(hr.HAuth))
	var idx []int
	for i, s := range hr.Steps {
		if strings.HasPrefix(s.Stim, "#") {
			continue
		}
		in.WriteString(s.Stim)
		in.WriteByte('\n')
		idx = append(idx, i)
	}
	in.WriteString("gw-end\n")
	cmd := exec.Command(driver)
	cmd.Stdin = &in
	var out bytes.Buffer
	cmd.Stdout = &out
	cmd.Stderr = os.Stderr
	if err := cmd.Run(); err != nil {
		return -1, "", "", err
	}
	lines := strings.Split(strings.TrimRight(out.String(), "\n"), "\n")
	if len(lines) != len(idx)+2 {
		return -1, "", "", fmt.Errorf("driver returned %d lines for %d stimuli", len(lines), len(idx))
	}
	for k, i := range idx {
		want := hr.Steps[i].modelLine()
		got := canonModelLine(lines[k+1])
		if got != want {
			return i, want, got, nil
		}
	}
	return -1, "", "", nil
}
