package main

import (
	"encoding/json"
	"fmt"
	"net/http"
	"net/http/httptest"
	"net/url"
	"strings"
	"time"

	"github.com/resgateio/resgate/server"
	"github.com/resgateio/resgate/server/reserr"
)

// suiteHTTPPath (C14, C17): the real `ServeHTTP` with every HTTP method — GET, HEAD, POST, PUT
// and PATCH mapped to call methods by the configuration, DELETE unmapped, plus an unknown one —
// on valid and invalid paths (wildcards, empty tokens, escapes that decode to separators,
// whitespace, control and non-ASCII bytes, trailing slash). Observed: 404 / 405 without any
// service request, or the resource id, query and call method of the requests actually sent;
// compared with the model's `Enc.httpDispatch`. Spec monitor: every subject sent is hygienic.
func suiteHTTPPath(tier string, r *rng) func(emit func(pureCase)) {
	maxLen := 3
	nRand := 1500
	if tier == "thorough" {
		maxLen = 4
		nRand = 30000
	}
	alpha := []string{"a", "/", ".", "%2E", "%2F", "%20", "%0D%0A", "%2A", "%3E", "*", ">", "b", "%3F", "+", "%C3%A5", "{cid}"}
	methods := []string{"GET", "HEAD", "POST", "PUT", "PATCH", "DELETE", "BREW"}
	put, patch := "put", "upd"
	mapped := map[string]string{"PUT": put, "PATCH": patch}
	return func(emit func(pureCase)) {
		m := newMockMQ()
		cfg := server.Config{NoHTTP: true}
		cfg.SetDefault()
		cfg.PUTMethod, cfg.PATCHMethod = &put, &patch
		serv, err := server.NewService(m, cfg)
		if err != nil {
			emit(pureCase{line: "httppath-setup", impl: "newservice-failed", specErr: err.Error(), noModel: true, class: "error"})
			return
		}
		serv.SetLogger(&memLogger{})
		if err := serv.Start(); err != nil {
			emit(pureCase{line: "httppath-setup", impl: "start-failed", specErr: err.Error(), noModel: true, class: "error"})
			return
		}
		defer serv.Stop(nil)
		one := func(method, rawPath, rawQuery string) {
			u := &url.URL{Scheme: "http", Host: "example.org", RawQuery: rawQuery}
			// what net/http hands the handler for this request line
			p, perr := url.PathUnescape(rawPath)
			if perr != nil {
				return // the server refuses such a request line before the handler runs
			}
			u.Path, u.RawPath = p, rawPath
			if u.EscapedPath() != rawPath {
				u.RawPath = ""
			}
			req := httptest.NewRequest(method, "http://example.org/", strings.NewReader("{}"))
			req.URL = u
			rec := httptest.NewRecorder()
			done := make(chan struct{})
			go func() { serv.ServeHTTP(rec, req); close(done) }()
			var subjects []string
			var query, cid string
			deadline := time.Now().Add(3 * time.Second)
		wait:
			for time.Now().Before(deadline) {
				select {
				case <-done:
					break wait
				default:
				}
				for _, rq := range m.outstanding() {
					m.take(rq.id)
					subjects = append(subjects, rq.subject)
					var pl struct {
						Query string `json:"query"`
						CID   string `json:"cid"`
					}
					json.Unmarshal(rq.payload, &pl)
					if pl.CID != "" {
						cid = pl.CID
					}
					if pl.Query != "" {
						query = pl.Query
					}
					switch {
					case strings.HasPrefix(rq.subject, "access."):
						go rq.cb(rq.subject, []byte(`{"result":{"get":true,"call":"*"}}`), nil)
					default:
						go rq.cb(rq.subject, []byte(errJSON(reserr.CodeNotFound)), nil)
					}
				}
				time.Sleep(50 * time.Microsecond)
			}
			select {
			case <-done:
			case <-time.After(3 * time.Second):
				emit(pureCase{line: "httppath " + method + " " + hx(rawPath), impl: "hang", specErr: "HTTP request did not complete", noModel: true, class: "error"})
				return
			}
			path := u.RawPath
			if path == "" {
				path = u.Path
			}
			mp := "-"
			if a, ok := mapped[method]; ok {
				mp = hx(a)
			}
			pc := pureCase{line: fmt.Sprintf("httpdispatch %s %s %s %s %s", hx(method), hx(path), hx(rawQuery), hx("/api/"), mp)}
			var rid, action, kind string
			for _, s := range subjects {
				switch {
				case strings.HasPrefix(s, "access."):
					rid = strings.TrimPrefix(s, "access.")
				case strings.HasPrefix(s, "get."):
					kind = "get"
				case strings.HasPrefix(s, "call."):
					kind = "call"
					rest := strings.TrimPrefix(s, "call.")
					if i := strings.LastIndexByte(rest, '.'); i >= 0 {
						action = rest[i+1:]
					}
				}
				if !specHygienic(s) {
					pc.specErr = fmt.Sprintf("%s %q caused a request on the unhygienic subject %q", method, rawPath, s)
				}
			}
			if cid != "" {
				// the model's verdict names the resource before `{cid}` expansion
				rid = strings.ReplaceAll(rid, cid, "{cid}")
				query = strings.ReplaceAll(query, cid, "{cid}")
			}
			full := hx(rid) + " " + hx(query)
			switch {
			case len(subjects) == 0 && rec.Code == http.StatusNotFound:
				pc.impl = "404"
			case len(subjects) == 0 && rec.Code == http.StatusMethodNotAllowed:
				pc.impl = "405"
			case kind == "get":
				pc.impl = "get " + full
			case kind == "call":
				pc.impl = "call " + full + " " + hx(action)
			default:
				pc.impl = fmt.Sprintf("status=%d subjects=%v", rec.Code, subjects)
			}
			pc.class = method + " " + strings.SplitN(pc.impl, " ", 2)[0]
			pc.trivial = false
			emit(pc)
		}
		var paths []string
		allStrings(alpha, maxLen, func(p string) { paths = append(paths, "/api/m/"+p, "/api/"+p) })
		for i, p := range paths {
			for _, me := range methods {
				if i%2 == 1 && me != "GET" && me != "PUT" && me != "DELETE" {
					continue // the shorter prefix: three methods suffice
				}
				one(me, p, "")
			}
		}
		for i := 0; i < nRand; i++ {
			p := "/api/" + randString(r, alpha, 7)
			one(methods[r.intn(len(methods))], p, randString(r, []string{"q=a", "&", "x", "%20", ""}, 2))
		}
		for _, me := range methods {
			for _, p := range []string{"/api/", "/api/m/a/", "/api/m/a/set", "/api/m/a/set/", "/api/m//a", "/api/m/a/%2E", "/api/m/a/se%20t"} {
				one(me, p, "")
			}
		}
	}
}
