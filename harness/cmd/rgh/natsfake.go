package main

import (
	"bufio"
	"fmt"
	"net"
	"strconv"
	"strings"
	"sync"
	"time"

	rnats "github.com/resgateio/resgate/nats"
	"github.com/resgateio/resgate/server/mq"
	"github.com/resgateio/resgate/server/reserr"
)

// A minimal NATS server (text protocol: INFO/CONNECT/PING/PONG/SUB/UNSUB/PUB/HPUB/MSG/HMSG) that
// lets the harness script what happens to every request of the adapter under test. It enforces
// nats-server's control-line rule (server/parser.go, overMaxControlLineLimit: an argument line
// longer than max_control_line closes the connection with -ERR).

type fakeSub struct {
	sid     string
	subject string
}

type fakeReq struct {
	subject string
	reply   string
	payload []byte
}

type fakeNATS struct {
	ln      net.Listener
	mu      sync.Mutex
	conn    net.Conn
	w       *bufio.Writer
	subs    []fakeSub
	onReq   func(r fakeReq)
	overMax int
	closed  bool
}

func newFakeNATS() (*fakeNATS, error) {
	ln, err := net.Listen("tcp", "127.0.0.1:0")
	if err != nil {
		return nil, err
	}
	f := &fakeNATS{ln: ln}
	go f.accept()
	return f, nil
}

func (f *fakeNATS) url() string { return "nats://" + f.ln.Addr().String() }

func (f *fakeNATS) accept() {
	c, err := f.ln.Accept()
	if err != nil {
		return
	}
	f.mu.Lock()
	f.conn = c
	f.w = bufio.NewWriter(c)
	f.w.WriteString(`INFO {"server_id":"FAKE","version":"2.6.6","proto":1,"go":"go","host":"127.0.0.1","port":4222,"headers":true,"max_payload":1048576}` + "\r\n")
	f.w.Flush()
	f.mu.Unlock()
	rd := bufio.NewReaderSize(c, 1<<16)
	for {
		line, err := rd.ReadString('\n')
		if err != nil {
			return
		}
		line = strings.TrimRight(line, "\r\n")
		op := line
		arg := ""
		if i := strings.IndexByte(line, ' '); i > 0 {
			op, arg = line[:i], line[i+1:]
		}
		if len(arg) > maxControlLine {
			f.mu.Lock()
			f.overMax++
			f.w.WriteString("-ERR 'Maximum Control Line Exceeded'\r\n")
			f.w.Flush()
			f.mu.Unlock()
			c.Close()
			return
		}
		switch strings.ToUpper(op) {
		case "CONNECT":
		case "PING":
			f.send("PONG\r\n")
		case "PONG":
		case "SUB":
			p := strings.Fields(arg)
			f.mu.Lock()
			f.subs = append(f.subs, fakeSub{sid: p[len(p)-1], subject: p[0]})
			f.mu.Unlock()
		case "UNSUB":
			p := strings.Fields(arg)
			f.mu.Lock()
			for i, s := range f.subs {
				if s.sid == p[0] {
					f.subs = append(f.subs[:i], f.subs[i+1:]...)
					break
				}
			}
			f.mu.Unlock()
		case "PUB", "HPUB":
			p := strings.Fields(arg)
			n, _ := strconv.Atoi(p[len(p)-1])
			buf := make([]byte, n+2)
			if _, err := readFull(rd, buf); err != nil {
				return
			}
			r := fakeReq{subject: p[0], payload: buf[:n]}
			if len(p) >= 3 && op == "PUB" {
				r.reply = p[1]
			}
			if f.onReq != nil {
				f.onReq(r)
			}
		}
	}
}

func readFull(rd *bufio.Reader, buf []byte) (int, error) {
	n := 0
	for n < len(buf) {
		k, err := rd.Read(buf[n:])
		if err != nil {
			return n, err
		}
		n += k
	}
	return n, nil
}

func (f *fakeNATS) send(s string) {
	f.mu.Lock()
	defer f.mu.Unlock()
	if f.w != nil {
		f.w.WriteString(s)
		f.w.Flush()
	}
}

// deliver sends a message on subject to every matching subscription (exact or trailing ".*").
func (f *fakeNATS) deliver(subject string, payload []byte, status503 bool) {
	f.mu.Lock()
	var sids []string
	for _, s := range f.subs {
		if s.subject == subject || (strings.HasSuffix(s.subject, ".*") && strings.HasPrefix(subject, s.subject[:len(s.subject)-1]) && !strings.Contains(subject[len(s.subject)-1:], ".")) {
			sids = append(sids, s.sid)
		}
	}
	f.mu.Unlock()
	for _, sid := range sids {
		if status503 {
			hdr := "NATS/1.0 503\r\n\r\n"
			f.send(fmt.Sprintf("HMSG %s %s %d %d\r\n%s\r\n", subject, sid, len(hdr), len(hdr), hdr))
		} else {
			f.send(fmt.Sprintf("MSG %s %s %d\r\n%s\r\n", subject, sid, len(payload), payload))
		}
	}
}

func (f *fakeNATS) close() {
	f.mu.Lock()
	f.closed = true
	if f.conn != nil {
		f.conn.Close()
	}
	f.mu.Unlock()
	f.ln.Close()
}

// ---------- the C18 suite ----------

type natsScript struct {
	name   string
	inputs string // model inputs in order
	run    func(f *fakeNATS, r fakeReq)
	race   bool // a reply racing the timeout: only "exactly one callback" is checked
	want   string
}

func suiteNats(tier string, rg *rng) func(emit func(pureCase)) {
	rounds := 2
	if tier == "thorough" {
		rounds = 12
	}
	const T = 400 * time.Millisecond // RequestTimeout
	reply := func(f *fakeNATS, r fakeReq, after time.Duration, data string) {
		go func() { time.Sleep(after); f.deliver(r.reply, []byte(data), false) }()
	}
	scripts := []natsScript{
		{name: "reply", want: "reply", inputs: "reply", run: func(f *fakeNATS, r fakeReq) { reply(f, r, 5*time.Millisecond, `{"result":1}`) }},
		{name: "silence", want: "timeout", inputs: "fireQueue", run: func(f *fakeNATS, r fakeReq) {}},
		{name: "two-replies", want: "reply", inputs: "reply reply", run: func(f *fakeNATS, r fakeReq) {
			reply(f, r, 5*time.Millisecond, `{"result":1}`)
			reply(f, r, 15*time.Millisecond, `{"result":2}`)
		}},
		{name: "late-reply", want: "timeout", inputs: "fireQueue reply", run: func(f *fakeNATS, r fakeReq) { reply(f, r, T+400*time.Millisecond, `{"result":1}`) }},
		{name: "no-responders", want: "notFound", inputs: "noResponders", run: func(f *fakeNATS, r fakeReq) {
			go func() { time.Sleep(5 * time.Millisecond); f.deliver(r.reply, nil, true) }()
		}},
		{name: "pre-then-reply", want: "reply", inputs: "pre1 reply", run: func(f *fakeNATS, r fakeReq) {
			reply(f, r, 5*time.Millisecond, `timeout:"1600"`)
			reply(f, r, T+400*time.Millisecond, `{"result":1}`) // after the default timeout, before the extended one
		}},
		{name: "pre-then-silence", want: "timeout", inputs: "pre1 fireExtended1", run: func(f *fakeNATS, r fakeReq) {
			reply(f, r, 5*time.Millisecond, `timeout:"200"`)
		}},
		{name: "pre-without-timeout-then-silence", want: "timeout", inputs: "pre0 fireQueue", run: func(f *fakeNATS, r fakeReq) {
			reply(f, r, 5*time.Millisecond, `foo:"bar"`)
		}},
		{name: "pre-pre-reply", want: "reply", inputs: "pre1 pre1 reply", run: func(f *fakeNATS, r fakeReq) {
			reply(f, r, 5*time.Millisecond, `timeout:"900"`)
			reply(f, r, 300*time.Millisecond, `timeout:"1800"`)
			reply(f, r, 1500*time.Millisecond, `{"result":1}`) // after the first extension would have fired
		}},
		{name: "pre-shortens", want: "timeout", inputs: "pre1 fireExtended1 reply", run: func(f *fakeNATS, r fakeReq) {
			reply(f, r, 5*time.Millisecond, `timeout:"100"`)
			reply(f, r, 700*time.Millisecond, `{"result":1}`)
		}},
		{name: "race", inputs: "", race: true, run: func(f *fakeNATS, r fakeReq) { reply(f, r, T, `{"result":1}`) }},
	}
	return func(emitOut func(pureCase)) {
		for round := 0; round < rounds; round++ {
			// The scripts assume an order of replies and timer fires that holds with wide margins; a
			// round whose outcome suggests the order was different (one callback, but the other kind)
			// is run again before it is compared with the model.
			for attempt := 0; ; attempt++ {
				var buf []pureCase
				suspect := false
				emit := func(c pureCase) { buf = append(buf, c) }
				func() {
					f, err := newFakeNATS()
					if err != nil {
						emit(pureCase{line: "nats", impl: "listen-failed", specErr: "cannot listen on loopback: " + err.Error(), class: "error", noModel: true})
						return
					}
					cl := &rnats.Client{URL: f.url(), RequestTimeout: T, Logger: &memLogger{}, BufferSize: 1024}
					closedCh := make(chan error, 1)
					cl.SetClosedHandler(func(err error) { closedCh <- err })
					if err := cl.Connect(); err != nil {
						emit(pureCase{line: "nats", impl: "connect-failed", specErr: "adapter cannot connect to the in-harness server: " + err.Error(), class: "error", noModel: true})
						f.close()
						return
					}
					var mu sync.Mutex
					type result struct{ cbs []string }
					results := map[string]*result{}
					bySubject := map[string]natsScript{}
					f.onReq = func(r fakeReq) {
						mu.Lock()
						sc, ok := bySubject[r.subject]
						mu.Unlock()
						if ok {
							sc.run(f, r)
						}
					}
					// ordered events on a subscription
					var evs []string
					sub, serr := cl.Subscribe("event.res", func(subj string, payload []byte, _ error) {
						mu.Lock()
						evs = append(evs, string(payload))
						mu.Unlock()
					})
					n := 0
					for rep := 0; rep < 4; rep++ {
						for _, sc := range scripts {
							subj := fmt.Sprintf("call.t%d.%s", n, sc.name)
							n++
							res := &result{}
							mu.Lock()
							results[subj] = res
							bySubject[subj] = sc
							mu.Unlock()
							cl.SendRequest(subj, []byte(`{}`), func(_ string, data []byte, err error) {
								mu.Lock()
								defer mu.Unlock()
								switch {
								case err == mq.ErrRequestTimeout:
									res.cbs = append(res.cbs, "timeout")
								case err == mq.ErrNoResponders:
									res.cbs = append(res.cbs, "notFound")
								case err != nil:
									res.cbs = append(res.cbs, "err:"+reserr.RESError(err).Code)
								default:
									res.cbs = append(res.cbs, "reply")
								}
							})
						}
					}
					// a subject beyond the control line limit must be refused by the adapter itself
					long := "call." + strings.Repeat("x", 4200)
					lres := &result{}
					cl.SendRequest(long, []byte(`{}`), func(_ string, _ []byte, err error) {
						mu.Lock()
						defer mu.Unlock()
						if err == mq.ErrSubjectTooLong {
							lres.cbs = append(lres.cbs, "subjectTooLong")
						} else {
							lres.cbs = append(lres.cbs, fmt.Sprint(err))
						}
					})
					// the SUB line is flushed asynchronously: publish only once the server has it
					for w := 0; w < 2000; w++ {
						f.mu.Lock()
						have := false
						for _, sb := range f.subs {
							have = have || sb.subject == "event.res.*"
						}
						f.mu.Unlock()
						if have {
							break
						}
						time.Sleep(time.Millisecond)
					}
					// payloads of every JSON kind (an event payload may be null, true, false, a string,
					// …): the adapter must hand every one of them to the subscription, in order
					evPayloads := []string{`null`, `true`, `false`, `"text"`, `{"a":1}`, `[1]`, `timeout:"1"`, `x`, ``}
					var wantEvs []string
					for i := 0; i < 20; i++ {
						pl := strconv.Itoa(i)
						if i%2 == 1 {
							pl = evPayloads[(i/2)%len(evPayloads)]
						}
						wantEvs = append(wantEvs, pl)
						f.deliver("event.res.change", []byte(pl), false)
					}
					time.Sleep(2300 * time.Millisecond)
					mu.Lock()
					for subj, res := range results {
						sc := bySubject[subj]
						got := strings.Join(res.cbs, ",")
						specErr := ""
						if len(res.cbs) != 1 {
							specErr = fmt.Sprintf("completion callback invoked %d times (%s)", len(res.cbs), got)
						}
						line := "nats " + sc.inputs
						if !sc.race && len(res.cbs) == 1 && got != sc.want {
							suspect = true
						}
						emit(pureCase{line: line, impl: got, specErr: specErr, noModel: sc.race, class: sc.name, trivial: false, key: "callback-count"})
					}
					if strings.Join(lres.cbs, ",") != "subjectTooLong" {
						emit(pureCase{line: "nats-long", impl: strings.Join(lres.cbs, ","), specErr: "over-long subject not answered with system.subjectTooLong exactly once", noModel: true, class: "too-long"})
					} else {
						emit(pureCase{line: "nats-long", impl: "subjectTooLong", noModel: true, class: "too-long"})
					}
					order := strings.Join(evs, ",")
					want := strings.Join(wantEvs, ",")
					ec := pureCase{line: "nats-events", impl: order, noModel: true, class: "event-order"}
					if serr != nil || order != want {
						ec.specErr = fmt.Sprintf("events not delivered in publish order: %s (subscribe error: %v)", order, serr)
					}
					emit(ec)
					mu.Unlock()
					if sub != nil {
						sub.Unsubscribe()
					}
					// loss of the server connection invokes the closed handler
					f.close()
					select {
					case <-closedCh:
						emit(pureCase{line: "nats-closed", impl: "closed-handler", noModel: true, class: "closed"})
					case <-time.After(3 * time.Second):
						emit(pureCase{line: "nats-closed", impl: "none", specErr: "closed handler not invoked after the server connection was lost", noModel: true, class: "closed"})
					}
					cl.Close()
				}()
				if !suspect || attempt >= 2 {
					for _, c := range buf {
						emitOut(c)
					}
					break
				}
			}
		}
		emit := emitOut
		// control-line boundary: every subject length around the limit is either refused by the
		// adapter (system.subjectTooLong) or fits the server's control line
		for L := 4058; L <= 4072; L++ {
			f, err := newFakeNATS()
			if err != nil {
				return
			}
			cl := &rnats.Client{URL: f.url(), RequestTimeout: 150 * time.Millisecond, Logger: &memLogger{}, BufferSize: 64}
			closedCh := make(chan error, 1)
			cl.SetClosedHandler(func(err error) { closedCh <- err })
			if cl.Connect() != nil {
				f.close()
				return
			}
			f.onReq = func(r fakeReq) { go f.deliver(r.reply, []byte(`{"result":1}`), false) }
			subj := "call." + strings.Repeat("x", L-5)
			got := make(chan string, 2)
			payload := []byte(`{"p":"` + strings.Repeat("y", []int{0, 10, 100}[L%3]) + `"}`)
			cl.SendRequest(subj, payload, func(_ string, _ []byte, err error) {
				switch {
				case err == nil:
					got <- "reply"
				case err == mq.ErrSubjectTooLong:
					got <- "subjectTooLong"
				case err == mq.ErrRequestTimeout:
					got <- "timeout"
				default:
					got <- "err"
				}
			})
			out := "none"
			select {
			case out = <-got:
			case <-time.After(time.Second):
			}
			killed := false
			select {
			case <-closedCh:
				killed = true
			case <-time.After(30 * time.Millisecond):
			}
			f.mu.Lock()
			over := f.overMax
			f.mu.Unlock()
			verdict := "pass"
			if out == "subjectTooLong" {
				verdict = "subjectTooLong"
			}
			c := pureCase{line: fmt.Sprintf("natsguard %d %d", L, len(fmt.Sprint(len(payload)))), impl: verdict, class: "guard", key: "control-line-guard"}
			if out != "subjectTooLong" && out != "reply" {
				c.specErr = fmt.Sprintf("request with a subject of %d bytes ended with %s", L, out)
			}
			if killed || over > 0 {
				c.specErr = fmt.Sprintf("subject of %d bytes passed the adapter's guard but exceeds the server's control line limit: the server closed the gateway's only connection (request outcome: %s)", L, out)
			}
			emit(c)
			cl.Close()
			f.close()
		}
	}
}
