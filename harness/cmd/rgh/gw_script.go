package main

import (
	"bufio"
	"encoding/json"
	"fmt"
	"os"
	"strconv"
	"strings"

	"github.com/resgateio/resgate/server/mq"
)

// runScript runs a hand-written or recorded history (one stimulus per line) on the real gateway
// and prints the trace and the monitor verdicts.  Used for replays and for known findings.
//
//	config referenceThrottle=0 resetThrottle=0
//	connect [version]
//	frame c0 subscribe.m.a [params]
//	answer access.m.a grant|deny|ok|timeout|err:<code>|resource:<rid>|result|raw:<json>
//	event event.m.a.change {"values":{"k1":2}}
//	token c0 {"u":1} [tid]
//	disconnect c0 | evict | drain | final | drained | snap
func runScript(path string, quiet bool) (viols []violation, steps []stepRec, err error) {
	f, err := os.Open(path)
	if err != nil {
		return nil, nil, err
	}
	defer f.Close()
	var lines []string
	sc := bufio.NewScanner(f)
	sc.Buffer(make([]byte, 1<<20), 1<<20)
	for sc.Scan() {
		l := strings.TrimSpace(sc.Text())
		if l != "" && !strings.HasPrefix(l, "#") {
			lines = append(lines, l)
		}
	}
	cfg := worldCfg{metrics: true}
	if len(lines) > 0 && strings.HasPrefix(lines[0], "config") {
		for _, kv := range strings.Fields(lines[0])[1:] {
			k, v, _ := strings.Cut(kv, "=")
			n, _ := strconv.Atoi(v)
			switch k {
			case "referenceThrottle":
				cfg.referenceThrottle = n
			case "resetThrottle":
				cfg.resetThrottle = n
			}
		}
		lines = lines[1:]
	}
	u := stdUniverse()
	w, err := newWorld(cfg, u)
	if err != nil {
		return nil, nil, err
	}
	w.wantSnap = !quiet
	g := &gen{r: newRng(1), w: w, p: baseProfile("script"), u: u, kinds: map[string]int{}}
	client := func(name string) *wsClient {
		for _, c := range w.clients {
			if c.name == name {
				return c
			}
		}
		return nil
	}
	for _, l := range lines {
		parts := strings.SplitN(l, " ", 3)
		switch parts[0] {
		case "connect":
			c := w.connect()
			if len(parts) > 1 && c != nil {
				w.request(c, "version", fmt.Sprintf(`{"protocol":%q}`, parts[1]))
			}
		case "frame":
			c := client(parts[1])
			if c == nil {
				return nil, nil, fmt.Errorf("no client %s", parts[1])
			}
			mp := strings.SplitN(parts[2], " ", 2)
			params := ""
			if len(mp) > 1 && mp[1] != "-" {
				params = mp[1]
			}
			w.request(c, mp[0], params)
		case "rawframe":
			w.rawFrame(client(parts[1]), parts[2])
		case "answer":
			subj := parts[1]
			var req *mockReq
			for _, r := range w.mq.outstanding() {
				if w.absSubject(r.subject) == subj {
					req = r
					break
				}
			}
			if req == nil {
				return w.viols, w.steps, fmt.Errorf("no outstanding request on %s", subj)
			}
			how := "ok"
			if len(parts) > 2 {
				how = parts[2]
			}
			switch {
			case how == "grant":
				w.answer(req, "access:get=1,call=*", []byte(`{"result":{"get":true,"call":"*"}}`), nil)
			case how == "deny":
				w.answer(req, "access:get=0,call=", []byte(`{"result":{"get":false}}`), nil)
			case strings.HasPrefix(how, "access:"):
				kv := strings.TrimPrefix(how, "access:")
				get := strings.Contains(kv, "get=1")
				call := ""
				if i := strings.Index(kv, "call="); i >= 0 {
					call = kv[i+5:]
				}
				w.answer(req, how, []byte(fmt.Sprintf(`{"result":{"get":%v,"call":%q}}`, get, call)), nil)
			case how == "timeout":
				w.answer(req, "timeout", nil, mq.ErrRequestTimeout)
			case strings.HasPrefix(how, "err:"):
				w.answer(req, how, []byte(errJSON(how[4:])), nil)
			case strings.HasPrefix(how, "resource:"):
				w.answer(req, how, []byte(fmt.Sprintf(`{"resource":{"rid":%q}}`, how[9:])), nil)
			case how == "result":
				w.answer(req, "result:p1", []byte(`{"result":1}`), nil)
			case strings.HasPrefix(how, "raw:"):
				w.answer(req, "malformed:"+hx(how[4:]), []byte(how[4:]), nil)
			default:
				g.answerOne(req, true)
			}
		case "event":
			pl := ""
			if len(parts) > 2 && parts[2] != "-" {
				pl = parts[2]
			}
			subj := parts[1]
			for cid, n := range w.cidName {
				subj = strings.ReplaceAll(subj, "conn."+n+".", "conn."+cid+".")
				subj = strings.ReplaceAll(subj, "."+n+".", "."+cid+".")
			}
			// keep the truth in step with scripted state events
			w.scriptMutate(subj, pl)
			w.publish(subj, pl)
		case "token":
			c := client(parts[1])
			tp := strings.SplitN(parts[2], " ", 2)
			tid := ""
			if len(tp) > 1 {
				tid = tp[1]
			}
			w.publish("conn."+c.cid+".token", fmt.Sprintf(`{"token":%s,"tid":%q}`, tp[0], tid))
		case "disconnect":
			w.disconnect(client(parts[1]))
		case "evict":
			w.evict()
		case "drain":
			g.drain()
		case "final":
			w.finalChecks()
		case "drained":
			w.drainedChecks()
		case "silent":
			// silent <name> <key> <aval>
			sp := strings.Fields(parts[2])
			if tr := w.truth.get(parts[1], ""); tr != nil && len(sp) == 2 {
				tr.model[sp[0]] = aval(sp[1])
			}
		default:
			return nil, nil, fmt.Errorf("unknown script line: %s", l)
		}
	}
	w.close()
	return w.viols, w.steps, nil
}

// scriptMutate applies a scripted change/add/remove/delete event to the true state.
func (w *world) scriptMutate(subject, payload string) {
	if !strings.HasPrefix(subject, "event.") {
		return
	}
	rest := subject[6:]
	i := strings.LastIndexByte(rest, '.')
	if i < 0 {
		return
	}
	name, ev := rest[:i], rest[i+1:]
	tr := w.truth.get(name, "")
	if tr == nil {
		return
	}
	switch ev {
	case "delete":
		tr.deleted = true
	case "change":
		var d struct {
			Values map[string]jsonRaw `json:"values"`
		}
		if jsonUnmarshal(payload, &d) == nil && tr.def.kind == 'm' {
			for k, v := range d.Values {
				av := absValue(v)
				if av == "del" {
					delete(tr.model, k)
				} else {
					tr.model[k] = aval(av)
				}
			}
		}
	case "add":
		var d struct {
			Idx   int     `json:"idx"`
			Value jsonRaw `json:"value"`
		}
		if jsonUnmarshal(payload, &d) == nil && tr.def.kind == 'c' && d.Idx >= 0 && d.Idx <= len(tr.coll) {
			tr.coll = append(tr.coll[:d.Idx:d.Idx], append([]aval{aval(absValue(d.Value))}, tr.coll[d.Idx:]...)...)
		}
	case "remove":
		var d struct {
			Idx int `json:"idx"`
		}
		if jsonUnmarshal(payload, &d) == nil && tr.def.kind == 'c' && d.Idx >= 0 && d.Idx < len(tr.coll) {
			tr.coll = append(tr.coll[:d.Idx:d.Idx], tr.coll[d.Idx+1:]...)
		}
	}
}

type jsonRaw = json.RawMessage

func jsonUnmarshal(s string, v interface{}) error { return json.Unmarshal([]byte(s), v) }
