package main

import (
	"encoding/json"
	"fmt"
	"github.com/resgateio/resgate/server/rescache"
	"io"
	"net/http"
	"net/http/httptest"
	"regexp"
	"sort"
	"strconv"
	"strings"
)

// ---------------------------------------------------------------------------------------------
// Reference RES client (applies resource sets and events in order, retains what is reachable from
// its direct subscriptions) and the executable spec monitors that run on every implementation
// trace.  A monitor failure on the implementation is a violation in its own right.
// ---------------------------------------------------------------------------------------------

type refRes struct {
	kind    byte // 'm', 'c', 'e'
	model   map[string]string
	coll    []string
	errCode string
	deleted bool
}

type pendingReq struct {
	method string
	rid    string
	kind   string
	count  int
}

type refClient struct {
	redelivered map[string]bool // re-delivered while still held, since the last event seen
	everHeld    map[string]bool // resources that were in some resource set sent to this client
	c           *wsClient
	held        map[string]*refRes
	direct      map[string]int
	pending     map[uint64]*pendingReq
	answered    map[uint64]int
	lastSeq     map[string]int
	// resource ids handed over by a get response while other requests of this client were still
	// pending: the client cannot know which pending answers rely on them, so it keeps them until
	// it has no request outstanding (see DESIGN.md section 10)
	transient map[string]bool
	lastGet   map[string]bool // resources delivered by the get response that was the previous frame
	legacy    bool            // protocol < 1.2.1: soft references and data values arrive encoded
	callRes   bool            // protocol >= 1.2.0: call/auth resource responses subscribe
}

func newRefClient(c *wsClient) *refClient {
	return &refClient{c: c, held: map[string]*refRes{}, direct: map[string]int{}, pending: map[uint64]*pendingReq{},
		answered: map[uint64]int{}, lastSeq: map[string]int{}, transient: map[string]bool{}, legacy: true, callRes: false}
}

// reachable returns the set of resource ids reachable from direct subscriptions via non-soft refs.
func (rc *refClient) reachable() map[string]bool { return rc.reach(true) }

// reach computes the retained set; withTransient also counts what a recent get handed over.
func (rc *refClient) reach(withTransient bool) map[string]bool {
	seen := map[string]bool{}
	var visit func(rid string)
	visit = func(rid string) {
		if seen[rid] {
			return
		}
		seen[rid] = true
		r := rc.held[rid]
		if r == nil {
			return
		}
		vals := r.coll
		if r.kind == 'm' {
			vals = nil
			for _, v := range r.model {
				vals = append(vals, v)
			}
		}
		for _, v := range vals {
			if strings.HasPrefix(v, "r:") {
				visit(v[2:])
			}
		}
	}
	for rid, n := range rc.direct {
		if n > 0 {
			visit(rid)
		}
	}
	if withTransient {
		for rid := range rc.transient {
			visit(rid)
		}
	}
	return seen
}

func (rc *refClient) gc() {
	keep := rc.reachable()
	for rid := range rc.held {
		if !keep[rid] {
			delete(rc.held, rid)
			delete(rc.lastSeq, rid)
		}
	}
}

func (rc *refClient) addResources(rs *rpcResources) {
	if rs == nil {
		return
	}
	// A client keeps what it already holds: a resource delivered again while the client still
	// retains it is ignored (the resource set is specified to contain only resources "previously
	// not subscribed by the client"; RES clients skip cached ones).
	if rc.everHeld == nil {
		rc.everHeld = map[string]bool{}
	}
	for rid := range rs.Models {
		rc.everHeld[rid] = true
	}
	for rid := range rs.Collections {
		rc.everHeld[rid] = true
	}
	for rid := range rs.Errors {
		rc.everHeld[rid] = true
	}
	keep := rc.reach(false)
	skip := func(rid string) bool {
		if keep[rid] && rc.held[rid] != nil && rc.held[rid].kind != 'e' {
			// delivered again although the client still holds it (D7/D9: the gateway had marked it
			// unsent): events in between were withheld from a client that held the resource
			if rc.redelivered == nil {
				rc.redelivered = map[string]bool{}
			}
			rc.redelivered[rid] = true
			return true
		}
		return false
	}
	for rid, m := range rs.Models {
		if skip(rid) {
			continue
		}
		r := &refRes{kind: 'm', model: map[string]string{}}
		for k, v := range m {
			r.model[k] = absValue(v)
		}
		rc.held[rid] = r
		delete(rc.lastSeq, rid)
	}
	for rid, c := range rs.Collections {
		if skip(rid) {
			continue
		}
		r := &refRes{kind: 'c'}
		for _, v := range c {
			r.coll = append(r.coll, absValue(v))
		}
		rc.held[rid] = r
		delete(rc.lastSeq, rid)
	}
	for rid, e := range rs.Errors {
		if skip(rid) {
			continue
		}
		rc.held[rid] = &refRes{kind: 'e', errCode: e.Code}
	}
}

type monitors struct {
	w        *world
	mqSubs   map[string]bool
	tokens   map[string]string          // cid -> token JSON ("" = nil)
	tids     map[string]string          // cid -> token id of the last token event
	resetFor map[string]map[string]bool // tokenReset subject -> token ids named by the resets so far
	// C06: (cid + " " + rid as the client spells it) -> id of the last service request issued before
	// the trigger; the re-check is over when an access answer to a later request arrives
	recheck   map[string]recheckState
	httpHdr   map[string][]metaHdr // cid of a temporary connection -> meta headers its answers carried, in order
	httpEnded map[string]int       // cid of a temporary connection -> direct meta status that ended its request
	curEvent  string               // resource name of the event published in this step ("" otherwise)
	pubStep   map[string]int       // resource name + "#" + sequence number of a custom event -> step of its publication
	gone      map[string]bool      // disconnected cids
	reqOwner  map[int]string
	// C04-C06 bookkeeping: latest access verdict per (cid, resource name?query)
	grants  map[string]*grantState
	queryEv map[string]*queryEvState
}

type grantState struct {
	valid bool
	get   bool
	call  string
	known bool
	// answers received earlier since the last trigger: a call on a resource without a subscription
	// uses a temporary subscription with its own access request, so two requests of one connection
	// for one resource can be outstanding and be answered differently; either answer is a grant
	// the gateway may hold.
	alts []grantAlt
}

type metaHdr struct {
	name   string
	values []string
}

type recheckState struct {
	since int // id of the last service request issued before the trigger
	step  int // step of the trigger
}

type grantAlt struct {
	get  bool
	call string
}

func (g *grantState) canCall(method string) bool {
	if specCanCall(g.call, method) {
		return true
	}
	for _, a := range g.alts {
		if specCanCall(a.call, method) {
			return true
		}
	}
	return false
}

func (g *grantState) canGet() bool {
	if g.get {
		return true
	}
	for _, a := range g.alts {
		if a.get {
			return true
		}
	}
	return false
}

type queryEvState struct {
	resource string
	expected int
	seen     int
}

func newMonitors(w *world) *monitors {
	return &monitors{w: w, mqSubs: map[string]bool{}, tokens: map[string]string{}, tids: map[string]string{}, recheck: map[string]recheckState{}, pubStep: map[string]int{}, resetFor: map[string]map[string]bool{}, gone: map[string]bool{},
		reqOwner: map[int]string{}, grants: map[string]*grantState{}, queryEv: map[string]*queryEvState{}}
}

func (m *monitors) onSub(subject string, on bool) {
	if on {
		if m.mqSubs[subject] {
			m.w.addViolation("C09", "double-subscribe", "second messaging subscription for "+subject+" while one is active")
		}
		m.mqSubs[subject] = true
	} else {
		delete(m.mqSubs, subject)
	}
}

func (m *monitors) onClientRequest(c *wsClient, id uint64, method, params string) {
	p := &pendingReq{method: method}
	if i := strings.IndexByte(method, '.'); i > 0 {
		p.kind = method[:i]
		p.rid = method[i+1:]
		if p.kind == "call" || p.kind == "auth" {
			if j := strings.LastIndexByte(p.rid, '.'); j > 0 {
				p.rid = p.rid[:j]
			}
		}
	} else {
		p.kind = method
	}
	p.count = 1
	if p.kind == "unsubscribe" && params != "" {
		var up struct {
			Count *int `json:"count"`
		}
		if json.Unmarshal([]byte(params), &up) == nil && up.Count != nil {
			p.count = *up.Count
		}
	}
	if p.kind == "version" && params != "" {
		var vp struct {
			Protocol string `json:"protocol"`
		}
		json.Unmarshal([]byte(params), &vp)
		c.version = vp.Protocol
	}
	c.ref.pending[id] = p
}

var reSeq = regexp.MustCompile(`"seq":(\d+)`)

func (m *monitors) onFrame(c *wsClient, f *cframe) {
	rc := c.ref
	w := m.w
	// C10: no connection id in any frame
	for cid := range w.cidName {
		if cid != "" && strings.Contains(f.raw, cid) {
			w.addViolation("C10", "cid-in-frame", "frame to "+c.name+" contains a connection id: "+f.raw)
		}
	}
	if !f.isEvent {
		p, ok := rc.pending[f.id]
		if !ok {
			if rc.answered[f.id] > 0 {
				w.addViolation("C07", "duplicate-response", fmt.Sprintf("second response for id %d on %s: %s", f.id, c.name, f.raw))
			} else {
				w.addViolation("C07", "unrequested-response", fmt.Sprintf("response for unknown id %d on %s: %s", f.id, c.name, f.raw))
			}
			return
		}
		delete(rc.pending, f.id)
		rc.answered[f.id]++
		rc.lastGet = nil
		if p.kind == "get" && !f.hasErr {
			var grs rpcResources
			json.Unmarshal(f.result, &grs)
			rc.lastGet = map[string]bool{}
			for k := range grs.Models {
				rc.lastGet[k] = true
			}
			for k := range grs.Collections {
				rc.lastGet[k] = true
			}
		}
		if len(rc.pending) == 0 && len(rc.transient) > 0 {
			defer func() { rc.transient = map[string]bool{}; rc.gc() }()
		}
		if f.hasErr {
			if !f.errOK {
				w.addViolation("C07", "malformed-error", "error response without string code and message: "+f.raw)
			}
			return
		}
		var rs rpcResources
		json.Unmarshal(f.result, &rs)
		switch p.kind {
		case "version":
			// negotiated protocol decides the encodings
			v := 0
			parts := strings.Split(c.version, ".")
			if len(parts) == 3 {
				for _, s := range parts {
					n, _ := strconv.Atoi(s)
					v = v*1000 + n
				}
			}
			if c.version == "" {
				v = 1002003
			}
			rc.legacy = v < 1002001
			rc.callRes = v >= 1002000
		case "subscribe":
			m.checkDataGrant(c, p.rid, &rs, f)
			rc.addResources(&rs)
			rc.direct[p.rid]++
			m.checkDangling(c, f)
		case "get":
			m.checkDataGrant(c, p.rid, &rs, f)
			// resources are used once; they are kept only while other requests are pending
			rc.addResources(&rs)
			rc.transient[p.rid] = true
			m.checkDangling(c, f)
			if len(rc.pending) == 0 {
				rc.transient = map[string]bool{}
			}
			rc.gc()
		case "unsubscribe":
			rc.direct[p.rid] -= p.count
			if rc.direct[p.rid] < 0 {
				// D2 (known): the gateway counts direct subscriptions of requests that are still
				// pending. Without such a request the success has no excuse.
				pendingDirect := false
				for _, q := range rc.pending {
					// (a pending call/auth/new may be answered with a resource response naming any rid)
					if (q.rid == p.rid && (q.kind == "subscribe" || q.kind == "get")) || q.kind == "new" || q.kind == "call" || q.kind == "auth" {
						pendingDirect = true
					}
				}
				key := "unsubscribe-beyond-count"
				if !pendingDirect {
					key = "unsubscribe-beyond-count:nothing-pending"
				}
				w.addViolation("C08", key, fmt.Sprintf("unsubscribe(%d) of %s succeeded on %s although the client holds fewer successful subscriptions", p.count, p.rid, c.name))
				rc.direct[p.rid] = 0
				if w.taint == "" && pendingDirect {
					w.taint = "D2"
				}
			}
			rc.gc()
		case "call", "auth", "new":
			var ro struct {
				RID *string `json:"rid"`
			}
			json.Unmarshal(f.result, &ro)
			if ro.RID != nil && (rc.callRes || p.kind == "new") {
				m.checkDataGrant(c, *ro.RID, &rs, f)
				rc.addResources(&rs)
				// A resource response counts as a direct subscription, except when the error
				// entry stands for a denied / failed access check (C04: no subscription is left).
				if _, isErr := rs.Errors[*ro.RID]; !isErr {
					rc.direct[*ro.RID]++
				} else {
					g := m.grants[c.cid+" "+strings.ReplaceAll(*ro.RID, "{cid}", c.cid)]
					// (the verdict that produced this very response is the latest one)
					if g != nil && g.known && g.get {
						rc.direct[*ro.RID]++
					}
				}
				m.checkDangling(c, f)
				rc.gc()
			}
		}
		return
	}
	// events
	r := rc.held[f.rid]
	if f.event == "unsubscribe" {
		if rc.direct[f.rid] == 0 {
			w.addViolation("C08", "unsubscribe-event-without-subscription", "unsubscribe event for "+f.rid+" on "+c.name+" which has no direct subscription")
		}
		rc.direct[f.rid] = 0
		delete(m.recheck, c.cid+" "+f.rid)
		rc.gc()
		return
	}
	// C06: an event published after a trigger is not delivered before the new verdict is known
	if st, pending := m.recheck[c.cid+" "+f.rid]; pending && rc.direct[f.rid] > 0 {
		name, _ := w.realName(c, f.rid)
		after := m.curEvent == name // published in this very step, i.e. after the trigger
		if mm := reSeq.FindSubmatch(f.data); mm != nil {
			if ps, ok := m.pubStep[name+"#"+string(mm[1])]; ok && ps > st.step {
				after = true
			}
		}
		if after {
			w.addViolation("C06", "event-before-new-verdict", fmt.Sprintf("%s event for %s delivered to %s although it reached the gateway after a trigger whose access re-check is not answered yet", f.event, f.rid, c.name))
		}
	}
	{
		// whatever this frame carries in its resource set is handed over by it, whether or not the
		// reference client goes on to apply the event
		var hs rpcResources
		if json.Unmarshal(f.data, &hs) == nil {
			if rc.everHeld == nil {
				rc.everHeld = map[string]bool{}
			}
			for rid := range hs.Models {
				rc.everHeld[rid] = true
			}
			for rid := range hs.Collections {
				rc.everHeld[rid] = true
			}
			for rid := range hs.Errors {
				rc.everHeld[rid] = true
			}
		}
	}
	if !rc.everHeld[f.rid] {
		// C03: no event for a resource before the response or event that first hands it over
		w.addViolation("C03", "event-before-handover", fmt.Sprintf("%s event for %s on %s, a resource that was never handed to that client", f.event, f.rid, c.name))
	}
	if (r == nil || !rc.reachable()[f.rid]) && rc.lastGet[f.rid] {
		// events queued while a get was loading are flushed to the client right after the get
		// response although a get leaves no subscription
		w.addViolation("C02", "event-after-get", fmt.Sprintf("%s event for %s on %s right after a get response; the client holds no subscription to it", f.event, f.rid, c.name))
		return
	}
	if r == nil || !rc.reachable()[f.rid] {
		w.addViolation("C02", "stray-event", fmt.Sprintf("%s event for %s on %s which the client does not hold (direct=%v held=%v)", f.event, f.rid, c.name, rc.direct, len(rc.held)))
		return
	}
	switch f.event {
	case "change":
		if r.kind != 'm' {
			w.addViolation("C02", "change-on-non-model", "change event for non-model "+f.rid)
			return
		}
		var d struct {
			Values map[string]json.RawMessage `json:"values"`
		}
		json.Unmarshal(f.data, &d)
		var rs rpcResources
		json.Unmarshal(f.data, &rs)
		rc.addResources(&rs)
		for k, v := range d.Values {
			av := absValue(v)
			if av == "del" {
				delete(r.model, k)
			} else {
				r.model[k] = av
			}
		}
		m.checkDangling(c, f)
		rc.gc()
	case "add":
		if r.kind != 'c' {
			w.addViolation("C02", "add-on-non-collection", "add event for non-collection "+f.rid)
			return
		}
		var d struct {
			Idx   int             `json:"idx"`
			Value json.RawMessage `json:"value"`
		}
		json.Unmarshal(f.data, &d)
		var rs rpcResources
		json.Unmarshal(f.data, &rs)
		rc.addResources(&rs)
		if d.Idx < 0 || d.Idx > len(r.coll) {
			w.addViolation("C02", "add-out-of-bounds", fmt.Sprintf("add idx %d outside the client's collection %s of length %d", d.Idx, f.rid, len(r.coll)))
			return
		}
		r.coll = append(r.coll[:d.Idx], append([]string{absValue(d.Value)}, r.coll[d.Idx:]...)...)
		m.checkDangling(c, f)
	case "remove":
		if r.kind != 'c' {
			w.addViolation("C02", "remove-on-non-collection", "remove event for non-collection "+f.rid)
			return
		}
		var d struct {
			Idx int `json:"idx"`
		}
		json.Unmarshal(f.data, &d)
		if d.Idx < 0 || d.Idx >= len(r.coll) {
			w.addViolation("C02", "remove-out-of-bounds", fmt.Sprintf("remove idx %d outside the client's collection %s of length %d", d.Idx, f.rid, len(r.coll)))
			return
		}
		r.coll = append(r.coll[:d.Idx:d.Idx], r.coll[d.Idx+1:]...)
		rc.gc()
	case "delete":
		r.deleted = true
	default:
		// custom event: sequence numbers must be contiguous while the resource is held
		if mm := reSeq.FindSubmatch(f.data); mm != nil {
			n, _ := strconv.Atoi(string(mm[1]))
			if last, ok := rc.lastSeq[f.rid]; ok {
				if n <= last {
					w.addViolation("C03", "event-duplicate-or-reordered", fmt.Sprintf("%s on %s: event seq %d after %d", f.rid, c.name, n, last))
				} else if n != last+1 {
					key := "event-gap"
					if rc.redelivered[f.rid] {
						key = "event-gap:after-redelivery"
					}
					w.addViolation("C03", key, fmt.Sprintf("%s on %s: event seq %d after %d (skipped)", f.rid, c.name, n, last))
				}
			}
			rc.lastSeq[f.rid] = n
			delete(rc.redelivered, f.rid)
		}
	}
}

// checkDangling: every non-soft reference reachable from the direct subscriptions resolves.
func (m *monitors) checkDangling(c *wsClient, f *cframe) {
	rc := c.ref
	for rid := range rc.reachable() {
		if rc.held[rid] == nil {
			m.w.addViolation("C02", "dangling-reference", fmt.Sprintf("after %s the client %s references %s without data or error", f.abs(), c.name, rid))
			return
		}
	}
}

func (m *monitors) onDisconnect(c *wsClient) {
	m.gone[c.cid] = true
	for id := range c.ref.pending {
		delete(c.ref.pending, id)
	}
}

// markRecheck: a trigger reached the gateway for the resources selected by sel.
func (m *monitors) markRecheck(sel func(c *wsClient, name string) bool) {
	last := m.w.mq.lastID()
	for _, c := range m.w.clients {
		if c.ref == nil || m.gone[c.cid] {
			continue
		}
		for rid, n := range c.ref.direct {
			if n <= 0 {
				continue
			}
			name, _ := m.w.realName(c, rid)
			if sel(c, name) {
				m.recheck[c.cid+" "+rid] = recheckState{since: last, step: len(m.w.steps)}
			}
		}
	}
}

func (m *monitors) onPublish(subject, payload string) {
	if strings.HasPrefix(subject, "event.") && !strings.HasSuffix(subject, ".reaccess") {
		if i := strings.LastIndexByte(subject, '.'); i > 6 {
			m.curEvent = subject[6:i]
			if mm := reSeq.FindSubmatch([]byte(payload)); mm != nil {
				m.pubStep[m.curEvent+"#"+string(mm[1])] = len(m.w.steps)
			}
		}
	}
	if strings.HasPrefix(subject, "conn.") && strings.HasSuffix(subject, ".token") {
		cid := subject[5 : len(subject)-6]
		var te struct {
			Token json.RawMessage `json:"token"`
			TID   string          `json:"tid"`
		}
		json.Unmarshal([]byte(payload), &te)
		m.tids[cid] = te.TID
		tok := string(te.Token)
		if tok == "null" {
			tok = ""
		}
		had := m.tokens[cid] != ""
		m.tokens[cid] = tok
		if had {
			m.markRecheck(func(c *wsClient, _ string) bool { return c.cid == cid })
			// every grant of that connection becomes invalid
			for k, g := range m.grants {
				if strings.HasPrefix(k, cid+" ") {
					g.valid = false
				}
			}
		}
	}
	if strings.HasPrefix(subject, "event.") && strings.HasSuffix(subject, ".reaccess") {
		name := subject[6 : len(subject)-9]
		m.markRecheck(func(_ *wsClient, n string) bool { return n == name })
		for k, g := range m.grants {
			parts := strings.SplitN(k, " ", 2)
			rn := parts[1]
			if i := strings.IndexByte(rn, '?'); i >= 0 {
				rn = rn[:i]
			}
			if rn == name {
				g.valid = false
			}
		}
	}
	if subject == "system.tokenReset" {
		var tr struct {
			TIDs    []string `json:"tids"`
			Subject string   `json:"subject"`
		}
		if json.Unmarshal([]byte(payload), &tr) == nil && tr.Subject != "" {
			m.resetFor[tr.Subject] = map[string]bool{}
			for _, t := range tr.TIDs {
				if t != "" { // an empty token id addresses nobody
					m.resetFor[tr.Subject][t] = true
				}
			}
		}
	}
	if subject == "system.reset" {
		var sr struct {
			Access []string `json:"access"`
		}
		json.Unmarshal([]byte(payload), &sr)
		m.markRecheck(func(_ *wsClient, n string) bool {
			for _, p := range sr.Access {
				if specPatternValid(p) && specPatternMatch(p, n) {
					return true
				}
			}
			return false
		})
		for k, g := range m.grants {
			parts := strings.SplitN(k, " ", 2)
			rn := parts[1]
			if i := strings.IndexByte(rn, '?'); i >= 0 {
				rn = rn[:i]
			}
			for _, p := range sr.Access {
				if specPatternValid(p) && specPatternMatch(p, rn) {
					g.valid = false
				}
			}
		}
	}
}

func (m *monitors) onRequest(l mqLog) {
	w := m.w
	var p struct {
		CID   *string         `json:"cid"`
		Token json.RawMessage `json:"token"`
		Query string          `json:"query"`
	}
	json.Unmarshal(l.payload, &p)
	if !specHygienic(l.subject) {
		w.addViolation("C14", "unhygienic-subject", "request on subject "+strconv.Quote(l.subject))
	}
	kind := l.subject
	if i := strings.IndexByte(kind, '.'); i > 0 {
		kind = kind[:i]
	}
	switch kind {
	case "get":
		if !m.mqSubs["event."+l.subject[4:]] {
			cached := false
			for _, e := range w.serv.VerifCache().VerifSnapshot() {
				if e.Name == l.subject[4:] {
					cached = true
				}
			}
			if cached && w.cfg.resetThrottle == 0 {
				w.addViolation("C09", "get-without-subscription", "get request for "+w.absSubject(l.subject[4:])+" without an active event subscription")
			} else {
				w.addViolation("C09", "get-for-evicted-entry", "get request for "+w.absSubject(l.subject[4:])+" after its cache entry was evicted (no event subscription)")
			}
		}
	case "access", "call", "auth":
		if p.CID == nil {
			w.addViolation("C10", "missing-cid", "request without cid: "+l.subject)
			return
		}
		if _, ok := w.cidName[*p.CID]; !ok {
			w.addViolation("C10", "unknown-cid", "request with a cid that is no connection: "+l.subject)
			return
		}
		if m.gone[*p.CID] {
			key := "request-after-disconnect"
			if (w.cfg.resetThrottle > 0 || w.cfg.referenceThrottle > 0) && kind == "access" {
				key += ":throttled" // a re-check waiting in a throttle when the connection closed
			}
			w.addViolation("C11", key, "request "+w.absSubject(l.subject)+" on behalf of disconnected "+w.cname(*p.CID))
		}
		tok := string(p.Token)
		if tok == "null" {
			tok = ""
		}
		if tok != m.tokens[*p.CID] {
			w.addViolation("C10", "wrong-token", fmt.Sprintf("request %s for %s carries token %q, the connection's token is %q", w.absSubject(l.subject), w.cname(*p.CID), tok, m.tokens[*p.CID]))
			if kind == "access" {
				// C04/C06: the verdict must be asked with the connection's then-current token
				w.addViolation("C04", "access-request-with-stale-token", fmt.Sprintf("%s for %s asked with token %q, the connection's token is %q", w.absSubject(l.subject), w.cname(*p.CID), tok, m.tokens[*p.CID]))
				w.addViolation("C06", "access-request-with-stale-token", fmt.Sprintf("%s for %s asked with token %q, the connection's token is %q", w.absSubject(l.subject), w.cname(*p.CID), tok, m.tokens[*p.CID]))
			} else {
				w.addViolation("C05", "request-with-stale-token", fmt.Sprintf("%s for %s sent with token %q, the connection's token is %q", w.absSubject(l.subject), w.cname(*p.CID), tok, m.tokens[*p.CID]))
			}
		}
		m.reqOwner[l.id] = *p.CID
		if st, ended := m.httpEnded[*p.CID]; ended {
			w.addViolation("C17", "request-after-direct-status", fmt.Sprintf("%s sent for %s after a service answered its HTTP request with meta status %d", w.absSubject(l.subject), w.cname(*p.CID), st))
		}
		if named, ok := m.resetFor[l.subject]; ok && kind == "auth" {
			// C10: a token reset addresses only the connections whose current token id it names
			if tid := m.tids[*p.CID]; tid == "" || !named[tid] {
				w.addViolation("C10", "token-reset-for-unaddressed-connection", fmt.Sprintf("token reset request %s sent for %s whose token id is %q", l.subject, w.cname(*p.CID), tid))
			}
		}
		if kind == "call" {
			// C05: forwarded only under a valid grant for that method
			rest := l.subject[5:]
			j := strings.LastIndexByte(rest, '.')
			name, method := rest[:j], rest[j+1:]
			key := *p.CID + " " + name
			if p.Query != "" {
				key += "?" + p.Query
			}
			g := m.grants[key]
			if g == nil || !g.known || !g.valid || !g.canCall(method) {
				st := "none"
				if g != nil {
					st = fmt.Sprintf("valid=%v call=%q", g.valid, g.call)
				}
				w.addViolation("C05", "call-without-valid-grant", fmt.Sprintf("%s forwarded for %s without a valid access answer granting %s (%s)", w.absSubject(l.subject), w.cname(*p.CID), method, st))
			}
		}
	}
	if q := m.queryEv[l.subject]; q != nil {
		q.seen++
	}
}

func (m *monitors) onAnswer(r *mockReq, label string, data []byte, err error) {
	if data != nil && isHTTPReq(r) {
		// C17: headers a service puts into the meta object of an answer to an HTTP request
		var a struct {
			Meta *struct {
				Header map[string][]string `json:"header"`
			} `json:"meta"`
		}
		var p struct {
			CID string `json:"cid"`
		}
		if json.Unmarshal(data, &a) == nil && a.Meta != nil && json.Unmarshal(r.payload, &p) == nil {
			if m.httpHdr == nil {
				m.httpHdr = map[string][]metaHdr{}
			}
			keys := make([]string, 0, len(a.Meta.Header))
			for k := range a.Meta.Header {
				keys = append(keys, k)
			}
			sort.Strings(keys)
			for _, k := range keys {
				m.httpHdr[p.CID] = append(m.httpHdr[p.CID], metaHdr{name: k, values: a.Meta.Header[k]})
			}
		}
	}
	if i := strings.Index(label, "|meta="); i >= 0 {
		if st, e := strconv.Atoi(label[i+6:]); e == nil && st >= 300 && st < 600 {
			// C17: a direct status ends the HTTP request: no further service request for it
			var p struct {
				CID string `json:"cid"`
			}
			json.Unmarshal(r.payload, &p)
			if m.httpEnded == nil {
				m.httpEnded = map[string]int{}
			}
			m.httpEnded[p.CID] = st
			for _, h := range m.w.https {
				if h.conn == m.w.cname(p.CID) {
					h.direct = true
				}
			}
		}
	}
	if strings.HasPrefix(r.subject, "access.") {
		var p struct {
			CID   string `json:"cid"`
			Query string `json:"query"`
		}
		json.Unmarshal(r.payload, &p)
		key := p.CID + " " + r.subject[7:]
		if p.Query != "" {
			key += "?" + p.Query
		}
		for k, st := range m.recheck {
			if strings.HasPrefix(k, p.CID+" ") && r.id > st.since {
				for _, c := range m.w.clients {
					if c.cid == p.CID {
						if name, _ := m.w.realName(c, k[len(p.CID)+1:]); name == r.subject[7:] {
							delete(m.recheck, k)
						}
					}
				}
			}
		}
		g := &grantState{known: true, valid: true}
		if err == nil {
			var ar struct {
				Result *struct {
					Get  bool   `json:"get"`
					Call string `json:"call"`
				} `json:"result"`
				Error *struct{ Code string } `json:"error"`
			}
			if json.Unmarshal(data, &ar) == nil && ar.Error == nil && ar.Result != nil {
				g.get = ar.Result.Get
				g.call = ar.Result.Call
			}
		}
		// the request must have carried the connection's token of that time; an answer to a
		// request issued before a trigger does not count as valid after it (it is re-checked)
		if old := m.grants[key]; old != nil && old.known && old.valid {
			g.alts = append(append(g.alts, old.alts...), grantAlt{get: old.get, call: old.call})
		}
		m.grants[key] = g
	}
}

// checkDataGrant: C04 — data for a root rid only under a valid get grant.
func (m *monitors) checkDataGrant(c *wsClient, rid string, rs *rpcResources, f *cframe) {
	_, isModel := rs.Models[rid]
	_, isColl := rs.Collections[rid]
	if !isModel && !isColl {
		return
	}
	name := strings.ReplaceAll(rid, "{cid}", c.cid)
	g := m.grants[c.cid+" "+name]
	if g == nil || !g.known || !g.canGet() {
		m.w.addViolation("C04", "data-without-grant", fmt.Sprintf("%s received data of %s without a get grant", c.name, rid))
		return
	}
	if !g.valid {
		m.w.addViolation("C04", "data-on-invalidated-grant", fmt.Sprintf("%s received data of %s although its get grant was invalidated by a later token/reaccess/reset trigger", c.name, rid))
	}
}

func (m *monitors) afterStep() { m.curEvent = "" }

// ---- end-of-history checks ----

func (w *world) realName(c *wsClient, rid string) (name, query string) {
	r := strings.ReplaceAll(rid, "{cid}", c.cid)
	if i := strings.IndexByte(r, '?'); i >= 0 {
		return r[:i], r[i+1:]
	}
	return r, ""
}

func legacyEnc(v string) string {
	if strings.HasPrefix(v, "s:") {
		return "str:" + v[2:]
	}
	if strings.HasPrefix(v, "d") {
		return "str:[Data]"
	}
	return v
}

// finalChecks runs at quiescence with every request answered.
func (w *world) finalChecks() {
	if w.stall != "" {
		return
	}
	// C07: every request answered exactly once
	for _, c := range w.clients {
		if c.closed {
			continue
		}
		ids := make([]int, 0)
		for id := range c.ref.pending {
			ids = append(ids, int(id))
		}
		sort.Ints(ids)
		for _, id := range ids {
			p := c.ref.pending[uint64(id)]
			w.addViolation("C07", "unanswered:"+p.kind, fmt.Sprintf("request %d (%s) on %s never answered although every service request was answered", id, p.method, c.name))
		}
	}
	// C01: client copies equal the true state
	for _, c := range w.clients {
		if c.closed {
			continue
		}
		reach := c.ref.reachable()
		rids := make([]string, 0)
		for rid := range reach {
			rids = append(rids, rid)
		}
		sort.Strings(rids)
		for _, rid := range rids {
			r := c.ref.held[rid]
			if r == nil || r.kind == 'e' || r.deleted {
				continue
			}
			name, q := w.realName(c, rid)
			d := w.truth.defFor(name)
			if d == nil || d.getErr != "" {
				continue
			}
			nq := w.truth.normQuery(q)
			if !d.query {
				nq = ""
			} else if q == "" && d.defQuery != "" {
				nq = d.defQuery
			}
			tr := w.truth.get(name, nq)
			if tr == nil || tr.deleted {
				continue
			}
			want := tr.contentAbs()
			var got string
			enc := func(v string) string { return v }
			if c.ref.legacy {
				enc = legacyEnc
			}
			if r.kind == 'm' {
				keys := make([]string, 0)
				for k := range r.model {
					keys = append(keys, k)
				}
				sort.Strings(keys)
				ps := make([]string, len(keys))
				for i, k := range keys {
					ps[i] = k + "=" + r.model[k]
				}
				got = "{" + strings.Join(ps, ",") + "}"
				wk := make([]string, 0)
				for k := range tr.model {
					wk = append(wk, k)
				}
				sort.Strings(wk)
				ws := make([]string, len(wk))
				for i, k := range wk {
					ws[i] = k + "=" + enc(string(tr.model[k]))
				}
				want = "{" + strings.Join(ws, ",") + "}"
			} else {
				got = "[" + strings.Join(r.coll, ",") + "]"
				ws := make([]string, len(tr.coll))
				for i, v := range tr.coll {
					ws[i] = enc(string(v))
				}
				want = "[" + strings.Join(ws, ",") + "]"
			}
			if got != want {
				w.addViolation("C01", "not-converged", fmt.Sprintf("%s holds %s = %s, the service's state is %s", c.name, rid, got, want))
			}
		}
	}
	// C01 (cache level): every cached resource that is kept current (event subscription held, loaded,
	// no re-fetch pending) equals the state the service last announced. Distinguishes a divergence
	// of the cache itself from one of a client's copy only (the known findings D1/D17 are the latter).
	if len(w.mq.outstanding()) == 0 && w.cacheFresh {
		for _, e := range w.serv.VerifCache().VerifSnapshot() {
			if !e.MQSub {
				continue
			}
			name := e.Name
			d := w.truth.defFor(name)
			if d == nil || d.getErr != "" {
				continue
			}
			check := func(r *rescache.VerifResSnap, nq string) {
				if r == nil || r.Resetting || r.Value == "" || (r.State != 3 && r.State != 4) {
					return
				}
				if (r.State == 4) != (d.kind == 'm') {
					return // the simulated service once answered with the other resource type
				}
				tr := w.truth.get(name, nq)
				if tr == nil || tr.deleted {
					return
				}
				if got, want := absCached(r.Value), tr.contentAbs(); got != want {
					q := ""
					if nq != "" {
						q = "?" + nq
					}
					w.addViolation("C01", "cache-not-converged", fmt.Sprintf("the cache holds %s%s = %s, the service's state is %s", w.absSubject(name), q, got, want))
				}
			}
			if e.Base != nil && e.Base.Query == "" && !d.query {
				check(e.Base, "")
			}
			if d.query {
				for i := range e.Queries {
					check(&e.Queries[i], e.Queries[i].Query)
				}
			}
		}
	}
	// C08: the gateway's direct counts equal the client's successful subscriptions
	snap := w.serv.VerifSnapshot()
	// C12 / C19: with every request answered no cached resource may still be waiting for its reset
	// re-fetch (a request that was never sent, or a flag that was never cleared)
	if len(w.mq.outstanding()) == 0 && w.taint == "" {
		for _, e := range w.serv.VerifCache().VerifSnapshot() {
			stuck := e.Base != nil && e.Base.Resetting
			for _, q := range e.Queries {
				stuck = stuck || q.Resetting
			}
			if stuck {
				w.addViolation("C12", "resource-stuck-resetting", fmt.Sprintf("cached resource %s is still marked as being re-fetched although every request has been answered", w.absSubject(e.Name)))
				w.addViolation("C15", "resource-stuck-resetting", fmt.Sprintf("cached resource %s is still marked as being re-fetched although every request has been answered: a discarded answer must leave the resource working", w.absSubject(e.Name)))
				if w.cfg.resetThrottle > 0 {
					w.addViolation("C19", "refetch-never-started", fmt.Sprintf("the reset re-fetch of %s never happened although every request has been answered (throttle slot never handed on)", w.absSubject(e.Name)))
				}
			}
		}
	}
	// C11 / C19: with every request answered no cached resource may still be waiting for a get
	// response (a get that was handed to a throttle and never sent): its subscribers, present and
	// future, would wait for ever and its uses are never given back
	if len(w.mq.outstanding()) == 0 && w.taint == "" {
		for _, e := range w.serv.VerifCache().VerifSnapshot() {
			waiting := e.Base != nil && e.Base.State == 2
			for _, q := range e.Queries {
				waiting = waiting || q.State == 2
			}
			if !waiting {
				continue
			}
			if w.cfg.referenceThrottle > 0 {
				w.addViolation("C19", "get-never-sent", fmt.Sprintf("cached resource %s still waits for a get response although every request has been answered (a throttled get was never sent)", w.absSubject(e.Name)))
			}
			if len(w.mon.gone) > 0 {
				w.addViolation("C11", "load-abandoned-after-disconnect", fmt.Sprintf("cached resource %s still waits for a get response that was never requested, after a connection was closed: what the connection held is not released and later subscribers wait for ever", w.absSubject(e.Name)))
			}
		}
	}
	// C19: with every request answered nothing may still wait for a throttle slot
	if (w.cfg.referenceThrottle > 0 || w.cfg.resetThrottle > 0) && len(w.mq.outstanding()) == 0 && w.taint == "" {
		for _, cs := range snap {
			for _, s := range cs.Subs {
				if s.AccessCbs > 0 || s.Flags&1 != 0 {
					w.addViolation("C19", "access-check-never-started", fmt.Sprintf("%s %s: an access check is still waiting although every request has been answered (throttle slot never handed on)", w.cname(cs.CID), s.RID))
					if len(w.mon.gone) > 0 {
						// C11: a connection that went away must not keep what others wait for
						w.addViolation("C11", "stalled-after-disconnect", fmt.Sprintf("%s %s still waits for an access check after a connection was closed (a throttle slot it held was not given back)", w.cname(cs.CID), s.RID))
					}
				}
			}
		}
	}
	for _, c := range w.clients {
		if c.closed {
			continue
		}
		for _, cs := range snap {
			if cs.CID != c.cid {
				continue
			}
			have := map[string]int{}
			for _, s := range cs.Subs {
				have[s.RID] = s.Direct
			}
			rids := map[string]bool{}
			for r := range have {
				rids[r] = true
			}
			for r := range c.ref.direct {
				rids[r] = true
			}
			keys := make([]string, 0)
			for r := range rids {
				keys = append(keys, r)
			}
			sort.Strings(keys)
			for _, r := range keys {
				if have[r] != c.ref.direct[r] {
					w.addViolation("C08", "direct-count-mismatch", fmt.Sprintf("%s %s: gateway holds %d direct subscriptions, the client's successful requests amount to %d", c.name, r, have[r], c.ref.direct[r]))
				}
			}
		}
	}
}

// drainedChecks runs after all clients are gone, everything answered and evictions flushed.
func (w *world) drainedChecks() {
	if w.stall != "" {
		return
	}
	ents := w.serv.VerifCache().VerifSnapshot()
	for _, e := range ents {
		w.addViolation("C09", "entry-not-freed", fmt.Sprintf("cache entry %s (count %d) remains with no clients and no requests in flight", w.absSubject(e.Name), e.Count))
	}
	for _, s := range w.mq.subjects() {
		if strings.HasPrefix(s, "event.") {
			w.addViolation("C09", "subscription-not-freed", "messaging subscription "+w.absSubject(s)+" remains with no clients")
		}
		if strings.HasPrefix(s, "conn.") {
			w.addViolation("C11", "conn-subscription-not-freed", "connection subscription "+w.absSubject(s)+" remains after disconnect")
		}
	}
	if len(w.serv.VerifSnapshot()) != 0 {
		w.addViolation("C11", "conn-not-removed", "connections remain registered after disconnect")
	}
	if w.cfg.metrics {
		rec := httptest.NewRecorder()
		req := httptest.NewRequest("GET", "/metrics", nil)
		w.serv.MetricsHandler().ServeHTTP(rec, req)
		body, _ := io.ReadAll(rec.Body)
		for _, g := range []string{"resgate_cache_resources", "resgate_cache_subscriptions"} {
			mm := regexp.MustCompile(`(?m)^` + g + ` (-?[0-9.e+]+)`).FindSubmatch(body)
			if mm == nil {
				continue
			}
			if v, _ := strconv.ParseFloat(string(mm[1]), 64); v != 0 {
				w.addViolation("C09", "gauge-nonzero:"+g, fmt.Sprintf("%s reads %s with no clients and no requests in flight", g, mm[1]))
			}
		}
	}
}

// onHTTP: monitors over HTTP answers (C16/C17): the body is well-formed JSON; error statuses follow the table.
func (m *monitors) onHTTP(h *httpReq) {
	// C17: service headers are merged into the response, except that they never replace the
	// protected ones; Set-Cookie values accumulate
	for real, name := range m.w.cidName {
		if name != h.conn {
			continue
		}
		// header names are compared ignoring case: a key that is not in canonical form in the
		// response map is written to the wire as it is
		got := map[string][]string{}
		for k, v := range h.rec.Header() {
			ck := http.CanonicalHeaderKey(k)
			got[ck] = append(got[ck], v...)
		}
		var cookies []string
		for _, mh := range m.httpHdr[real] {
			canon := http.CanonicalHeaderKey(mh.name)
			switch canon {
			case "Content-Type", "Access-Control-Allow-Origin", "Access-Control-Allow-Credentials":
				for _, v := range mh.values {
					for _, g := range got[canon] {
						if g == v {
							m.w.addViolation("C17", "protected-header-replaced", fmt.Sprintf("HTTP response %s carries %s: %s taken from a service's meta header", h.name, canon, v))
						}
					}
				}
			case "Set-Cookie":
				cookies = append(cookies, mh.values...)
			default:
				if strings.Join(got[canon], ",") != strings.Join(mh.values, ",") {
					m.w.addViolation("C17", "meta-header-not-merged", fmt.Sprintf("HTTP response %s has %s: %q, the service's meta header said %q", h.name, canon, got[canon], mh.values))
				}
			}
		}
		if len(cookies) > 0 && strings.Join(got["Set-Cookie"], ",") != strings.Join(cookies, ",") {
			m.w.addViolation("C17", "set-cookie-not-accumulated", fmt.Sprintf("HTTP response %s has Set-Cookie %q, the services sent %q", h.name, got["Set-Cookie"], cookies))
		}
		// exactly one Content-Type / Access-Control-Allow-Origin value reaches the client
		for _, k := range []string{"Content-Type", "Access-Control-Allow-Origin"} {
			if len(got[k]) > 1 {
				m.w.addViolation("C17", "protected-header-replaced", fmt.Sprintf("HTTP response %s carries %d values of %s: %q", h.name, len(got[k]), k, got[k]))
			}
		}
	}
	// C04: an HTTP GET hands out resource data only under a get grant for that connection
	if h.rid != "" && h.rec.Code == 200 && strings.TrimSpace(h.rec.Body.String()) != "" {
		for real, name := range m.w.cidName {
			if name != h.conn {
				continue
			}
			g := m.grants[real+" "+h.rid]
			if g == nil || !g.known || !g.canGet() {
				m.w.addViolation("C04", "http-data-without-grant", fmt.Sprintf("HTTP GET %s (%s) answered 200 with the resource although no access answer granted get", h.name, h.rid))
			}
		}
	}
	body := strings.TrimSpace(h.rec.Body.String())
	if body != "" && !json.Valid([]byte(body)) {
		m.w.addViolation("C16", "malformed-body", "HTTP response body is not well-formed JSON: "+body)
	}
	if h.rec.Code >= 400 && body != "" {
		var e struct {
			Code string `json:"code"`
		}
		if json.Unmarshal([]byte(body), &e) == nil && e.Code != "" {
			want := map[string]int{"system.notFound": 404, "system.methodNotFound": 404, "system.timeout": 404, "system.accessDenied": 401,
				"system.forbidden": 403, "system.methodNotAllowed": 405, "system.subjectTooLong": 414, "system.internalError": 500, "system.serviceUnavailable": 503}
			w, ok := want[e.Code]
			if !ok {
				w = 400
			}
			if h.rec.Code != w && !h.direct {
				m.w.addViolation("C17", "wrong-status", fmt.Sprintf("error %s answered with HTTP status %d, expected %d", e.Code, h.rec.Code, w))
			}
		}
	}
}
