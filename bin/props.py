# Per-property configuration of bin/check: which correspondence suites serve a property and what
# its theorems carry.  (Theorem lists are read from lean/Resgate/Properties/<id>.lean.)
PROPS = {
    "C05": {
        "suites": [("pure", "cancall")],
        "theorems_carry": "the call-list scanner grants exactly '*' or an exact comma-separated entry, for all byte strings",
        "correspondence_only": "that the gateway consults the scanner before forwarding and carries cid/token in payloads (gateway-level runs)",
        "assumptions": ["Go strings are byte strings; the model uses lists of naturals"],
    },
    "C12": {
        "suites": [("pure", "pattern"), ("pure", "lcs"), ("pure", "mdiff"), ("pure", "change")],
        "theorems_carry": "Match never indexes out of range; invalid patterns match nothing; the collection diff applies in range and yields the new collection for any table; equal content yields no event",
        "correspondence_only": "token-wise wildcard semantics of Match and validity of patterns (exhaustive small alphabet + spec monitor), the model diff (processResetModel), the set of resources re-fetched",
        "assumptions": ["encoding/json round trip of add/remove payloads is not modelled (exercised by applying the real events through the real handlers)"],
    },
    "C14": {
        "suites": [("pure", "rid"), ("pure", "rpc")],
        "theorems_carry": "validator specs for all byte strings; {cid} expansion preserves validity; every subject of a dispatched WebSocket request is hygienic; no dot => no service traffic",
        "correspondence_only": "HTTP path mapping (net/url), that the gateway builds subjects as the model's subjectsFor does",
        "assumptions": ["rune iteration of IsValidRID equals the byte loop (tied by the 256-byte class table and exhaustive short strings)"],
    },
    "C17": {
        "suites": [("pure", "headers"), ("pure", "origins")],
        "theorems_carry": "status tables (regenerated, decided), default 400 for every other code, direct-status range for every integer, protected headers for every header set and every spelling, Set-Cookie accumulation, origin acceptance iff equal ignoring ASCII case for all byte strings",
        "correspondence_only": "that a direct status ends the request without further service requests and that refusal precedes any service request (gateway-level runs)",
        "assumptions": ["net/http drops header names that are not tokens", "allow-list entries are lower-cased by Config.prepare (validateAllowOrigin)"],
    },
    "C19": {
        "suites": [("pure", "throttle")],
        "theorems_carry": "running <= limit, FIFO start order, running = started - done, waiting implies all slots taken, every Done starts the next waiting callback, Done at 0 is the only panic",
        "correspondence_only": "one Done per governed request at system level (gateway-level runs)",
        "assumptions": ["Done's `go cb()` is modelled as an immediate start"],
    },
}
