# Per-property configuration of bin/check: which correspondence suites serve a property and what
# its theorems carry.  (Theorem lists are read from lean/Resgate/Properties/<id>.lean.)
PROPS = {
    "C05": {
        "suites": [("pure", "cancall"), ("gw", "access")],
        "theorems_carry": "the call-list scanner grants exactly '*' or an exact comma-separated entry, for all byte strings; the decision the gateway model takes at both call sites when the access answer arrives (Access.canCallE) forwards the call iff the answer has no error and the scanner grants the method, and refuses with the answer's own error otherwise (call_forwarded_iff)",
        "correspondence_only": "that the gateway consults the scanner before forwarding and carries cid/token in payloads (gateway-level runs)",
        "assumptions": ["Go strings are byte strings; the model uses lists of naturals"],
    },
    "C12": {
        "suites": [("pure", "pattern"), ("pure", "lcs"), ("pure", "mdiff"), ("pure", "change"), ("gw", "reset")],
        "theorems_carry": "Match never indexes out of range and, for every pattern of valid tokens and every name with non-empty tokens, decides token-wise wildcard matching (match_spec); a pattern is accepted iff its tokens are valid (parse_valid_iff), so match_spec holds for every accepted pattern; invalid patterns match nothing; the collection diff applies in range and yields the new collection for any table; equal content yields no event; the model diff applied by the change handler yields the fetched model key by key (modelDiff_applies); a system reset hands an entry to the re-fetch / access re-validation iff its name matches at least one listed pattern that parses as valid, i.e. token-wise wildcard matching (reset_selects_exactly, reset_selects_tokenwise over the forEachMatch function the model iterates); a pending re-fetch is not repeated (reset_once)",
        "correspondence_only": "that the gateway's forEachMatch / handleResetResource are the modelled ones and the events sent at gateway level (lockstep, profile reset)",
        "assumptions": ["encoding/json round trip of add/remove payloads is not modelled (exercised by applying the real events through the real handlers)"],
    },
    "C14": {
        "suites": [("pure", "rid"), ("pure", "rpc"), ("pure", "path"), ("pure", "httppath"), ("gw", "mixed")],
        "theorems_carry": "validator specs for all byte strings; {cid} expansion preserves validity; every subject of a dispatched WebSocket request is hygienic; no dot => no service traffic; for every HTTP method, path, query, prefix and method mapping every subject the handler's dispatch can cause is hygienic, invalid ones end in 404/405 without service traffic (http_dispatch_hygienic, unconditional)",
        "correspondence_only": "net/url unescaping in front of the handler, that apiHandler dispatches as httpDispatch does (suite httppath) and that the gateway builds subjects as the model's subjectsFor does",
        "assumptions": ["rune iteration of IsValidRID equals the byte loop (tied by the 256-byte class table and exhaustive short strings)"],
    },
    "C17": {
        "suites": [("pure", "status"), ("pure", "headers"), ("pure", "origins"), ("pure", "cors"), ("pure", "wsauth"), ("gw", "mixed"), ("gw", "http")],
        "theorems_carry": "status tables (regenerated, decided), default 400 for every other code, direct-status range for every integer, protected headers for every header set and every spelling, Set-Cookie accumulation, origin acceptance iff equal ignoring ASCII case for all byte strings, the CORS decision (refused iff an Origin header is present - even empty -, not null and not listed; WebSocket upgrade verdict the same; * refuses nothing)",
        "correspondence_only": "that a direct status of an auth, access or call answer ends the HTTP request without further service requests (lockstep of GET/HEAD/POST/PUT with meta statuses, with and without header authentication, + monitor request-after-direct-status), that service headers are merged into the real response without replacing the protected ones and with Set-Cookie accumulating (monitor on the real response), that refusal precedes any service request (suite cors)",
        "assumptions": ["net/http drops header names that are not tokens", "allow-list entries are lower-cased by Config.prepare (validateAllowOrigin)"],
    },
    "C19": {
        "suites": [("pure", "throttle"), ("gw", "throttle"), ("gw", "reset")],
        "theorems_carry": "running <= limit, FIFO start order, running = started - done, waiting implies all slots taken, every Done starts the next waiting callback, Done at 0 is the only panic; liveness: as many answers as started requests in any order leave nothing waiting, nothing running and everything added started in order (all_governed_eventually_sent), and from every state the invariant allows running+waiting answers reach that point without a panic (answers_drain_the_throttle); the throttle of the gateway model is this throttle, operation by operation (gateway_throttle_is_this_throttle)",
        "correspondence_only": "one Done per governed request at system level: gateway-level runs with monitors (bursts of resets and references against the limit, overlapping resets, failing answers, leavers; at quiescence nothing waits for a slot and no cached resource waits for a get that was never sent)",
        "assumptions": ["Done's `go cb()` is modelled as an immediate start"],
    },

    "C01": {
        "suites": [("gw", "refs"), ("gw", "mixed"), ("gw", "query"), ("gw", "reset"), ("pure", "lcs"), ("pure", "mdiff")],
        "theorems_carry": "the version-stamp mechanism: a subscriber added at any point that reads (value, version) at any later point and processes everything since ends at the resource's final value and version (snapshot_replay, for every stream and every pair of points), hence any number of clients sharing one cached resource, each added and served at its own points of the stream, end with the same value and version (all_sharers_converge); the gate and the cache's stamp/bump are the gateway model's own functions; legacy encoding of the four value kinds",
        "correspondence_only": "the composition over the whole gateway (every client copy equals the announced state at quiescence): lockstep of the Lean gateway model against the real gateway on every history, plus the reference-client/announced-state monitor. Known findings D1, D17 make the full statement false of the code.",
        "assumptions": ["service contract: an answer reflects every event published before it (the simulated service answers from its state at answer time)", "Go map iteration order is not modelled: histories avoid one connection holding two aliases of one cached resource; a disagreement must persist over 5 runs", "histories with throttles are run with monitors only (throttle slot order is a real race)"],
    },
    "C02": {
        "suites": [("gw", "refs"), ("gw", "churn"), ("gw", "order")],
        "theorems_carry": "every state event the cache emits is applicable: change only on models, add/remove only on collections, index within the cached collection's bounds; every resource set is closed under references: for every connection state and reference graph (shared children, diamonds, cycles, self references, error children) the collection the model runs (populateF = populateResources) places, for every subscription it newly adds, all its references in the same set, as error placeholders in the same set, or finds them delivered earlier, and the set has an entry under each such resource id (resource_set_closed, resource_set_delivers)",
        "correspondence_only": "what \"delivered earlier\" means over a whole history (the collector's bookkeeping; no stray event): lockstep of the collector model (tryDelete/Unsend/Dispose/populateResources mirrored as they are) and the reference-client monitor. Known findings D7, D9, D16, D18.",
        "assumptions": ["reference client keeps resources it still retains when they are delivered again", "resources delivered by a get are kept while other requests of that client are pending"],
    },
    "C03": {
        "suites": [("gw", "order"), ("gw", "refs"), ("gw", "reset"), ("gw", "access"), ("gw", "query")],
        "theorems_carry": "queue discipline: processed ++ waiting = received for every interleaving of events, queueing starts and flushes (incl. re-queueing in the middle of a flush); mailbox FIFO and lock exclusion, and over whole runs of a mailbox (any interleaving of enqueues, locks, unlock items, worker steps) ran ++ waiting = initial ++ enqueued in order (mailbox_run_in_order); what is delivered after the snapshot is a contiguous suffix of the emitted stream",
        "correspondence_only": "that the gateway's queues are used as the abstract discipline says: lockstep + sequence-number monitor on custom events",
        "assumptions": ["abstract queue FSM mirrors Subscription.Event/queueEvents/unqueueEvents"],
    },
    "C04": {
        "suites": [("gw", "access"), ("gw", "counts")],
        "theorems_carry": "what a get grant is (no error and get=true; every error is a denial with that error), which verdicts are cached (result or accessDenied only); over every history of answers and triggers the remembered verdict is the last stored answer and no trigger (token event, reaccess, matching reset) came after it (remembered_verdict_iff, the fold of the verdictStep the model applies)",
        "correspondence_only": "no data without a valid grant on every history: lockstep + grant monitor. Known finding D11 (deferred re-check after the hand-out).",
        "assumptions": ["an answer to a request issued before a trigger but arriving after it counts as valid (the code re-checks right after)"],
    },
    "C06": {
        "suites": [("gw", "access")],
        "theorems_carry": "while a re-check queues events nothing is processed, afterwards all are released in arrival order; which verdicts revoke; every trigger drops the remembered verdict and an unstored answer leaves none (trigger_drops_verdict)",
        "correspondence_only": "one re-request per trigger with the current token, unsubscribe event on denial: lockstep (state snapshot includes flags, queueFlag, cached verdict) + monitors. Known finding D8.",
        "assumptions": [],
    },
    "C07": {
        "suites": [("gw", "counts"), ("gw", "malformed"), ("gw", "mixed"), ("pure", "rpc"), ("pure", "frames"), ("gw", "burst")],
        "theorems_carry": "the dispatcher is total: every method string is version / answered invalid / handed on with a valid rid; an unsubscribe is always answered with exactly one of three outcomes; the ready-callback counter of a request tree fires its reply exactly once under the registration discipline of collectRefs, for every order in which the subscriptions load (abstract machine Ready)",
        "correspondence_only": "that every registered continuation runs exactly once: lockstep + response monitor at quiescence. Known findings D2, D10.; hand-written frames with extra members, odd ids and params (suite frames) and concurrent frames (profile burst) each get exactly one response",
        "assumptions": [],
    },
    "C08": {
        "suites": [("gw", "counts"), ("gw", "mixed")],
        "theorems_carry": "unsubscribe succeeds iff 0 < count <= direct, invalidParams iff bad or non-positive count; limit 256 (regenerated constant) refuses without changing the count; the bookkeeping (addDirect / unsubVerdict / reset by an unsubscribe event) refines a plain counter step by step, stays within 0..limit for every operation sequence, and a refused request leaves it unchanged",
        "correspondence_only": "refinement of direct to the number of successful responses: lockstep (direct/indirect/indirectsent in every snapshot) + count monitor. Known finding D2.",
        "assumptions": [],
    },
    "C09": {
        "suites": [("gw", "churn"), ("gw", "query"), ("gw", "mixed")],
        "theorems_carry": "use-count bookkeeping under well-formed use: count >= 0, waiting for eviction iff count = 0, timerqueue.Add never on a queued element, a new user cancels the eviction, the last release schedules it; the one-step invariant lifted to every operation sequence of an entry (count_run); the eviction timer removes an entry iff it is queued and still unused and releases the event subscription iff it had one (evict_iff, used_entry_stays); a subscriber is released from a resource at most once (released_at_most_once, over the pure Entry.release the model runs)",
        "correspondence_only": "that every user takes and gives back its use at the right moments and subscribe precedes get: lockstep (count, mqSub in every snapshot, S/U/Q order) + monitors incl. gauges at drain. Known finding D13.",
        "assumptions": ["eviction is fired by the harness (VerifFlushEvictions) instead of the 5 s timer"],
    },
    "C10": {
        "suites": [("gw", "access"), ("gw", "mixed"), ("pure", "wsauth")],
        "theorems_carry": "{cid} expansion: identity without the tag, validity preserved with the connection's id; every payload starts with the requester's id and carries the token handed in; a token reset addresses a connection iff it has a token id and the reset names it, never a connection without token id (token_reset_addresses_iff)",
        "correspondence_only": "that events, token events and token resets touch only the addressed connections: lockstep with 2-4 connections + frame scan for connection ids + payload cid/token monitor",
        "assumptions": ["connection ids are unique (xid)"],
    },
    "C11": {
        "suites": [("gw", "churn"), ("pure", "blocked"), ("gw", "throttle")],
        "theorems_carry": "for every gateway state: closing a connection (the fold of closeSub the model runs as wsConn.dispose) marks it, empties its map, takes it out of the fan-out, disposes all its subscriptions, leaves every other connection untouched, changes no cache entry except for one unsubscribe item per subscription that held one of its resources, issues no request (disconnect_releases_exactly); the release item removes exactly that subscriber from exactly that resource and gives back one use (release_item_gives_back_one_use); closing twice is closing once; afterwards every item offered to the connection is refused and leaves the state unchanged (disposed_is_silent)",
        "correspondence_only": "that the real dispose is the modelled one at every moment (lockstep with disconnects at random steps, blocked writer, throttled re-checks, a holder leaving while its reference throttle still has gets waiting) + drain monitors incl. no cached resource left waiting for a get that was never sent. Known finding D19 (D4 repaired by c027952).",
        "assumptions": [],
    },
    "C13": {
        "suites": [("gw", "query")],
        "theorems_carry": "lock exclusion (no normal item while locked), one slot per answered query request, lock clears exactly when all slots are used, FIFO afterwards; over whole runs of the mailbox (the model's own Entry.lockFor/push/pushUnlock and mbNext): for every interleaving of enqueued items, arriving answers and worker steps with fewer answers than query requests the lock is held and no normal item has run (locked_until_every_answer), and once every answer is there one worker step per answer ends the lock with the queue untouched (all_answers_end_the_lock); the alias index of an entry (the pure functions the model's getResourceSubscription / processGetResponse / unregister are built from): after a get response names the normalised query, the raw query and the normalised one resolve to the same cached resource, other queries are unaffected, a query that resolves to nothing gets its own resource; a query event takes one lock slot per cached query and asks exactly the loaded ones, each once with its own normalised query (query_event_plan)",
        "correspondence_only": "one request per cached normalised query, answers applied to that query's resource only, alias sharing: lockstep (queries/links/lock in every snapshot). Known finding D1.",
        "assumptions": ["one connection never holds two aliases of one normalised query (Go map order)"],
    },
    "C15": {
        "suites": [("gw", "malformed"), ("gw", "mixed"), ("gw", "mutate"), ("gw", "burst")],
        "theorems_carry": "malformed / wrong-kind / out-of-range state events are discarded as a whole (resource unchanged, nothing delivered); the matcher never indexes out of range; the throttle panics only on Done at zero; the repaired collector (tryDelete keyed by subscription object) never meets an unregistered subscription in its second traversal, for every graph of subscription objects incl. leftovers and every map order (collector_never_meets_unregistered, over the pure pass1F/pass2F the model runs)",
        "correspondence_only": "process-level crash freedom: the gateway runs without recover inside the harness; a crash is a violation with the logged history as replay; corpus of two fixed crashes is replayed",
        "assumptions": ["panics inside encoding/json, gorilla, net/http are out of scope"],
    },

    "C16": {
        "suites": [("pure", "encode"), ("pure", "path"), ("gw", "mixed"), ("gw", "refs"), ("gw", "http")],
        "theorems_carry": "refinement: for every graph, path, prefix and both encodings the bytes written by the (modelled) encoders are the print-out of the recursive expansion as a JSON tree (href + model/collection/error in json, bare content in jsonflat, soft references and path re-entries href only, data values unwrapped, failed references as their error), whose printer is well-formed by construction; the expansion terminates with a body on every finite closed graph (cycles of any length, self references, shared children)",
        "correspondence_only": "that the real encoders write what the modelled ones do (differential run on random graphs against the real encoders built on synthetic Subscription trees; independent Go reference renderer as spec monitor; HTTP GET through the real gateway in lockstep incl. status and body); POST result / 204 / Location and HEAD are not modelled (POST paths: pure path suite only)",
        "assumptions": ["leaf values are well-formed JSON (validated by encoding/json on entry)", "references of a loaded subscription always resolve (closed graph)"],
    },

    "C20": {
        "suites": [("pure", "svc")],
        "theorems_carry": "the service shell's state machine: no connection unless running, Stop idempotent, the stop value is the cause and is sent exactly once per Stop for every operation sequence, restart possible, well-formedness invariant",
        "correspondence_only": "socket closure, HTTP 503 after the fault, stop channel value, bounded duration and restart on the real Service (words over start/stop/connection-loss/connect/http with idle client sockets); Stop in the middle of gateway work (pending requests, evictions) is exercised at the end of every gw history only; a messaging client whose Close does not return (Stop's own 3 s bound, then restart). D20 (socket surviving Stop during the upgrade) was repaired by 6a0306a and its case stays in the suite.",
        "assumptions": ["partial: socket closure, goroutine exit and wall-clock bounds are runtime behaviour the model cannot exhibit", "Stop/Start are called sequentially by the harness"],
    },
    "C18": {
        "suites": [("pure", "nats")],
        "theorems_carry": "the per-request completion machine: for every order of replies, pre-responses (timeout extensions), no-responder statuses and timer fires the callback runs at most once, never after completion; a pending request always owns a live timer whose firing completes it with system.timeout; the first real reply wins; the control-line guard refuses exactly the subjects whose PUB line would not fit",
        "correspondence_only": "the real adapter against an in-harness NATS text-protocol server: scripted reply/pre-response/503/silence behaviours (callback count and kind equal the model's), over-long subjects, event delivery order per subscription, closed handler after connection loss, subject lengths around the control-line limit (the server never sees an over-long line). Defect D6 (guard ignoring separators and size digits) repaired in /repo.",
        "assumptions": ["partial: timers are real time; that a live timer fires, and races between a reply and a timer firing at the same instant, are runtime behaviour the model cannot exhibit (the adapter serialises them with a mutex; the harness only observes the callback count)", "the fake server implements the subset of the NATS protocol the client uses (INFO/CONNECT/PING/PONG/SUB/UNSUB/PUB/MSG/HMSG) and nats-server's control-line check"],
    },
}
